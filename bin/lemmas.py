"""E5: Apalache lemmas (bounded check of length 0 = "for all values of the variables chosen in Init")."""
import os, re, shutil, subprocess, time
import vlib

def run_lemma(l):
    """l = dict(module, inv, cinit=None, expect='hold'|'refuted', timeout=300, about). Returns a stats dict; raises ToolError when
    an expected lemma is refuted or a negative control is not refuted. A timeout is 'not discharged' (reported, never counted)."""
    out_dir = os.path.join(vlib.WORK, "apalache.%s.%s.%d" % (l["module"], l["inv"], os.getpid()))
    cmd = ["apalache-mc", "check", "--length=0", "--init=Init", "--next=Next", "--inv=" + l["inv"], "--out-dir=" + out_dir]
    if l.get("cinit"):
        cmd.append("--cinit=" + l["cinit"])
    cmd.append(l["module"] + ".tla")
    t0 = time.time()
    try:
        r = subprocess.run(cmd, cwd=vlib.SPEC, capture_output=True, text=True, timeout=l.get("timeout", 300))
        out = r.stdout + r.stderr
    except subprocess.TimeoutExpired:
        out = "TIMEOUT"
    finally:
        shutil.rmtree(out_dir, ignore_errors=True)
    wall = time.time() - t0
    if "The outcome is: NoError" in out:
        res = "hold"
    elif "The outcome is: Error" in out or "violat" in out.lower() and "counterexample" in out.lower():
        res = "refuted"
    elif out == "TIMEOUT":
        res = "timeout"
    else:
        raise vlib.ToolError("apalache failed on %s/%s:\n%s" % (l["module"], l["inv"], out[-1500:]))
    expect = l.get("expect", "hold")
    name = "%s.%s%s" % (l["module"], l["inv"], ("[" + l["cinit"] + "]") if l.get("cinit") else "")
    vlib.log("lemma %s: %s (expected %s), %.1fs" % (name, res, expect, wall))
    if res != "timeout" and res != expect:
        raise vlib.ToolError("lemma %s: apalache says %s but %s was expected" % (name, res, expect))
    return dict(lemma=name, expect=expect, result=res, discharged=(res == expect), wall_s=round(wall, 1), about=l.get("about", ""))
