"""Property table: which models, plans, driver suites and trace specifications decide each property."""

PROPS = {
    "C01": dict(
        level="model_checking",
        rule="events = sm3_hash calls on generated/random messages; distinct = distinct (generator, length / bytes); "
             "non-trivial = every event (each exercises padding + compression); model states = MC_SM3 toy-exhaustive",
        models=[dict(module="MC_SM3", about="PadImpl = Pad, padding invariants for every length 0..1100 and giant lengths; machine = Hash for all splits")],
        stages=[dict(suite="sm3", trace="TraceSM3",
                     required_classes={"both": ["sm3.hash/empty", "sm3.hash/r55", "sm3.hash/r56", "sm3.hash/r63", "sm3.hash/r0", "sm3.hash/multi"]})],
        assumptions=["SM3.tla transcribes GB/T 32905 (anchored by the standard's examples and OpenSSL digests as ASSUMEs)",
                     "TLC, CommunityModules Json/IOUtils/Bitwise"],
    ),
}

# what MANIFEST.json says about each claimed check
MANIFEST_TEXT = {
    "C01": dict(
        text="TLC evaluates the GB/T 32905 definition (SM3.tla, anchored by the standard's examples) on every recorded sm3_hash event of the real "
             "library: every length 0..300 (quick) / 0..4096 (thorough) in several content classes with the machine state carried across the session, "
             "single-bit messages over three blocks, random multi-block messages, purity sequences; plus an exhaustive toy model (MC_SM3) showing that the "
             "code-shaped padding loop equals the standard padding for every length 0..1100 and giant bit lengths, and that block iteration equals the definition for every split.",
        note="Trusted: TLC/SANY, CommunityModules (Json, IOUtils, Bitwise), the transcription of GB/T 32905 in SM3.tla (checked by ASSUMEd vectors on every run), the harness's logging.",
        technique="TLA+ trace validation with TLC (SM3 machine) + TLC exhaustive toy model of padding/iteration",
    ),
}

NOT_APPLICABLE = {
    "C02": "machinery for this property is not built yet in this round (specification module in progress); not claimed until its check is sound",
    "C03": "machinery for this property is not built yet in this round (specification module in progress); not claimed until its check is sound",
    "C04": "machinery for this property is not built yet in this round (specification module in progress); not claimed until its check is sound",
    "C05": "machinery for this property is not built yet in this round (specification module in progress); not claimed until its check is sound",
    "C06": "machinery for this property is not built yet in this round (specification module in progress); not claimed until its check is sound",
    "C07": "machinery for this property is not built yet in this round (specification module in progress); not claimed until its check is sound",
    "C08": "machinery for this property is not built yet in this round (specification module in progress); not claimed until its check is sound",
    "C09": "machinery for this property is not built yet in this round (specification module in progress); not claimed until its check is sound",
    "C10": "machinery for this property is not built yet in this round (specification module in progress); not claimed until its check is sound",
    "C11": "machinery for this property is not built yet in this round (specification module in progress); not claimed until its check is sound",
    "C12": "machinery for this property is not built yet in this round (specification module in progress); not claimed until its check is sound",
    "C13": "machinery for this property is not built yet in this round (specification module in progress); not claimed until its check is sound",
    "C14": "machinery for this property is not built yet in this round (specification module in progress); not claimed until its check is sound",
    "C15": "machinery for this property is not built yet in this round (specification module in progress); not claimed until its check is sound",
    "C16": "machinery for this property is not built yet in this round (specification module in progress); not claimed until its check is sound",
    "C17": "machinery for this property is not built yet in this round (specification module in progress); not claimed until its check is sound",
    "C18": "machinery for this property is not built yet in this round (specification module in progress); not claimed until its check is sound",
    "C19": "machinery for this property is not built yet in this round (specification module in progress); not claimed until its check is sound",
    "C20": "machinery for this property is not built yet in this round (specification module in progress); not claimed until its check is sound",
}
