"""Property table: which models, plans, driver suites and trace specifications decide each property."""

PROPS = {
    "C01": dict(
        level="model_checking",
        rule="events = sm3_hash calls on generated/random messages; distinct = distinct (generator, length / bytes); "
             "non-trivial = every event (each exercises padding + compression); model states = MC_SM3 toy-exhaustive",
        models=[dict(module="AnchorSM3", anchor=True, about="SM3.tla reproduces the OpenSSL-made digests of corpus/sm3_openssl_bytes.ndjson"),
                dict(module="MC_SM3", about="PadImpl = Pad, padding invariants for every length 0..1100 and giant lengths; machine = Hash for all splits")],
        stages=[dict(suite="sm3", nda="compare", trace="TraceSM3", plan=dict(module="PlanSM3", cfg_quick="PlanSM3_q", cfg_thorough="PlanSM3_t"),
                     required_classes={"both": ["sm3.hash/empty", "sm3.hash/r55", "sm3.hash/r56", "sm3.hash/r63", "sm3.hash/r0", "sm3.hash/multi", "sm3.block/hook-block", "sm3.final/giant-final", "sm3.hash/crafted-internal", "sm3.hash/crafted-value"]})],
        assumptions=["SM3.tla transcribes GB/T 32905 (anchored by the standard's examples and OpenSSL digests as ASSUMEs)",
                     "TLC, CommunityModules Json/IOUtils/Bitwise"],
    ),
    "C02": dict(
        level="model_checking",
        rule="events = Sm4Cipher::new / encrypt / decrypt calls; distinct = distinct (op, key-derived session, block); non-trivial = block operations and key schedules "
             "(all are); sequences come from the TLC plan PlanSM4 (every call sequence up to the bound)",
        models=[dict(module="AnchorSM4", anchor=True, about="SM4.tla/BlockModes.tla reproduce the 42 OpenSSL-made ECB/CBC/CFB/OFB/CTR vectors"),
                dict(module="MC_Feistel", cfg="MC_Feistel_q", tier="quick", about="4-branch Feistel, every round function T, every key sequence, every block: Dec o Enc = id (2 rounds)"),
                dict(module="MC_Feistel", tier="thorough", timeout=1200, about="same with 4 rounds: 16.8M states"),
                dict(module="MC_Feistel", cfg="MC_Feistel_neg", expect="violation", about="negative: decryption with round keys in the same order must be refuted")],
        stages=[dict(suite="sm4blk", nda="compare", trace="TraceSM4", plan=dict(module="PlanSM4", cfg_quick="PlanSM4_q", cfg_thorough="PlanSM4_t"),
                     required_classes={"both": ["sm4.enc/sm4.enc.cloned", "sm4.dec/sm4.dec.cloned", "sm4.enc/sm4.enc.badlen", "sm4.dec/sm4.dec.badlen", "sm4.enc/sm4.enc.fresh", "sm4.dec/sm4.dec.prev", "sm4.enc/sm4.enc.repeat", "sm4.dec/sm4.dec.fresh", "sm4.enc/sm4.enc.crafted", "sm4.dec/sm4.dec.crafted", "sm4.enc/sm4.enc.craftedkey"]})],
        assumptions=["SM4.tla transcribes GB/T 32907 (S-box defined algebraically and ASSUMEd equal to the table; standard example as ASSUME)"],
    ),
    "C07": dict(
        level="model_checking",
        rule="events = Sm4CipherMode encrypt/decrypt calls; distinct = distinct (mode, dir, key, iv, data); non-trivial = all but the bad-IV error events",
        trivial_classes=("cbc.enc.badiv", "cbc.dec.badiv", "cfb.enc.badiv", "cfb.dec.badiv", "ofb.enc.badiv", "ofb.dec.badiv", "ctr.enc.badiv", "ctr.dec.badiv"),
        models=[dict(module="AnchorSM4", anchor=True, about="SM4.tla/BlockModes.tla reproduce the 42 OpenSSL-made ECB/CBC/CFB/OFB/CTR vectors"),
                dict(module="MC_Modes", tier="quick", about="toy cipher: every mode/key/IV/data string of 0..5 symbols: round trip, lengths, total decryption, IV rule, counter law"),
                dict(module="MC_Modes", cfg="MC_Modes_t", tier="thorough", timeout=1800, about="same for strings of 0..7 symbols, 8 keys"),
                dict(module="MC_Modes", cfg="MC_Modes_neg", expect="violation", about="negative: counter increment without carry must be refuted")],
        stages=[dict(suite="sm4mode", nda="compare", trace="TraceSM4",
                     required_classes={"both": ["sm4.mode/ctr.enc.blocks+tail.large", "sm4.mode/ctr.dec.blocks+tail.large", "sm4.mode/cbc.dec.blocks.large", "sm4.mode/cfb.dec.blocks+tail.large", "sm4.mode/ofb.enc.blocks+tail.large", "sm4.mode/ctr.enc.carry", "sm4.mode/ctr.enc.wrap", "sm4.mode/cbc.enc.len0", "sm4.mode/cbc.dec.len0", "sm4.mode/cbc.enc.blocks",
                                                "sm4.mode/cfb.dec.blocks+tail", "sm4.mode/ofb.enc.blocks+tail", "sm4.mode/cbc.enc.badiv"]})],
        assumptions=["BlockModes.tla transcribes the standard modes (CBC+PKCS#7, CFB-128, OFB, CTR-BE128); anchored by OpenSSL-made vectors"],
    ),
    "C08": dict(
        level="model_checking",
        rule="events = ZUC::new and generate_keystream(n) calls; sessions = generators; distinct = distinct (key, iv, request history); non-trivial = requests with n > 0 "
             "and zero-length requests that are followed by further requests (all but the 'new' events)",
        trivial_classes=("new",),
        models=[dict(module="MC_Mersenne", about="end-around-carry addition and rotation modulo 2^5-1, every operand pair: equals arithmetic mod 2^w-1"),
                dict(module="MC_ZUCJump", cfg="MC_ZUCJump_q", tier="quick", workers=8, about="LFSR skip-ahead (x^n mod the feedback polynomial over GF(2^31-1), used to check the register after a skipped stretch of 2^27 words) = n single LFSRWork steps, 3 registers x 10 step counts"),
                dict(module="MC_ZUCJump", cfg="MC_ZUCJump", tier="thorough", workers=8, timeout=1800, about="same, 6 registers (official keys, all-ones, all-(2^31-1) cells) x 53 step counts up to 4099"),
                dict(module="MC_ZUCSplit", about="request layer refines the word-at-a-time stream for every composition (toy totals), zero-length requests included")],
        stages=[dict(suite="zuc", nda="compare", trace="TraceZUC", plan=dict(module="PlanZUC", cfg_quick="PlanZUC_q", cfg_thorough="PlanZUC_t"),
                     required_classes={"both": ["zuc.req/first", "zuc.req/continued", "zuc.req/zero-length", "zuc.new/new.add31-boundary", "zuc.skip/skip", "zuc.req/first.r-zero", "zuc.req/continued.r-zero"]})],
        assumptions=["ZUC.tla transcribes GM/T 0001 / ZUC v1.6 (three official vectors and the structural S-box definitions as ASSUMEs)"],
    ),
    "C18": dict(
        level="model_checking",
        rule="events = EEA::encrypt / EIA::gen_mac calls on fresh objects; distinct = distinct (key, count, bearer, direction, length, message); non-trivial = all",
        models=[dict(module="MC_EEA", about="mask / bit-extraction / shift helpers equal their bit-level meaning for every shift and basis word; IV layouts for all bearers/directions")],
        stages=[dict(suite="eea", nda="compare", trace="TraceZUC",
                     required_classes={"both": ["eea.encrypt/eea.len%32=0", "eea.encrypt/eea.len%32=1", "eea.encrypt/eea.len%32=31", "eia.mac/eia.len0", "eea.encrypt/eea.len0", "eia.mac/eia.len%32=0", "eia.mac/eia.len-other", "eea.encrypt/eea.len-other.add31-boundary", "eia.mac/eia.len-other.add31-boundary"]})],
        assumptions=["EEA3.tla transcribes 3GPP TS 35.221 (official test sets as ASSUMEs) over ZUC.tla"],
    ),
    "C03": dict(
        lemmas=[dict(module="LemmaFnAdd", inv="InvCanon", cinit="CInitN2", about="fn_add / fn_sub exact for all canonical 256-bit operands mod n (Apalache)"),
                dict(module="LemmaFnAdd", inv="InvAny", cinit="CInitN2", expect="refuted", tier="thorough", about="negative control: not exact for arbitrary 256-bit operands (e + x1 >= 2n)")],
        level="model_checking",
        rule="events = sign calls under the RNG hook (nonce observed or scripted) and verify calls on library-made, spec-made and OpenSSL-made signatures; "
             "distinct = distinct (key, id, message, nonce); non-trivial = all",
        models=[dict(module="AnchorSM2", anchor=True, workers=1, about="SM2.tla reproduces the GM/T 0003.5 Annex signature, ciphertext and key agreement values (ASSUMEs)"),
                dict(module="MC_SM2Sig", cfg="MC_SM2Sig_q_none", tier="quick", about="toy curve F_11 (n = 7): every d, k, digest: Sign in range and verifies, code-shaped signer = standard; every (r', s') of the byte range: VerifyImpl <=> Valid"),
                dict(module="MC_SM2Sig", cfg="MC_SM2Sig_none", tier="thorough", timeout=1500, about="same on the F_23 curve (n = 29), byte range 0..31: 268 801 states")],
        stages=[dict(suite="sm2sig", nda="validate", trace="TraceSM2", plan=dict(module="PlanSM2Sig", cfg_quick="PlanSM2Sig_q", cfg_thorough="PlanSM2Sig_t"),
                     required_classes={"both": ["sm2.verify_digest/digest.big-e", "sm2.verify_digest/digest.gen-key", "sm2.sign/fixed-nonce", "sm2.sign/free-nonce", "sm2.verify/untouched", "sm2.sign_digest/retry.r=0", "sm2.sign_digest/retry.r+k=n", "sm2.sign_digest/retry.s=0", "sm2.verify_digest/digest.sparse-t", "sm2.verify_digest/digest.edge-valid"]})],
        assumptions=["SM2.tla transcribes GB/T 32918.2 (anchored by the GM/T 0003.5 Annex A signature as ASSUME)", "BigNat Java override (cross-checked by MC_BigNat)"],
    ),
    "C04": dict(
        level="fault_enumeration",
        rule="events = verify calls on valid signatures and on enumerated faults (all 512 bit flips, component substitutions, lengths 0..130, altered message/id/key, "
             "crafted digest-level cases from the TLC plan); distinct = distinct (key, id, message, signature bytes); non-trivial = all faulted events (class != untouched)",
        trivial_classes=("untouched",),
        models=[dict(module="AnchorSM2", anchor=True, workers=1, about="SM2.tla reproduces the GM/T 0003.5 Annex values"),
                dict(module="MC_SM2Sig", cfg="MC_SM2Sig_q_none", tier="quick", about="toy curve F_11 (n = 7): every d, k, digest: Sign in range and verifies, code-shaped signer = standard; every (r', s') of the byte range: VerifyImpl <=> Valid"),
                dict(module="MC_SM2Sig", cfg="MC_SM2Sig_none", tier="thorough", timeout=1500, about="same on the F_23 curve (n = 29), byte range 0..31: 268 801 states"),
                dict(module="MC_SM2Sig", cfg="MC_SM2Sig_q_s-range", expect="violation", about="negative: verification without the s-range check must be refuted"),
                dict(module="MC_SM2Sig", cfg="MC_SM2Sig_q_t-zero", expect="violation", about="negative: verification without the t = 0 check must be refuted"),
                dict(module="MC_SM2Sig", cfg="MC_SM2Sig_q_compare", expect="violation", about="negative: verification without the final comparison must be refuted"),
                dict(module="MC_SM2Sig", cfg="MC_SM2Sig_q_zero", expect="violation", about="negative: verification without the r,s != 0 check must be refuted"),
                dict(module="MC_SM2Sig", cfg="MC_SM2Sig_q_inf", expect="violation", about="negative: the pinned commit's handling of [s]G + [t]P = O (x1 read as 0) must be refuted")],
        stages=[dict(suite="sm2ver", nda="validate", trace="TraceSM2", plan=dict(module="PlanSM2Sig", cfg_quick="PlanSM2Sig_q", cfg_thorough="PlanSM2Sig_t"),
                     required_classes={"both": ["sm2.verify/altered-id-edge", "sm2.verify_digest/digest.neg-gen-key", "sm2.verify_digest/digest.gen-key", "sm2.verify_digest/digest.big-e", "sm2.verify/untouched", "sm2.verify/tampered64", "sm2.verify/len<64", "sm2.verify/len>64",
                                                "sm2.verify_digest/digest.small-s", "sm2.verify_digest/digest.s+n", "sm2.verify_digest/digest.r+n", "sm2.verify_digest/digest.t=0", "sm2.verify_digest/digest.sum-is-infinity", "sm2.verify_digest/digest.near-miss",
                                                "sm2.verify_digest/digest.s=0", "sm2.verify_digest/digest.r=0", "sm2.verify_digest/digest.s=n", "sm2.verify_digest/digest.r=n", "sm2.verify_digest/digest.sparse-t"]})],
        assumptions=["SM2.tla transcribes GB/T 32918.2", "BigNat Java override (cross-checked by MC_BigNat)"],
    ),
    "C05": dict(
        level="model_checking",
        rule="events = encrypt calls under the RNG hook (k observed or scripted), decrypt calls on library-made and spec-made ciphertexts, kdf calls; "
             "distinct = distinct (key, k, message, format); non-trivial = all",
        models=[dict(module="MC_KDF", workers=2, about="L1 model of the kdf loop (bound = ceil(klen/V), bound-1 blocks, last block whole or klen%V bytes) = the first klen bytes of H(Z||1)||H(Z||2)||... for every klen 1..40 (abstract 4-byte hash)"),
                dict(module="MC_KDF", cfg="MC_KDF_plus1", expect="violation", workers=2, about="negative: bound = klen/V + 1 must be refuted"),
                dict(module="MC_KDF", cfg="MC_KDF_droplast", expect="violation", workers=2, about="negative: last block skipped when klen%V = 0 must be refuted"),
                dict(module="MC_Cubic", workers=4, about="the cubic solver the plan uses to SOLVE for curve points with a prescribed y^2 (Cubic.tla) is right for every prime P = 3 mod 4 below 100 and 251, every A, every c: a reported root is a root, 'none' means none, 'split' means three roots"),
                dict(module="AnchorSM2", anchor=True, workers=1, about="SM2.tla reproduces the GM/T 0003.5 Annex values"),
                dict(module="MC_SM2Enc", cfg="MC_SM2Enc_q_none", tier="quick", about="toy curve F_11, symbols 0..11: every key, nonce, message, order, encoding round-trips; code-shaped decryptor = declarative decryptor on EVERY symbol string of ciphertext length"),
                dict(module="MC_SM2Enc", cfg="MC_SM2Enc_none", tier="thorough", timeout=900, about="same with symbols 0..15 (5.5 M states)")],
        stages=[dict(suite="sm2enc", nda="validate", trace="TraceSM2", plan=dict(module="PlanSM2Enc", cfg_quick="PlanSM2Enc_q", cfg_thorough="PlanSM2Enc_t"),
                     required_classes={"both": ["sm2.encrypt/c1c2c3.uncomp.short.retry", "sm2.encrypt/c1c3c2.comp.short.retry", "sm2.decrypt/valid-window-y2", "sm2.decrypt/comp-valid-window-y2", "sm2.decrypt/valid-window-x2", "sm2.decrypt/valid-small-x", "sm2.encrypt/c1c3c2.uncomp.klen%32=0", "sm2.encrypt/c1c2c3.comp.short", "sm2.decrypt/own-ciphertext", "sm2.decrypt/spec-made", "sm2.decrypt/weak-zero", "sm2.decrypt/all-zero-t", "sm2.kdf/klen%32=0", "codec.asn1_dec/asn1.dec.interop", "codec.asn1_dec/asn1.dec.interop-short-coord"]})],
        assumptions=["SM2.tla transcribes GB/T 32918.4 (anchored by the GM/T 0003.5 Annex ciphertext as ASSUME)"],
    ),
    "C06": dict(
        level="fault_enumeration",
        rule="events = decrypt calls on valid ciphertexts and enumerated faults (every bit flip, every truncation, replaced / crafted C1 from the TLC plan); "
             "distinct = distinct (key, ciphertext bytes, format flags); non-trivial = all faulted events",
        trivial_classes=("untouched",),
        models=[dict(module="AnchorSM2", anchor=True, workers=1, about="SM2.tla reproduces the GM/T 0003.5 Annex values"),
                dict(module="MC_SM2Enc", cfg="MC_SM2Enc_q_none", tier="quick", about="toy curve F_11, symbols 0..11: every key, nonce, message, order, encoding round-trips; code-shaped decryptor = declarative decryptor on EVERY symbol string of ciphertext length"),
                dict(module="MC_SM2Enc", cfg="MC_SM2Enc_none", tier="thorough", timeout=900, about="same with symbols 0..15 (5.5 M states)"),
                dict(module="MC_SM2Enc", cfg="MC_SM2Enc_q_curve", expect="violation", about="negative: decryption without the on-curve check (invalid-curve points) must be refuted"),
                dict(module="MC_SM2Enc", cfg="MC_SM2Enc_range", expect="violation", about="negative: coordinates >= p reduced instead of rejected must be refuted"),
                dict(module="MC_SM2Enc", cfg="MC_SM2Enc_q_prefix", expect="violation", about="negative: any prefix byte read as uncompressed must be refuted"),
                dict(module="MC_SM2Enc", cfg="MC_SM2Enc_q_hash", expect="violation", about="negative: decryption without the C3 comparison must be refuted")],
        stages=[dict(suite="sm2dec", nda="validate", trace="TraceSM2", plan=dict(module="PlanSM2Enc", cfg_quick="PlanSM2Enc_q", cfg_thorough="PlanSM2Enc_t"),
                     required_classes={"both": ["sm2.decrypt/valid-sparse-mont-x", "sm2.decrypt/negate-c1", "sm2.decrypt/untouched", "sm2.decrypt/flip-c1", "sm2.decrypt/flip-body", "sm2.decrypt/truncated",
                                                "sm2.decrypt/offcurve", "sm2.decrypt/retag", "sm2.decrypt/retag-junk-y", "sm2.decrypt/valid-window-y2", "sm2.decrypt/comp-valid-window-y2", "sm2.decrypt/valid-window-x2+a", "codec.asn1_dec/asn1.dec.valid-window-y2", "sm2.decrypt/x+p", "sm2.decrypt/nonresidue", "sm2.decrypt/valid-small-x", "codec.asn1_dec/asn1.dec.offcurve", "codec.asn1_dec/asn1.dec.valid-small-x", "sm2.decrypt/fold-c3", "sm2.decrypt/c1-zero-forged", "codec.asn1_dec/asn1.dec.c1-zero-forged"]})],
        assumptions=["SM2.tla transcribes GB/T 32918.4 and the SEC1 point decoding rules"],
    ),
    "C15": dict(
        level="model_checking",
        rule="sessions = key agreement runs (4 steps) on real keys; every step event is judged from its logged inputs; distinct = distinct (keys, ephemerals, tamper subset/kind, klen); "
             "non-trivial = all step events; model states = MC_SM2Kex (toy group, every key pair / ephemeral / tamper choice)",
        models=[dict(module="AnchorSM2", anchor=True, workers=1, about="SM2.tla reproduces the GM/T 0003.5 Annex key agreement values K, S_B, S_A"),
                dict(module="MC_SM2Kex", about="toy group Z_7: all keys, ephemerals and tamper choices: honest => both accept and agree; acceptance => authentic; invalid ephemeral => receiver fails"),
                dict(module="MC_SM2Kex", cfg="MC_SM2Kex_neg", expect="violation", about="negative: a validity test that accepts the point at infinity must be refuted")],
        stages=[dict(suite="sm2kex", nda="validate", trace="TraceSM2", plan=dict(module="PlanKex"),
                     required_classes={"both": ["kx.step2/step2.none", "kx.step3/step3.none", "kx.step4/step4.none", "kx.step2/step2.offcurve", "kx.step2/step2.infinity",
                                                "kx.step3/step3.bitflip", "kx.step4/step4.other", "kx.step2/step2.rerand", "kx.step3/step3.offcurve-forged", "kx.step2/step2.vzero", "kx.step2/step2.tzero", "kx.step2/step2.rerun", "kx.step2/step2.kzero", "kx.step3/step3.rerun", "kx.step4/step4.rerun"]})],
        assumptions=["SM2.tla transcribes GB/T 32918.3 with w = 127 and one-byte tags (GM/T 0003.5 Annex values as ASSUMEs)"],
    ),
    "C14": dict(
        level="model_checking",
        rule="events = randomized operations (SM2 keygen/sign/encrypt/exchange steps, SM9 keygen/sign/encrypt/exchange) with the sampler's candidate log from the RNG hook, "
             "in two driver processes, plus injected out-of-range candidates; distinct = distinct accepted scalars; non-trivial = all operations",
        models=[dict(module="Rng", about="toy sampler machine: all candidate sequences <= 3 per operation: used scalars are in range, accepted during the operation, one per operation"),
                dict(module="Rng", cfg="Rng_neg", expect="violation", about="negative: a sampler accepting candidates up to CMax-1 (like c < p-1) must be refuted")],
        stages=[dict(suite="rng", nda="validate", trace="TraceRng", workers=1,
                     required_classes={"both": ["rng.op/sm2.sign", "rng.op/sm2.keygen", "rng.op/sm2.encrypt", "rng.op/sm2.kx1", "rng.op/sm2.kx2", "rng.op/sm2.sign.injected", "rng.op/sm9.sign", "rng.op/sm9.encrypt", "rng.op/sm9.keygen-sign", "rng.op/sm9.keygen-sign2", "rng.op/sm9.keygen-enc", "rng.op/sm9.keygen-enc2", "rng.op/sm9.kx1a", "rng.op/sm9.kx1b", "rng.op/sm9.sign.injected", "rng.op/sm9.encrypt.retry", "rng.summary/summary"]})],
        assumptions=["bit-unbiasedness is a counting test (8 sigma per bit position); OS seeding is observed only through non-repetition across two processes",
                     "the RNG hook reports every candidate at the point where 32 generator bytes become a candidate"],
    ),
    "C19": dict(
        level="model_checking",
        rule="events = encoders (all forms of a key), decoders on canonical / malformed / OpenSSL-made input, ASN.1 ciphertext encoders/decoders with searched ephemeral scalars; "
             "distinct = distinct (operation, input bytes); non-trivial = all",
        models=[dict(module="MC_DerInt", workers=2, about="L1 model of the DER INTEGER shaping of C1.x / C1.y (minimal digits + sign digit; decoder strips, bounds, LEFT-pads) = the fixed-width coordinate, for every value at toy width (base 4, 4 digits); over-long INTEGERs rejected"),
                dict(module="MC_DerInt", cfg="MC_DerInt_rightpad", expect="violation", workers=2, about="negative: padding appended on the right must be refuted"),
                dict(module="MC_DerInt", cfg="MC_DerInt_onezero", expect="violation", workers=2, about="negative: restoring at most one dropped zero digit must be refuted"),
                dict(module="AnchorSM2Codec", anchor=True, about="SM2Codec.tla reproduces the OpenSSL-made SPKI/PKCS#8 DER+PEM and decodes/re-encodes/decrypts the 18 OpenSSL GM/T 0009 ciphertexts")],
        stages=[dict(suite="sm2codec", nda="validate", trace="TraceSM2",
                     required_classes={"both": ["codec.decode/decode.pk_bytes.untagged", "codec.decode/decode.spki_der.untagged", "codec.decode/decode.pk_hex.odd-digits", "codec.decode/decode.sk_hex.odd-digits", "codec.decode/decode.pk_hex.uppercase", "codec.encode/encode.plain", "codec.decode/decode.pk_bytes.roundtrip", "codec.decode/decode.pkcs8_der.compressed-pub", "codec.decode/decode.pkcs8_der.no-pub", "codec.decode/decode.spki_der.compressed-pub", "codec.decode/decode.pkcs8_pem.compressed-pub", "codec.decode/decode.spki_pem.compressed-pub", "codec.decode/decode.spki_pem.openssl", "codec.decode/decode.pkcs8_pem.openssl",
                                                "codec.decode/decode.pk_bytes.off-curve", "codec.asn1_enc/asn1.enc.x-lead0x1", "codec.asn1_enc/asn1.enc.y-lead0x1", "codec.asn1_enc/asn1.enc.x-lead0x2", "codec.asn1_enc/asn1.enc.y-lead0x2", "codec.asn1_dec/asn1.dec.openssl"]})],
        assumptions=["SM2Codec.tla: SEC1 / hex / SPKI / PKCS#8 templates / PEM / GM/T 0009 DER, anchored by OpenSSL-made documents (committed corpus, not a live OpenSSL)"],
    ),
    "C11": dict(
        lemmas=[dict(module="LemmaFnAdd", inv="InvCanon", cinit="CInitP2", about="fp_add / fp_sub exact for all canonical operands mod p (Apalache)"),
                dict(module="LemmaMont", inv="Inv", cinit="CInitP2", about="final correction of mont_mul mod p: result canonical, equals t or t-p, no overflow, for all z <= (p-1)^2"),
                dict(module="LemmaMont", inv="Inv", cinit="CInitN2", tier="thorough", about="same for the Montgomery multiplication mod n"),
                dict(module="LemmaFnAdd", inv="InvCanon", cinit="CInitN2", tier="thorough", about="fn_add / fn_sub exact mod n"),
                dict(module="LemmaMont", inv="InvNoSub", cinit="CInitP2", expect="refuted", tier="thorough", about="negative control: the conditional subtraction is needed")],
        level="model_checking",
        rule="events = point operations on Jacobian/Montgomery representations, field operations on boundary/random canonical operands, all 8160 fixed-base table entries; "
             "distinct = distinct (operation, operands); non-trivial = all",
        models=[dict(module="MC_BigNat", cfg="MC_BigNat_q", tier="quick", about="BigNat Java override = pure TLA+ definitions on boundary operands (reduced set)"),
                dict(module="MC_BigNat", tier="thorough", timeout=1500, about="BigNat Java override = pure TLA+ definitions on boundary/random operands"),
                dict(module="MC_JacobianImpl", cfg="MC_JacobianImpl_add", about="L1 transcription of point_add/point_dbl on the F_23 toy curve = affine group law for all 124 609 pairs of Jacobian representations"),
                dict(module="MC_JacobianImpl", cfg="MC_JacobianImpl_neg", expect="violation", about="negative: the pinned commit's point_add (no same-point-different-Z case) must be refuted"),
                dict(module="MC_JacobianImpl", cfg="MC_JacobianImpl_mulq", tier="thorough", timeout=1500, about="4-bit window scalar_mul = [k]P for every representation x every 8-bit scalar (F_11 curve, n = 7: scalars up to 36n)"),
                dict(module="MC_JacobianImpl", cfg="MC_JacobianImpl_mulneg", expect="violation", about="negative: window multiplication over the unfixed addition must be refuted"),
                dict(module="MC_Mont", about="register-level Montgomery mul / add / sub with R = 2^7: every prime in (64,128) x every operand pair")],
        stages=[dict(suite="sm2ec", nda="compare", trace="TraceSM2", plan=dict(module="PlanField", cfg_quick="PlanField", cfg_thorough="PlanField_t"),
                     required_classes={"both": ["fp.op/fp.mul.low-words-zero", "fp.op/fp.sqr.low-words-zero", "fp.op/fp.pow.all-digits", "ec.valid_affine/valid-affine.x=0", "ec.valid_affine/valid-affine.on", "ec.valid_affine/valid-affine.off", "fp.op/fp.mul.planned-window", "fn.op/fn.mul.planned-window", "ec.add/add.P=Q", "ec.add/add.P=Q.diffZ", "ec.add/add.P=-Q", "ec.add/add.O+Q", "ec.add/add.generic", "ec.add/add.same-y", "ec.add/add.O+Q.otherO", "ec.add/add.P+O.otherO", "ec.add/add.O+O.otherO", "ec.smul/smul.k=n", "ec.smul/smul.k>n",
                                                "ec.smul/smul.k=0", "ec.gmul/gmul.k<n", "ec.valid/valid.off", "ec.table/table.entry", "ec.table/table.row-base",
                                                "fp.op/fp.mul.near-modulus", "fp.op/fp.add.near-2^256-m", "fn.op/fn.add.near-modulus"]})],
        assumptions=["Weierstrass.tla is the affine group law; verdicts are on denotations (X/Z^2, Y/Z^3 of the Montgomery-decoded coordinates)", "BigNat Java override (cross-checked by MC_BigNat)"],
    ),
    "C16": dict(
        lemmas=[dict(module="LemmaHashRange", inv="Bound", about="quotient estimate of mod_n_from_hash: qh <= q <= qh+1 for ALL 2^320 inputs (Apalache)"),
                dict(module="LemmaHashRange", inv="Exact", about="the repaired reduction returns rem (then +1 in [1, N-1]) for ALL 2^320 inputs"),
                dict(module="LemmaHashRange", inv="Pinned", expect="refuted", about="negative control: the pinned commit's reduction is refuted")],
        level="model_checking",
        rule="events = mod_n_from_hash on planned boundary / random 40-byte Ha, H1/H2 wrappers, key extraction for Annex / edge / random / crafted master keys; distinct = distinct inputs; non-trivial = all",
        models=[dict(module="AnchorSM9q", anchor=True, workers=1, tier="quick", about="SM9.tla reproduces the GM/T 0044.5 Annex extraction / signature / ciphertext values via the derived evaluator; G0 has order N"), dict(module="AnchorSM9", anchor=True, workers=1, tier="thorough", timeout=900, about="all GM/T 0044.5 Annex values incl. the definitional pairings, decryption and key exchange; G0Const = Pairing(P1,P2)")],
        stages=[dict(suite="sm9hash", nda="compare", trace="TraceSM9", plan=dict(module="PlanSM9", cfg_quick="PlanSM9_q", cfg_thorough="PlanSM9_t"),
                     required_classes={"both": ["sm9.from_hash/from_hash.rem=0.planned", "sm9.from_hash/from_hash.rem=N-2.planned", "sm9.from_hash/from_hash.rem-generic.random", "sm9.hash1/hash1",
                                                "sm9.extract/extract.sign", "sm9.extract/extract.enc", "sm9.extract/extract.exch", "sm9.extract/extract.sign.none"]})],
        assumptions=["SM9.tla transcribes GM/T 0044 H1/H2 and extraction (Annex values as ASSUMEs)"],
    ),
    "C09": dict(
        level="model_checking",
        rule="events = sign calls under the RNG hook, verify calls on library-made / spec-made signatures and enumerated faults; distinct = distinct inputs; non-trivial = all but untouched verifications",
        trivial_classes=("verify.untouched",),
        models=[dict(module="AnchorSM9q", anchor=True, workers=1, tier="quick", about="SM9.tla reproduces the GM/T 0044.5 Annex extraction / signature / ciphertext values via the derived evaluator; G0 has order N"), dict(module="AnchorSM9", anchor=True, workers=1, tier="thorough", timeout=900, about="all GM/T 0044.5 Annex values incl. the definitional pairings, decryption and key exchange; G0Const = Pairing(P1,P2)"),
                dict(module="MC_SM9Sig", about="exponent model Z_7 with lazily sampled random oracle and single-field tampering: honest => accept; h out of range => error; accepted forgery => coincidence"),
                dict(module="MC_SM9Sig", cfg="MC_SM9Sig_neg", expect="violation", about="negative: the forgery invariant without the coincidence classes must be refuted (invariant is tight)")],
        stages=[dict(suite="sm9sig", nda="validate", trace="TraceSM9", plan=dict(module="PlanSM9", cfg_quick="PlanSM9_q", cfg_thorough="PlanSM9_t"), timeout=3400,
                     required_classes={"both": ["sm9.verify/verify.verifier-only-key", "sm9.sign/sign.no-key", "sm9.sign/sign.fixed-r", "sm9.sign/sign.free-r", "sm9.verify/verify.untouched", "sm9.verify/verify.spec-made", "sm9.verify/verify.h-range",
                                                "sm9.verify/verify.S-bitflip", "sm9.verify/verify.altered-master-key"]})],
        assumptions=["SM9.tla transcribes GM/T 0044.2 (Annex A signature as ASSUME); derived evaluator g = G0^ks for honest events"],
    ),
    "C10": dict(
        level="model_checking",
        rule="events = encrypt calls under the RNG hook, decrypt calls on library-made / spec-made ciphertexts and enumerated faults; distinct = distinct inputs; non-trivial = all",
        models=[dict(module="MC_KDF", workers=2, about="L1 model of the kdf loop (bound = ceil(klen/V), bound-1 blocks, last block whole or klen%V bytes) = the first klen bytes of H(Z||1)||H(Z||2)||... for every klen 1..40 (abstract 4-byte hash)"),
                dict(module="MC_KDF", cfg="MC_KDF_plus1", expect="violation", workers=2, about="negative: bound = klen/V + 1 must be refuted"),
                dict(module="MC_KDF", cfg="MC_KDF_droplast", expect="violation", workers=2, about="negative: last block skipped when klen%V = 0 must be refuted"),
                dict(module="AnchorSM9q", anchor=True, workers=1, tier="quick", about="SM9.tla reproduces the GM/T 0044.5 Annex extraction / signature / ciphertext values via the derived evaluator; G0 has order N"), dict(module="AnchorSM9", anchor=True, workers=1, tier="thorough", timeout=900, about="all GM/T 0044.5 Annex values incl. the definitional pairings, decryption and key exchange; G0Const = Pairing(P1,P2)"),
                dict(module="MC_SM9Proto", cfg="MC_SM9Proto_enc", about="exponent model Z_7: all ke, H1 tables, r, messages: round trip; every replaced C1 (any value or off-curve) / C2 / C3 is rejected"),
                dict(module="MC_SM9Proto", cfg="MC_SM9Proto_enc_nomac", expect="violation", about="negative: decryption without the C3 comparison must be refuted"),
                dict(module="MC_SM9Proto", cfg="MC_SM9Proto_enc_nocurve", expect="violation", about="negative: decryption without the on-curve check of C1 must be refuted")],
        stages=[dict(suite="sm9enc", nda="validate", trace="TraceSM9", plan=dict(module="PlanSM9", cfg_quick="PlanSM9_q", cfg_thorough="PlanSM9_t"), timeout=3400,
                     required_classes={"both": ["sm9.decrypt/decrypt.c1-x+p", "sm9.decrypt/decrypt.c1-y+p", "sm9.encrypt/encrypt.short", "sm9.encrypt/encrypt.len%32=0", "sm9.decrypt/decrypt.none", "sm9.decrypt/decrypt.spec-made", "sm9.decrypt/decrypt.flip-c2",
                                                "sm9.decrypt/decrypt.flip-c1", "sm9.decrypt/decrypt.truncated", "sm9.decrypt/decrypt.c1-offcurve", "sm9.decrypt/decrypt.c1-zero-forged", "sm9.decrypt/decrypt.c1-offcurve-consistent", "sm9.decrypt/decrypt.fold-c3"]})],
        assumptions=["SM9.tla transcribes GM/T 0044.4 with MAC(K2,Z) = SM3(Z||K2) (Annex ciphertext as ASSUME)"],
    ),
    "C17": dict(
        level="model_checking",
        rule="sessions = key exchange runs; every step judged from its logged inputs; distinct = distinct (master key, ids, klen, ephemerals, tamper); non-trivial = all",
        models=[dict(module="MC_KDF", workers=2, about="L1 model of the kdf loop (bound = ceil(klen/V), bound-1 blocks, last block whole or klen%V bytes) = the first klen bytes of H(Z||1)||H(Z||2)||... for every klen 1..40 (abstract 4-byte hash)"),
                dict(module="MC_KDF", cfg="MC_KDF_plus1", expect="violation", workers=2, about="negative: bound = klen/V + 1 must be refuted"),
                dict(module="MC_KDF", cfg="MC_KDF_droplast", expect="violation", workers=2, about="negative: last block skipped when klen%V = 0 must be refuted"),
                dict(module="AnchorSM9q", anchor=True, workers=1, tier="quick", about="SM9.tla reproduces the GM/T 0044.5 Annex extraction / signature / ciphertext values via the derived evaluator; G0 has order N"), dict(module="AnchorSM9", anchor=True, workers=1, tier="thorough", timeout=900, about="all GM/T 0044.5 Annex values incl. the definitional pairings, decryption and key exchange; G0Const = Pairing(P1,P2)"),
                dict(module="MC_SM9Proto", cfg="MC_SM9Proto_kex", about="exponent model Z_7: all ke, H1 tables, rA, rB and every replacement of R_A / R_B: untampered => same key; replaced R => keys differ; off-curve R => receiver fails (702 000 states)"),
                dict(module="MC_SM9Proto", cfg="MC_SM9Proto_kex_nocurve", expect="violation", about="negative: a receiver that skips the on-curve check must be refuted")],
        stages=[dict(suite="sm9kex", nda="validate", trace="TraceSM9", timeout=3400,
                     required_classes={"both": ["sm9kx.1a/kx.1a", "sm9kx.1b/kx.1b.none", "sm9kx.2a/kx.2a.none", "sm9kx.1b/kx.1b.offcurve", "sm9kx.2a/kx.2a.offcurve", "sm9kx.1b/kx.1b.bitflip"]})],
        assumptions=["SM9.tla transcribes GM/T 0044.3 (Annex key exchange value as ASSUME)"],
    ),
    "C12": dict(
        level="model_checking",
        rule="events = pairings evaluated by the library: exact 384-byte comparison with the textbook pairing, bilinearity identities judged against G0^(ab), GT powers; distinct = distinct inputs; non-trivial = all",
        models=[dict(module="AnchorSM9q", anchor=True, workers=1, tier="quick", about="SM9.tla reproduces the GM/T 0044.5 Annex extraction / signature / ciphertext values via the derived evaluator; G0 has order N"), dict(module="AnchorSM9", anchor=True, workers=1, tier="thorough", timeout=900, about="all GM/T 0044.5 Annex values incl. the definitional pairings, decryption and key exchange; G0Const = Pairing(P1,P2)")],
        stages=[dict(suite="sm9pair", nda="compare", trace="TraceSM9", timeout=3400,
                     required_classes={"both": ["sm9.pairing/pairing.exact.generators", "sm9.pairing/pairing.exact.near-order", "sm9.pairing/pairing.exact.random", "sm9.pairing/pairing.exact.annex-g", "sm9.pairing/pairing.exact.identity-g1", "sm9.pairing/pairing.exact.identity-g2", "sm9.pair_ident/pairing.bilinear.q.z=-1", "sm9.pair_ident/pairing.bilinear.q.z=u", "sm9.pair_ident/pairing.bilinear.p.z=-1", "sm9.pair_ident/pairing.bilinear.p.stored-1",
                                                "sm9.pair_ident/pairing.bilinear.random", "sm9.pair_ident/pairing.bilinear.near-order", "gt.pow/gt.pow.e=N-2", "gt.pow/gt.pow.sparse"]})],
        assumptions=["BN.tla: textbook R-ate pairing over Fp[w]/(w^12+2), final exponent by definition; anchored by the Annex value of e(P1, Ppub-s) through the signature example"],
    ),
    "C13": dict(
        lemmas=[dict(module="LemmaMont", inv="Inv", cinit="CInitP9", about="final correction of the SM9 Montgomery multiplication mod p for all z <= (p-1)^2 (Apalache)"),
                dict(module="LemmaFnAdd", inv="InvCanon", cinit="CInitP9", tier="thorough", about="SM9 fp_add / fp_sub exact for canonical operands"),
                dict(module="LemmaFnAdd", inv="InvCanon", cinit="CInitN9", tier="thorough", about="mod_n_add / mod_n_sub exact for canonical operands")],
        level="model_checking",
        rule="events = tower operations on every zero pattern x boundary/random components, mod-N operations, G1/G2 operations on equal/opposite/infinity/generic operands in affine and Jacobian "
             "representations, Booth recodings, all 37x64 table entries; distinct = distinct (operation, operands); non-trivial = all",
        models=[dict(module="MC_Tower", about="the code's Fp2/Fp4 formulas over F_13: every Fp2 pair, every Fp4 element: L1 = L0"),
                dict(module="MC_Tower", cfg="MC_Tower_neg", expect="violation", about="negative: the pinned commit's Fp2::fp_inv (c0 = 0 branch) must be refuted"),
                dict(module="MC_Booth", about="sm9_u256_get_booth on toy limbs: every scalar reconstructs, digits in range, top digit non-negative"),
                dict(module="MC_Mont", about="register-level Montgomery mul / add / sub with R = 2^7")],
        stages=[dict(suite="sm9arith", nda="compare", trace="TraceSM9", timeout=3400,
                     required_classes={"both": ["modn.op/modn.add.near-modulus-sum", "tower.op/fp1.add.near-modulus-sum", "gt.pow/gt.pow.fp12.sparse", "gt.pow/gt.pow.fp12.e=N-2", "tower.op/fp2.inv.z0x", "tower.op/fp2.mul.zxx", "tower.op/fp4.inv.z0x0x", "tower.op/fp12.mul.mfff", "modn.op/modn.mul.near-modulus",
                                                "g1.op/g1.add.P=Q.jac-jac", "g1.op/g1.add.P=-Q.jac-jac", "g2.op/g2.add.P=Q.jac-jac", "g2.op/g2.equals.P=-Q.jac-jac", "g2.op/g2.add.generic.affine-jac", "g2.op/g2.add_full.generic.same-y-jac", "g2.op/g2.add.generic.same-y-affine", "g2.op/g2.add.generic.specialz=-1", "g2.op/g2.add_full.generic.specialz=u",
                                                "booth/booth.w5.recode", "booth/booth.w7.recode", "g1.table/table.entry", "g1.table/table.row-base"]})],
        assumptions=["BN.tla: Fp12 as the polynomial ring Fp[w]/(w^12+2); tower elements are judged through the embedding u = w^6, v = w^3"],
    ),
    "C20": dict(
        level="fault_enumeration",
        rule="events = calls of every byte-consuming entry point (SM2 verify / decrypt raw+ASN.1 / key and point decoders bytes+hex+DER+PEM, SM4 construction / block / mode decryption, SM9 decrypt / "
             "verify, hash-to-range and KDF helpers) on every length with zero / 0xFF / random content, truncations and single-byte corruptions of valid encodings, boundary keys; "
             "distinct = distinct (entry point, input); non-trivial = all",
        models=[dict(module="MC_SignLive", about="toy group: signing terminates (liveness under a fair source) for every key in [1, n-2] and every digest; signatures in range"),
                dict(module="MC_SignLive", cfg="MC_SignLive_neg", expect="violation", about="negative: a constructor admitting d = n-1 must yield the non-terminating lasso")],
        stages=[dict(suite="api", nda="validate", trace="TraceApi",
                     required_classes={"both": ["sm2.verify_longid/sm2.verify_longid.long-id.len>=98", "sm2.sign_longid/sm2.sign_longid.long-id.len>=98", "sm9.verify_s_unreduced/sm9.verify_s_unreduced.degenerate.len0", "sm9.encrypt_q_infinity/sm9.encrypt_q_infinity.degenerate.len0", "sm9.kx1b_r_infinity/sm9.kx1b_r_infinity.degenerate.len0", "sm9.hash2/sm9.hash2.long.len>=98", "sm9.sign_msg/sm9.sign_msg.ladder.len>=98", "sm9.verify_msg/sm9.verify_msg.ladder.len>=98", "sm2.sign_msg/sm2.sign_msg.ladder.len>=98", "sm2.verify/sm2.verify.content.len0", "sm2.decrypt.uncomp/sm2.decrypt.uncomp.content.len<98", "sm4.new/sm4.new.content.len<16", "sm4.cbc_dec/sm4.cbc_dec.content.len0",
                                                "sm9.decrypt/sm9.decrypt.content.len<98", "sm9.from_hash/sm9.from_hash.content.len<40", "sm9.from_hash/sm9.from_hash.content.len<98", "sm2.pkcs8_der/sm2.pkcs8_der.corrupted.len>=98", "sm2.decrypt_asn1/sm2.decrypt_asn1.der-shape.len<98", "sm2.decrypt_asn1/sm2.decrypt_asn1.corrupted.len>=98",
                                                "sm2.sign_with_key/sm2.sign_with_key.d=n-1.len<33", "sm9.verify/sm9.verify.arbitrary.len<33"]})],
        assumptions=["Api.tla: total outcome function; length rules of the standards"],
    ),
}

# what MANIFEST.json says about each claimed check
MANIFEST_TEXT = {
    "C01": dict(
        text="TLC evaluates the GB/T 32905 definition (SM3.tla, anchored by the standard's examples) on every recorded sm3_hash event of the real "
             "library: every length 0..300 (quick) / 0..4096 (thorough) in several content classes with the machine state carried across the session, "
             "single-bit messages over three blocks, random multi-block messages, purity sequences; plus an exhaustive toy model (MC_SM3) showing that the "
             "code-shaped padding loop equals the standard padding for every length 0..1100 and giant bit lengths, and that block iteration equals the definition for every split. Thorough tier: additionally one message of more than 2^32 bytes (block indices beyond 2^26) through the block observer, with Gen.tla addressing bytes by (block, offset). A second plan (PlanSM3) SOLVES for blocks whose round 0 feeds a special word (0, 2^i, 2^i+-1) into P0, register A or P1 -- as first and as second block --; SM3.tla classifies them itself (crafted-value).",
        note="Trusted: TLC/SANY, CommunityModules (Json, IOUtils, Bitwise), the transcription of GB/T 32905 in SM3.tla (checked by ASSUMEd vectors on every run), the harness's logging.",
        technique="TLA+ trace validation with TLC (SM3 machine) + TLC exhaustive toy model of padding/iteration",
    ),
}
MANIFEST_TEXT["C02"] = dict(
    text="Every recorded Sm4Cipher::new / encrypt / decrypt event of the real library is judged by the GB/T 32907 definition in SM4.tla (S-box defined "
         "algebraically, standard example and OpenSSL ECB vectors as anchors). A session is one cipher object whose specification state is the round-key tuple "
         "derived from the construction key and never changes, so history dependence is a deviation; call sequences are ALL sequences up to length 3 (quick) / 4 "
         "(thorough) enumerated by TLC (PlanSM4). The Feistel inversion argument is model-checked for every round function, key sequence and block (MC_Feistel) with a negative control. Besides the enumerated histories (now including calls the object must REFUSE, after which it must behave as before), PlanSM4 crafts blocks by running a chosen mid-cipher state backwards so that the round transform of one chosen round receives 00000000 / FFFFFFFF / D6D6D6D6 / 01010101 (every round, both directions, self-checked by ASSUME).",
    note="Trusted: TLC/SANY, CommunityModules, the transcription of GB/T 32907 in SM4.tla (ASSUMEd vectors), the Debug rendering of Sm4Cipher used to read round keys, harness logging.",
    technique="TLA+ trace validation with TLC (immutable cipher-object machine, TLC-enumerated call sequences) + exhaustive toy Feistel model",
)
MANIFEST_TEXT["C07"] = dict(
    text="Every recorded Sm4CipherMode encrypt/decrypt event (every length 0..70 quick / 0..200 thorough x 4 modes x both directions, carry/wrap IVs, error cases, "
         "OpenSSL corpus) is judged by BlockModes.tla instantiated with SM4 (anchored by 36 OpenSSL-made mode vectors); the same BlockModes module is model-checked "
         "exhaustively over a toy cipher for every mode, key, IV and data string (round trip, lengths, total decryption, IV rule, counter law) with a negative control. Inputs of 2^16 bytes and more (all modes, both directions) are judged with the LOCAL form of the modes -- one equation per block, stated with the neighbouring blocks of input and output -- whose equivalence with the recursive definitions MC_Modes checks on the toy cipher for every candidate output.",
    note="Trusted: TLC/SANY, CommunityModules, the transcription of the modes in BlockModes.tla (OpenSSL vectors as anchors), harness logging. Where the property is silent "
         "(inconsistent PKCS#7 padding with a valid last byte) both outcomes are allowed.",
    technique="TLA+ trace validation with TLC (mode state machines) + exhaustive toy model of the parametric mode module",
)
MANIFEST_TEXT["C08"] = dict(
    text="The ZUC generator is specified as a state machine (ZUC.tla: Load, 32 InitRounds, Discard, Produce; S-boxes defined structurally; three official vectors as "
         "anchors). TLC enumerates EVERY composition of every total <= 8 (quick) / <= 12 (thorough) into request sizes with interspersed zero-length requests (PlanZUC); each "
         "is replayed on a real generator and every request is judged against the specification state carried through the session (TraceZUC), plus long streams with random "
         "splits, structured and single-bit keys/IVs. Toy models: Mersenne arithmetic (spec form and code form) for all operands, and refinement of the request layer to the "
         "word-at-a-time stream for all compositions. The driver also crafts (key, IV) pairs by a meet-in-the-middle search so that one addition of the first initialisation round sums to exactly 2^31-1 / 2^31 / 2^31+1; ZUC.tla classifies such sessions itself (FirstRoundBoundary; class required non-empty). One generator is run for 2^27 (thorough 2^28) words: the stretches between judged windows are skipped, the register after each skip is checked by LFSR skip-ahead (ZUCJump.tla: x^n modulo the feedback polynomial over GF(2^31-1); MC_ZUCJump = n single steps), the two memory words of F are read through a read-only hook, and the words around every 2^k mark are judged.",
    note="Trusted: TLC/SANY, CommunityModules, the transcription of ZUC v1.6 in ZUC.tla (official vectors as ASSUMEs), harness logging.",
    technique="TLA+ trace validation with TLC (generator state machine, TLC-enumerated request compositions) + exhaustive toy models",
)
MANIFEST_TEXT["C18"] = dict(
    text="Every recorded 128-EEA3 / 128-EIA3 call (every LENGTH 0..600 in the thorough tier, a boundary-heavy subset in quick; all bearers and directions; involution and "
         "bit-dependence sequences; random keys/messages) is judged by EEA3.tla (3GPP test sets as anchors) over ZUC.tla; the word-level mask/shift/extraction helpers are "
         "model-checked against their bit-level meaning for every argument (MC_EEA). Crafted (key, COUNT, BEARER, DIRECTION) whose derived IV puts an addition of the first initialisation round on the reduction boundary (classified by the specification), and messages of 40 000 - 65 504 bits. LENGTH 0 for both functions, LENGTH up to 200 003 bits (thorough 300 001) -- far beyond the 3GPP maximum --, extreme COUNT / BEARER / DIRECTION.",
    note="Trusted: TLC/SANY, CommunityModules, the transcription of TS 35.221 in EEA3.tla (official test sets as ASSUMEs), harness logging.",
    technique="TLA+ trace validation with TLC + exhaustive model of the word-level helpers",
)
MANIFEST_TEXT["C03"] = dict(
    text="Every recorded sign call runs under the RNG hook, so the nonce the library actually used is known (scripted: Annex A example, k = 1, k = n-1, random; or free): "
         "TLC recomputes (r, s) from GB/T 32918.2 (SM2.tla) and requires byte equality, the standard's retry rule for every rejected nonce, and r, s in [1, n-1]. Library-made, "
         "spec-made (PlanSM2Sig: the specification as an independent signer) and OpenSSL-made signatures are fed to verify and must be accepted. Keys: 1, 2, n-2, sparse/dense, random; IDs of 0..8191 bytes; messages 0..4096 bytes.",
    note="Trusted: TLC/SANY, CommunityModules, BigNat Java override (cross-checked against the pure TLA+ definitions by MC_BigNat), the transcription of GB/T 32918.2 in SM2.tla "
         "(GM/T 0003.5 Annex A as ASSUME), the gm_rs_verif RNG hook, harness logging.",
    technique="TLA+ trace validation with TLC at real parameters (exact differential against the specification as reference signer) + spec-made signatures replayed on the library",
)
MANIFEST_TEXT["C04"] = dict(
    text="Fault enumeration judged by the specification: for valid signatures every one of the 512 bit flips, component substitutions (0, n, n+1, 2^256-1, n-1, s = n-r, swap), "
         "every length 0..130, altered message / ID / key, random pairs; plus digest-level cases CONSTRUCTED by the specification (PlanSM2Sig) so that exactly one check can reject "
         "them: (r, s+n), (r+n, s), (r, n-r) with matching e. Rule: the library may accept only if SM2.tla's Verify holds (evaluated lazily), untouched signatures must be accepted, "
         "a length other than 64 must be an error, a panic is a deviation. Forgery families are constructed by the specification (PlanSM2Sig): s + n, r + n, t = 0, the sum [s]G + [t]P = O with every digest a verifier missing the infinity would accept, (r, 0) / (0, s) / (r, n) / (n, s) consistent by construction, 256 near misses differing from the recomputed R in one bit, and valid signatures with sparse t (must be accepted).",
    note="Trusted: as C03, plus the digest-level hook wrappers (verif_verify_digest). Removing only the r-range check is unobservable (the final comparison rejects r+n) and is not claimed.",
    technique="fault enumeration with TLA+ trace validation (TLC) and specification-constructed forgeries",
)
MANIFEST_TEXT["C05"] = dict(
    text="Every recorded encrypt call runs under the RNG hook; TLC recomputes the exact ciphertext from GB/T 32918.4 (SM2.tla) for the observed/scripted k in both orders and both C1 "
         "encodings (Annex example, lengths 1..300 incl. every klen mod 32 class, zero/leading-zero messages, long messages), judges kdf(z, klen) for klen 1..300, and the library must "
         "decrypt its own and the specification's ciphertexts (PlanSM2Enc) to the original message. The plan also solves for VALID curve points whose x^2, x^2+a or y^2 sit on a reduction boundary of the word arithmetic (y^2: a cubic is solved in the specification, Cubic.tla / MC_Cubic) and C05 decrypts ciphertexts for them; one message at the top of the length range (2^16 bytes) is encrypted as the GM/T 0009 SEQUENCE and compared byte for byte.",
    note="Trusted: as C03 (GM/T 0003.5 Annex ciphertext as ASSUME).",
    technique="TLA+ trace validation with TLC at real parameters (exact ciphertext differential) + spec-made ciphertexts replayed on the library",
)
MANIFEST_TEXT["C06"] = dict(
    text="Fault enumeration judged by the specification: for valid ciphertexts every single-bit flip (prefix / C1 / body), every truncation length, wrong format flags, extension, other key, "
         "replaced C1; plus ciphertexts CRAFTED by the specification (PlanSM2Enc) whose C3 is valid for the point the library would compute, so that only the C1 validation can reject: "
         "coordinates >= p, off-curve (invalid-curve) points, non-residue compressed x. Rule: outcome must equal SM2.tla's Decrypt (hybrid prefixes and empty bodies: either), panic is a deviation. Every value of the C1 tag byte is substituted (02/03 in front of an uncompressed C1, with the y bytes kept or replaced), not only the eight single-bit flips.",
    note="Trusted: as C03.",
    technique="fault enumeration with TLA+ trace validation (TLC) and specification-crafted invalid-curve ciphertexts",
)
MANIFEST_TEXT["C15"] = dict(
    text="The agreement is specified as four actions with a channel adversary. E1: on a toy group every key pair, ephemeral pair and tamper choice is explored (MC_SM2Kex: honest => both "
         "accept and agree; acceptance => everything received was authentic; invalid ephemeral point => receiver fails; negative control). At real size TLC enumerates all 16 subsets of "
         "{RA,RB,SB,SA} x 5 tamper kinds (PlanKex); the driver runs each on real keys under the RNG hook and every step is judged from its logged inputs against GB/T 32918.3 "
         "(w = 127, one-byte tags): exact K, S_B, S_A on honest runs (klen 1..200, the GM/T 0003.5 Annex example with scripted rA, rB), rejection otherwise. Further crafted runs: t_B = 0 (responder key tied to its ephemeral scalar), and the SAME pair of Exchange objects used for three consecutive runs.",
    note="Trusted: as C03 (GM/T 0003.5 Annex key agreement values as ASSUMEs), the Exchange state accessor hook.",
    technique="TLC exhaustive protocol model with channel adversary + TLA+ trace validation of TLC-planned tamper runs at real parameters",
)
MANIFEST_TEXT["C19"] = dict(
    text="SM2Codec.tla specifies SEC1 compressed/uncompressed/hybrid point encodings, hex, the SPKI and PKCS#8 DER documents, PEM armor and the GM/T 0009 ciphertext SEQUENCE with a DER codec; "
         "it is anchored on every run to OpenSSL-3.0-made documents (SPKI/PKCS#8 DER+PEM, 18 DER ciphertexts decoded, re-encoded byte-identically and decrypted). Every recorded encoder output "
         "must equal the specification's bytes; every decoder outcome on canonical, malformed (wrong length, off-curve, coordinates >= p, bad prefix, truncated DER) and OpenSSL-made input must "
         "match; ASN.1 ciphertexts are produced under the RNG hook with ephemeral scalars SEARCHED so that C1.x / C1.y have leading zero bytes and compared byte-exactly. Key documents in the other framings OpenSSL writes (compressed public key in SPKI / PKCS#8, ECPrivateKey without publicKey) are assembled byte by byte and judged by templates of the specification; PEM with CRLF line endings and the FromStr path; ciphertexts whose DER lengths need three octets.",
    note="Trusted: as C03, plus the committed OpenSSL corpus (not a live OpenSSL). For DER/PEM inputs outside the canonical framing the specification only requires 'no panic; a decoded key is valid'.",
    technique="TLA+ trace validation with TLC (codec specification anchored to OpenSSL documents), searched boundary ephemeral points via the RNG hook",
)
MANIFEST_TEXT["C11"] = dict(
    text="L0 = the affine group law of Weierstrass.tla. E1: the L1 transcription of p256_ecc.rs (point_add incl. special cases, point_dbl, 4-bit window scalar_mul, is_valid) is model-checked "
         "against L0 on toy curves for every pair of Jacobian representations and every scalar incl. 0, n and values above n; Montgomery mul/add/sub at toy word size for all primes and "
         "operands; negative configurations (the pinned commit's point_add) are refuted. At real size every recorded point operation (equal / opposite / re-randomised / infinity operands, "
         "scalars 0, 1, n-1, n, n+1..n+40, 2^256-1, single-byte scalars through g_mul), every field operation mod p and mod n on boundary-limb / near-modulus / random canonical operands, "
         "and ALL 32x255 fixed-base table entries (walked by the recurrence entry(i,b) = entry(i,b-1) + entry(i,1), entry(i+1,1) = [256]entry(i,1)) are judged on denotations. PlanField solves for operands whose Montgomery product lands in [m, 2^256), equals m - 2^(64j), or 0 / m; operand pairs are solved so that the raw 256-bit sum / difference has patterned limbs; representations with special stored Z; trait-level products with stored operands 1, 2, p-1. Operands also include the point at infinity in representations other than the constructor's (P + (-P), [n]G, (t^2, t^3, 0)) and pairs of different points with the same y (solved by PlanField).",
    note="Trusted: TLC/SANY, BigNat Java override (cross-checked by MC_BigNat in the same check), the hook wrappers exposing crate-private field functions and the table. "
         "Nothing is claimed proved for all 256-bit operands; real-size coverage is boundary/witness/random conformance.",
    technique="TLC exhaustive toy models of the transcribed Jacobian/Montgomery code + TLA+ trace validation on denotations at real size (table exhaustive)",
)
MANIFEST_TEXT["C09"] = dict(
    text="Signing runs under the RNG hook; TLC recomputes (h, S) from GM/T 0044.2 (SM9.tla: H1/H2, extraction, w = g^r in Fp[w]/(w^12+2), S = [r-h]ds) for the observed/scripted r and "
         "requires equality (Annex A example included). Library-made and spec-made signatures must be accepted (validity follows from equality with the specification's signer). Fault "
         "enumeration on (h, S, M, ID, Ppub-s): bit flips, h in {0, N-1, N, N+1, 2^256-1, 1}, S replaced / negated / infinity / off-curve, altered message, identity and master public key: the "
         "library may accept only if the definitional verification (textbook pairing) holds; a crash is a deviation. E1: exponent model with lazily sampled random oracle (648k states) with a tightness control.",
    note="Trusted: TLC/SANY, BigNat Java override, the transcription of GM/T 0044 in SM9.tla/BN.tla (Annex values as ASSUMEs; the full set incl. definitional pairings in the thorough tier), "
         "the derived evaluator g = G0^ks for honest events (bilinearity is C12's business), the gm-sm9 RNG hook.",
    technique="TLA+ trace validation with TLC at real parameters (exact differential, lazily evaluated definitional verification) + exhaustive exponent-model of sign/verify with tampering",
)
MANIFEST_TEXT["C10"] = dict(
    text="Encryption runs under the RNG hook; TLC recomputes the exact ciphertext C1||C3||C2 from GM/T 0044.4 (K = KDF(C1||w||ID, |M|+32), C3 = SM3(C2||K2)) for the observed r, for every message "
         "length 1..255 in the thorough tier (boundary subset in quick) incl. the Annex example; library-made and spec-made ciphertexts must decrypt to the message; every single-bit flip, every "
         "truncation, off-curve C1, C1.x >= p, other identity / key are enumerated and an accepted faulted ciphertext is judged by the definitional decryption (textbook pairing).",
    note="Trusted: as C09.",
    technique="TLA+ trace validation with TLC at real parameters (exact ciphertext differential) + fault enumeration judged by the specification",
)
MANIFEST_TEXT["C12"] = dict(
    text="BN.tla is a textbook R-ate pairing deliberately unlike the code (one polynomial ring Fp[w]/(w^12+2), affine Miller loop on the twist, lines through the untwist, final exponent "
         "(p^12-1)/N as ONE power). Every recorded library pairing on generator multiples (small, near-order, random scalars; Jacobian inputs) is compared byte for byte with it (384 bytes), "
         "including e(P1, Ppub-s) of the Annex; bilinearity/order identities e([b]P1,[a]P2) are judged against G0^(ab); GT powers are judged against the specification's power.",
    note="Trusted: as C09; the Annex value of g is reproduced through the signature example (h depends on all 384 bytes of w).",
    technique="TLA+ trace validation with TLC: exact differential against an independent textbook pairing written in TLA+",
)
MANIFEST_TEXT["C13"] = dict(
    text="Tower operations (Fp, Fp2, Fp4, Fp12: add, sub, mul, sqr, neg, halve, invert, conjugate, multiplications by u / v / subfield elements, Frobenius powers) are judged through the embedding "
         "u = w^6, v = w^3 into the polynomial ring of BN.tla on every zero pattern of components x boundary/random values; mod-N add/sub/mul/inv; G1/G2 add, double, neg, sub, variable-base and "
         "fixed-base multiplication and equality on equal / opposite / infinity / generic operands in affine and Jacobian form (non-affine right operands included); Booth recodings (windows 5, 7) must "
         "reconstruct the scalar; ALL 37x64 fixed-base table entries are walked by recurrence. E1: the code's Fp2/Fp4 formulas over F_13 (all elements), Booth on toy limbs (all scalars), Montgomery at toy width; negative control for the pinned Fp2::fp_inv.",
    note="Trusted: as C09, plus the byte-level tower wrappers of the gm_rs_verif hook module. One known finding (TwistPoint::point_equals(P,-P)) is listed in known_findings.json.",
    technique="TLC exhaustive toy models of the transcribed tower/Booth/Montgomery code + TLA+ trace validation against polynomial-ring arithmetic at real size (table exhaustive)",
)
MANIFEST_TEXT["C14"] = dict(
    text="The sampler is specified as a machine (Rng.tla: Draw, Accept only in [1, order-1], one scalar per operation) and model-checked on a toy range with a negative control. At real size "
         "thousands of randomized operations (SM2 keygen/sign/encrypt/exchange, SM9 keygen x3/sign/encrypt/exchange) run under the RNG hooks in two processes: every accepted candidate must be in "
         "range and be the last draw, the scalar actually used (k recovered as s(1+d)+rd from signatures, or [k]G compared) must be the accepted draw, no scalar may repeat within or across processes, "
         "per-bit frequencies within 8 sigma; injected candidates 0, order, order+1, order+2, p-2, p-1, p, 2^256-1 must never be accepted. For SM9 the accepted draw is tied to what the operation used: TraceRng instantiates the SM9 specification and checks Ppub-e = [k]P1, C1 / R_A / R_B = [k]Q and S = [(k-h)]ds; an encryption whose first scalar gives an all-zero K1 must show two accepted draws. Every scripted operation is offered every out-of-range candidate, including values that a comparison skipping one limb takes for smaller. Bit frequencies are also tested PER OPERATION with the exact per-bit probability of a uniform scalar on [1, order-1] (BigNat arithmetic), so a bias confined to one call site shows.",
    note="Assumes the hook sits where the 32 generator bytes become a candidate. Bias is a counting test; OS seeding is observed only through non-repetition across processes.",
    technique="TLC model of the sampler + TLA+ trace validation of hook-recorded draws (range, freshness, used = drawn, counting test)",
)
MANIFEST_TEXT["C16"] = dict(
    text="mod_n_from_hash is judged on Ha = q(N-1)+rem for rem in {0,1,2,N-3,N-2} x boundary/random quotients generated by the specification (PlanSM9; includes q = 1, 45..47), structured and "
         "random 40-byte inputs; H1/H2 wrappers on identities of 0..300 bytes; extraction of signing / encryption / exchange keys for Annex, edge, random master keys and master keys crafted by the "
         "specification as N - H1(ID||hid) (extraction must report failure), compared with [k(H1+k)^-1]P on denotations. The plan also crafts master keys for which the inverse (H1+k)^-1 or the extraction scalar is a short value, and searches identities whose H1 has a leading zero byte.",
    note="Trusted: as C09 (Annex extraction values as ASSUMEs).",
    technique="TLA+ trace validation with TLC; boundary inputs and crafted master keys generated by the specification (E2 plan)",
)
MANIFEST_TEXT["C17"] = dict(
    text="Each step of the exchange (1a, 1b, 2a) is judged from its logged inputs against GM/T 0044.3: RA = [rA]QB, RB = [rB]QA, SK = KDF(IDA||IDB||RA||RB||g1||g2||g3, klen) with the ephemeral "
         "scalars from the RNG hook (Annex example with scripted rA, rB; klen 1..128); honest pairings use g^r, tampered R values (bit flip, other point) use the definitional pairing; "
         "off-curve R must be rejected by its receiver (infinity: either outcome, it is a group element).",
    note="Trusted: as C09 (Annex key exchange value as ASSUME in the thorough anchor).",
    technique="TLA+ trace validation with TLC at real parameters (exact key differential per step)",
)
MANIFEST_TEXT["C20"] = dict(
    text="Api.tla makes every byte-consuming entry point a total function into {ok, err} (no panic / timeout outcome; length rules where the standards fix them). The driver calls each entry point "
         "(SM2 verify, raw / ASN.1 decrypt, point and key decoders for bytes, hex, DER, PEM; SM4 construction, block and mode decryption, IV and key arguments; SM9 decrypt, verify, hash-to-range, "
         "H1, both KDFs) with every length 0..200 (quick: 0..70 and selected) x zero / 0xFF / random content, every truncation and single-byte corruption of valid encodings, boundary private keys "
         "0, 1, n-2, n-1, n, n+1, 2^256-1 followed by sign/verify and encrypt/decrypt, over-long identities, arbitrary (h, S) -- each under panic capture and a 20 s watchdog on a worker thread, "
         "release build with overflow checks. E1: signing terminates under a fair source for every key the constructor admits (liveness, toy group), with the d = n-1 lasso as negative control. Hash-to-range / KDF helpers at every length to 1100 (thorough 2200), message-consuming operations at ladders around 512..4096 minus the framing, degenerate values the constructors accept (Q = O, R = O, S = O).",
    note="Trusted: the harness's panic capture / watchdog. One known finding (mod_n_from_hash on inputs shorter than 40 bytes) is listed in known_findings.json.",
    technique="fault enumeration with TLA+ trace validation (total outcome specification) + TLC liveness check of the signing retry loop",
)

NOT_APPLICABLE = {
}
