#!/usr/bin/env python3
"""Runner library for the gm-rs TLA+ verification machinery (stdlib only).

Pipeline per property:  E1 models (TLC, toy constants)  ->  E2 plan (TLC prints plans)  ->
E3 driver (Rust harness built from /repo's working tree, records ndjson)  ->  E4 trace
validation (TLC trace specification prints one verdict per event)  ->  accounting, known
findings, evidence, VIOLATION / KNOWN-FINDING lines.
Exit codes: 0 held, 1 violation, 2 tool error (never a pass).
"""
import fcntl
import hashlib
import json
import os
import re
import shutil
import subprocess
import sys
import time

VERIF = os.path.dirname(os.path.dirname(os.path.abspath(__file__)))
SPEC = os.path.join(VERIF, "spec")
# VERIF_SCRATCH (used only by bin/mutcampaign): run against a scratch copy of the library through a scratch copy of the harness and keep
# every by-product (traces, plans, replay files, evidence) under the scratch directory, so that a campaign never touches /repo or the
# evidence of the registered checks.  Unset for every registered command.
SCRATCH = os.environ.get("VERIF_SCRATCH")
_OUT = SCRATCH or VERIF
HARNESS = os.path.join(_OUT, "harness")
WORK = os.path.join(_OUT, "work")
TRACES = os.path.join(_OUT, "traces")
PLANS = os.path.join(_OUT, "plans")
REPLAY = os.path.join(_OUT, "replay")
EVIDENCE = os.path.join(_OUT, "evidence")
REPO = os.path.join(SCRATCH, "repo") if SCRATCH else "/repo"
TLAJAR = "/opt/veriftools/tla/tla2tools.jar"
CMJAR = "/opt/veriftools/tla/CommunityModules-deps.jar"
GMVERIF = os.path.join(HARNESS, "target", "release", "gmverif")
GMVERIF_NDA = os.path.join(HARNESS, "target", "nda", "gmverif")        # profile without debug assertions / overflow checks


class ToolError(Exception):
    pass


def log(*a):
    print("[check]", *a, file=sys.stderr, flush=True)


def ensure_dirs():
    for d in (WORK, TRACES, PLANS, REPLAY, EVIDENCE):
        os.makedirs(d, exist_ok=True)


class Lock:
    def __init__(self, name):
        ensure_dirs()
        self.path = os.path.join(WORK, name)

    def __enter__(self):
        self.f = open(self.path, "w")
        fcntl.flock(self.f, fcntl.LOCK_EX)
        return self

    def __exit__(self, *a):
        fcntl.flock(self.f, fcntl.LOCK_UN)
        self.f.close()


def build_java():
    """Compile the TLC operator overrides (spec/java/*.java -> spec/*.class) if stale."""
    jdir = os.path.join(SPEC, "java")
    if not os.path.isdir(jdir):
        return
    srcs = [os.path.join(jdir, f) for f in sorted(os.listdir(jdir)) if f.endswith(".java")]
    if not srcs:
        return
    with Lock("java.lock"):
        stale = False
        for s in srcs:
            c = os.path.join(SPEC, os.path.basename(s)[:-5] + ".class")
            if not os.path.exists(c) or os.path.getmtime(c) < os.path.getmtime(s):
                stale = True
        if stale:
            r = subprocess.run(["javac", "-nowarn", "-cp", TLAJAR, "-d", SPEC] + srcs, capture_output=True, text=True)
            if r.returncode != 0:
                raise ToolError("javac failed: " + r.stderr[-2000:])


def build_harness():
    """Build the driver from /repo's current working tree (path dependencies, hooks on)."""
    with Lock("cargo.lock"):
        lock_src = os.path.join(REPO, "Cargo.lock")
        lock_dst = os.path.join(HARNESS, "Cargo.lock")
        if not os.path.exists(lock_dst):
            shutil.copy(lock_src, lock_dst)
        env = dict(os.environ, CARGO_NET_OFFLINE="true")
        t0 = time.time()
        r = subprocess.run(["cargo", "build", "--release", "--offline", "--quiet"], cwd=HARNESS, env=env,
                           capture_output=True, text=True)
        if r.returncode != 0:
            raise ToolError("harness build failed (does /repo still compile with --cfg gm_rs_verif?):\n" + r.stderr[-4000:])
        r = subprocess.run(["cargo", "build", "--profile", "nda", "--offline", "--quiet"], cwd=HARNESS, env=env, capture_output=True, text=True)
        if r.returncode != 0:
            raise ToolError("harness build (profile nda) failed:\n" + r.stderr[-4000:])
        log("harness built in %.1fs (profiles release + nda)" % (time.time() - t0))


TLC_STATES = re.compile(r"(\d+) states generated, (\d+) distinct states found")


def run_tlc(module, cfg=None, env=None, workers=16, timeout=3600, heap="6g", stack="512m", extra=None, tag=None):
    """Run TLC; returns dict(out, rc, generated, distinct, wall)."""
    ensure_dirs()
    build_java()
    tag = tag or module
    meta = os.path.join(WORK, "%s.%d" % (tag, os.getpid()))
    cmd = ["java", "-Xss" + stack, "-XX:+UseParallelGC", "-XX:ParallelGCThreads=4", "-Xmx" + heap,
           "-cp", TLAJAR + ":" + CMJAR, "tlc2.TLC", "-workers", str(workers),
           "-config", (cfg or module) + ".cfg", "-metadir", meta, "-cleanup", "-noGenerateSpecTE"]
    if extra:
        cmd += extra
    cmd += [module + ".tla"]
    e = dict(os.environ)
    if env:
        e.update(env)
    t0 = time.time()
    try:
        r = subprocess.run(cmd, cwd=SPEC, env=e, capture_output=True, text=True, timeout=timeout)
        out, rc = r.stdout + r.stderr, r.returncode
    except subprocess.TimeoutExpired as ex:
        out = (ex.stdout or b"").decode("utf-8", "replace") if isinstance(ex.stdout, bytes) else (ex.stdout or "")
        rc = -9
    finally:
        shutil.rmtree(meta, ignore_errors=True)
    wall = time.time() - t0
    gen = dist = 0
    for m in TLC_STATES.finditer(out):
        gen, dist = int(m.group(1)), int(m.group(2))
    return dict(out=out, rc=rc, generated=gen, distinct=dist, wall=wall, cmd=" ".join(cmd))


def tlc_error_text(out):
    lines = out.splitlines()
    for i, l in enumerate(lines):
        if l.startswith("Error:") or "Exception" in l or "was violated" in l or "is violated" in l:
            return "\n".join(lines[i:i + 12])
    return "\n".join(lines[-15:])


def run_model(name, cfg=None, expect="ok", workers=16, timeout=3600, heap="8g", coverage_actions=None, extra=None):
    """E1: model-check a toy instance.  expect='ok': no error; expect='violation': TLC must refute."""
    r = run_tlc(name, cfg=cfg, workers=workers, timeout=timeout, heap=heap,
                extra=(extra or []) + (["-coverage", "1"] if coverage_actions else []), tag=(cfg or name))
    out = r["out"]
    if r["rc"] == -9:
        raise ToolError("model %s timed out" % (cfg or name))
    violated = ("is violated" in out) or ("was violated" in out)
    finished_ok = "Model checking completed. No error has been found." in out
    if expect == "ok":
        if violated:
            return dict(r, status="violated", detail=tlc_error_text(out))
        if not finished_ok:
            raise ToolError("model %s: TLC error:\n%s" % (cfg or name, tlc_error_text(out)))
    else:
        if not violated:
            raise ToolError("negative configuration %s was NOT refuted (invariant too weak):\n%s" % (cfg or name, tlc_error_text(out)))
    if coverage_actions:
        for a in coverage_actions:
            m = re.search(r"<%s line[^>]*>: (\d+):(\d+)" % re.escape(a), out)
            if not m or int(m.group(2)) == 0:
                raise ToolError("model %s: action %s never taken (vacuous)" % (cfg or name, a))
    return dict(r, status="ok")


def run_driver(suite, tier, seed, out, plan=None, only_sess=None, timeout=3600, profile="release"):
    cmd = [GMVERIF if profile == "release" else GMVERIF_NDA, "drive", suite, "--tier", tier, "--seed", str(seed), "--out", out]
    if plan:
        cmd += ["--plan", plan]
    if only_sess:
        cmd += ["--only-sess", only_sess]
    t0 = time.time()
    try:
        r = subprocess.run(cmd, capture_output=True, text=True, timeout=timeout)
    except subprocess.TimeoutExpired:
        raise ToolError("driver %s timed out" % suite)
    if r.returncode != 0:
        # a crash of the driver process itself (abort / stack overflow inside the library): the last `begin`
        # marker attributes it; reported as a tool error unless the trace carries the marker (handled by caller)
        raise ToolError("driver %s failed rc=%d: %s" % (suite, r.returncode, r.stderr[-2000:]))
    log("driver %s: %s (%.1fs)" % (suite, r.stderr.strip().splitlines()[-1] if r.stderr.strip() else "", time.time() - t0))
    return time.time() - t0


VLINE = re.compile(r'^<<"V", "(.*)">>$')
VANY = re.compile(r'<<\s*"V",\s*"(\[.*?\])"\s*>>', re.S)
PLINE = re.compile(r'^<<"PLAN", "(.*)">>$')


def unescape_tla(s):
    return s.replace('\\"', '"').replace("\\\\", "\\")


SHARD_EVENTS = 120000


def validate_trace(spec, trace, workers=16, timeout=3600, cfg=None, heap="6g", shards=1):
    """E4: run the trace specification over a recorded trace; returns (verdicts, stats).  Large traces are split at session boundaries
    into shards of at most SHARD_EVENTS events, each validated by its own TLC process (parsing one huge ndjson file is single-threaded)."""
    ids = []
    bounds = [0]            # line indices where a shard may start
    prev_sess = None
    n = 0
    with open(trace) as f:
        for line in f:
            if not line.strip():
                continue
            e = json.loads(line)
            ids.append(e["id"])
            if prev_sess is not None and e["sess"] != prev_sess and n - bounds[-1] >= SHARD_EVENTS:
                bounds.append(n)
            prev_sess = e["sess"]
            n += 1
    if not ids:
        raise ToolError("empty trace %s" % trace)
    files = [trace]
    if len(bounds) > 1:
        files = []
        bounds.append(n)
        with open(trace) as f:
            lines = [l for l in f if l.strip()]
        for k in range(len(bounds) - 1):
            p = "%s.shard%d" % (trace, k)
            with open(p, "w") as g:
                g.writelines(lines[bounds[k]:bounds[k + 1]])
            files.append(p)
        del lines
    verdicts = {}
    total = dict(out="", rc=0, generated=0, distinct=0, wall=0.0)
    try:
        for p in files:
            r = run_tlc(spec, cfg=cfg, env={"TRACE": p}, workers=workers, timeout=timeout, heap=heap, tag=spec + "." + os.path.basename(p))
            out = r["out"]
            for m in VANY.finditer(out):          # tolerant of TLC's pretty-printer wrapping long tuples over two lines
                v = json.loads(unescape_tla(m.group(1)))
                verdicts[v[0]] = v
            if r["rc"] == -9:
                raise ToolError("trace validation %s timed out" % spec)
            if "Model checking completed. No error has been found." not in out:
                raise ToolError("trace validation %s: TLC error:\n%s" % (spec, tlc_error_text(out)))
            total["generated"] += r["generated"]; total["distinct"] += r["distinct"]; total["wall"] += r["wall"]
    finally:
        if len(files) > 1:
            for p in files:
                if os.path.exists(p):
                    os.remove(p)
    missing = [i for i in ids if i not in verdicts]
    if missing:
        raise ToolError("trace validation %s: %d events without verdict (first id %s)" % (spec, len(missing), missing[0]))
    return verdicts, total


def run_plan(spec, cfg=None, out=None, workers=4, timeout=1800, extra=None):
    """E2: TLC prints <<"PLAN", json>> lines; collected into an ndjson plan file."""
    r = run_tlc(spec, cfg=cfg, workers=workers, timeout=timeout, extra=extra, tag=(cfg or spec))
    if "Model checking completed. No error has been found." not in r["out"] and "Finished in" not in r["out"]:
        raise ToolError("plan %s: TLC error:\n%s" % (spec, tlc_error_text(r["out"])))
    plans = []
    seen = set()
    for line in r["out"].splitlines():
        m = PLINE.match(line.strip())
        if m:
            s = unescape_tla(m.group(1))
            if s not in seen:
                seen.add(s)
                plans.append(s)
    if not plans:
        raise ToolError("plan %s produced nothing" % spec)
    with open(out, "w") as f:
        for s in plans:
            f.write(s + "\n")
    return len(plans), r


def load_known():
    p = os.path.join(VERIF, "known_findings.json")
    if not os.path.exists(p):
        return []
    return json.load(open(p)).get("findings", [])


def event_by_id(trace, wanted):
    res = {}
    with open(trace) as f:
        for line in f:
            if not line.strip():
                continue
            e = json.loads(line)
            if e["id"] in wanted:
                res[e["id"]] = e
    return res


def short(e, limit=400):
    s = json.dumps(e, separators=(",", ":"))
    return s if len(s) <= limit else s[:limit] + "..."
