//! SM9 drivers (C09, C10, C12, C13, C16, C17) and the SM9 part of C14.
use crate::gen::Rng;
use crate::trace::Tracer;

pub fn rng_ops_sm9(_t: &mut Tracer, _sess: &str, _proc_id: u32, _count: usize, _inject: bool, _rng: &mut Rng, _real: &mut u64) {
    // filled in once the gm-sm9 hooks exist
}
