//! SM9 drivers (C09, C10, C12, C13, C16, C17) and the SM9 part of C14.
use crate::gen::{raw_json, Gen, Rng};
use crate::suites::sm2::{arr, be_add_small, hexb, read_plan};
use crate::trace::{bytes, guard_plain, guard_timed, Outcome, Tracer};
use gm_sm9::fields::{mod_n_add, mod_n_from_hash, mod_n_inv, mod_n_mul, mod_n_sub};
use gm_sm9::key::{exch_step_1a, exch_step_1b, exch_step_2a, Sm9EncKey, Sm9EncMasterKey, Sm9SignMasterKey};
use gm_sm9::points::{Point, TwistPoint};
use gm_sm9::u256::{sm9_u256_get_booth, u256_from_be_bytes, u256_to_be_bytes, U256};
use gm_sm9::verif;
use serde_json::{json, Value};

pub const N9_HEX: &str = "b640000002a3a6f1d603ab4ff58ec74449f2934b18ea8beee56ee19cd69ecf25";
pub const P9_HEX: &str = "b640000002a3a6f1d603ab4ff58ec74521f2934b1a7aeedbe56f9b27e351457d";

fn b32(v: &[u8]) -> [u8; 32] { let mut a = [0u8; 32]; a.copy_from_slice(v); a }
fn u(b: &[u8]) -> U256 { u256_from_be_bytes(b) }
fn ub(a: &U256) -> Vec<u8> { u256_to_be_bytes(a) }
pub fn g1_json(p: &Point) -> Value { json!({"x": bytes(&ub(&p.x)), "y": bytes(&ub(&p.y)), "z": bytes(&ub(&p.z))}) }
pub fn g2_json(q: &TwistPoint) -> Value { json!({"x": bytes(&verif::fp2_bytes(&q.x)), "y": bytes(&verif::fp2_bytes(&q.y)), "z": bytes(&verif::fp2_bytes(&q.z))}) }
fn msg_fields(f: &mut Value, g: Option<&Gen>, m: &[u8]) {
    f["len"] = json!(m.len());
    match g { Some(g) => { f["gen"] = g.json(); } None => { f["gen"] = raw_json(); f["raw"] = bytes(m); } }
}
/// scalars with zero limbs: 2^128 + c, 2^192 + c, 2^192 + c*2^64, c*2^64 (c < 2^64) -- square-and-multiply / window code paths that skip work on zero words
pub fn sparse_scalar(rng: &mut Rng, which: usize) -> Vec<u8> {
    let c = (rng.next() | 1).to_be_bytes();
    let mut k = vec![0u8; 32];
    match which % 4 {
        0 => { k[15] = 1; k[24..32].copy_from_slice(&c); }
        1 => { k[7] = 1; k[24..32].copy_from_slice(&c); }
        2 => { k[7] = 1; k[16..24].copy_from_slice(&c); }
        _ => { k[16..24].copy_from_slice(&c); }
    }
    k
}
fn scalar(rng: &mut Rng) -> Vec<u8> { let mut k = rng.bytes(32); k[0] &= 0x7f; k[0] |= 0x01; k }      // < 2^255 < N, non-zero

/// run `f` under the gm-sm9 RNG hook; returns (outcome, accepted scalars, full log)
fn hooked<T: Send + 'static>(script: Vec<[u8; 32]>, f: impl FnOnce() -> Result<T, String> + Send + 'static) -> (Outcome<T>, Vec<Vec<u8>>, Vec<verif::RngEvent>) {
    let out = guard_timed(60, move || {
        verif::rng_script(script);
        let _ = verif::rng_take_log();
        let r = f();
        let log = verif::rng_take_log();
        verif::rng_script(vec![]);
        Ok::<_, String>((r, log))
    });
    match out {
        Outcome::Ok((Ok(v), log)) => { let ks = log.iter().filter(|e| e.accepted).map(|e| e.candidate.to_vec()).collect(); (Outcome::Ok(v), ks, log) }
        Outcome::Ok((Err(e), log)) => (Outcome::Err(e), vec![], log),
        Outcome::Err(e) => (Outcome::Err(e), vec![], vec![]), Outcome::Panic(e) => (Outcome::Panic(e), vec![], vec![]), Outcome::Timeout => (Outcome::Timeout, vec![], vec![]),
    }
}

// ------------------------------------------------------------------------------------------------ C16
/// identities that imitate structure: edge white space, a trailing / leading / lone NUL, bytes >= 0x80, an inner NUL -- all hashed exactly as given
pub fn edge_ids() -> Vec<Vec<u8>> {
    vec![b"Bob\n".to_vec(), b" Bob".to_vec(), b"Bob ".to_vec(), b"Bob\r\n".to_vec(), b"Bob\0".to_vec(), b"\0Bob".to_vec(), b"\0".to_vec(), b"Bo\0b".to_vec(), vec![0x80, 0xff, 0x00], b"BOB".to_vec()]
}
pub fn drive_hash(t: &mut Tracer, tier: &str, seed: u64, plan: Option<String>) {
    let thorough = tier == "thorough";
    let mut rng = Rng(seed ^ 0x9016);
    let mut n = 0u64;
    let mut sess = || { n += 1; format!("sm9h/{}", n) };
    let from_hash = |t: &mut Tracer, s: String, ha: &[u8], cls: &str| {
        let h = ha.to_vec();
        let o = guard_timed(20, move || Ok::<_, String>(mod_n_from_hash(&h)));          // (under the watchdog: a reduction loop that does not terminate is a verdict, not a hung driver)
        let ob = o.ok().map(|x| ub(x)).unwrap_or(vec![0u8; 32]);
        t.emit(&s, "sm9.from_hash", json!({"prop": "C16", "ha": bytes(ha), "cls": cls, "out": bytes(&ob), "outcome": o.name(), "detail": o.detail()}));
    };
    // boundary Ha values from the TLC plan, crafted master keys
    let planv = read_plan(&plan);
    for v in &planv {
        if v["kind"] == "ha" && v["fits"] == 1 { from_hash(t, sess(), &arr(&v["ha"]), "planned"); }
    }
    // structured and random Ha
    for ha in [vec![0u8; 40], vec![0xffu8; 40], { let mut x = vec![0u8; 40]; x[39] = 1; x }, { let mut x = vec![0u8; 40]; x[0] = 0x80; x }, { let mut x = vec![0xffu8; 40]; x[7] = 0xfe; x }] {
        from_hash(t, sess(), &ha, "structured");
    }
    for _ in 0..(if thorough { 3000 } else { 300 }) { from_hash(t, sess(), &rng.bytes(40), "random"); }
    // H1 / H2 wrappers on identities of 0..300 bytes
    let lens: Vec<usize> = if thorough { (0..=300).collect() } else { let mut v: Vec<usize> = vec![0, 1, 5, 31, 32, 49, 50, 55, 56, 64, 100, 300, 511, 512, 513, 1000]; v.extend(118..=136); v.extend(245..=262); v };      // 49 / 50: the H1 input at SM3's padding boundary; ladders around 128 and 256: fixed-size buffers
    for (i, len) in lens.iter().enumerate() {
        let id = rng.bytes(*len);
        let hid = [1u8, 2, 3][i % 3];
        let (id2, id3) = (id.clone(), id.clone());
        let o = guard_plain(move || gm_sm9::key::verif_hash1(&id2, hid));
        t.emit(&sess(), "sm9.hash1", json!({"prop": "C16", "idb": bytes(&id3), "hid": hid, "out": bytes(&o.ok().map(|x| ub(x)).unwrap_or(vec![0u8; 32])), "outcome": o.name(), "detail": o.detail()}));
        if i % 2 == 0 {
            let w = rng.bytes(384);
            let (d2, w2) = (id.clone(), w.clone());
            let o = guard_plain(move || gm_sm9::key::verif_hash2(&d2, &w2));
            t.emit(&sess(), "sm9.hash2", json!({"prop": "C16", "data": bytes(&id), "w": bytes(&w), "out": bytes(&o.ok().map(|x| ub(x)).unwrap_or(vec![0u8; 32])), "outcome": o.name(), "detail": o.detail()}));
        }
    }
    for (i, idv) in edge_ids().iter().enumerate() {
        let hid = [1u8, 2, 3][i % 3];
        let id2 = idv.clone();
        let o = guard_plain(move || gm_sm9::key::verif_hash1(&id2, hid));
        t.emit(&sess(), "sm9.hash1", json!({"prop": "C16", "idb": bytes(idv), "hid": hid, "out": bytes(&o.ok().map(|x| ub(x)).unwrap_or(vec![0u8; 32])), "outcome": o.name(), "detail": o.detail()}));
    }
    // extraction: Annex keys, random / edge master keys, crafted zero keys
    let nhex = hexb(N9_HEX);
    let mut masters: Vec<(Vec<u8>, Vec<u8>, &'static str)> = vec![
        (hexb("000130e78459d78545cb54c587e02cf480ce0b66340f319f348a1d5b1f2dc5f4"), b"Alice".to_vec(), "sign"),
        (hexb("0001edee3778f441f8dea3d9fa0acc4e07ee36c93f9a08618af4ad85cede1c22"), b"Bob".to_vec(), "enc"),
        (hexb("0002e65b0762d042f51f0d23542b13ed8cfa2e9a0e7206361e013a283905e31f"), b"Alice".to_vec(), "exch"),
        (hexb("0002e65b0762d042f51f0d23542b13ed8cfa2e9a0e7206361e013a283905e31f"), b"Bob".to_vec(), "exch"),
        (be_add_small(&vec![0u8; 32], 1), b"one".to_vec(), "sign"), (be_add_small(&nhex, -1), b"n-1".to_vec(), "enc"), (be_add_small(&vec![0u8; 32], 2), b"two".to_vec(), "exch"),
    ];
    // the ends of the master-key range [1, N-1], for every kind of key
    for kind in ["sign", "enc", "exch"] {
        for (d, nm) in [(1i64, "k1"), (2, "k2")] { masters.push((be_add_small(&vec![0u8; 32], d), nm.as_bytes().to_vec(), kind)); }
        for (d, nm) in [(-1i64, "kN-1"), (-2, "kN-2")] { masters.push((be_add_small(&nhex, d), nm.as_bytes().to_vec(), kind)); }
    }
    for i in 0..(if thorough { 40 } else { 5 }) { let len = rng.below(40) as usize; masters.push((scalar(&mut rng), rng.bytes(len), ["sign", "enc", "exch"][i % 3])); }
    // limb-aligned and sparse master keys (j * 2^64, j * 2^128, 2^192, 2^255, 2^128 + c ...): products with zero limbs in the mod-N arithmetic
    for (i, (sh, j)) in [(64usize, 1u8), (64, 3), (128, 1), (128, 3), (128, 0xff), (192, 1), (192, 0x7f), (255, 1)].iter().enumerate() {
        let mut k = vec![0u8; 32]; if *sh == 255 { k[0] = 0x80; } else { k[31 - sh / 8] = *j; }
        masters.push((k, rng.bytes(3 + i), ["sign", "enc", "exch"][i % 3]));
    }
    for i in 0..4 { masters.push((sparse_scalar(&mut rng, i), rng.bytes(4 + i), ["enc", "exch", "sign"][i % 3])); }
    for (i, idv) in edge_ids().iter().enumerate() { masters.push((scalar(&mut rng), idv.clone(), ["sign", "enc", "exch"][i % 3])); masters.push((scalar(&mut rng), idv.clone(), ["enc", "exch", "sign"][i % 3])); }
    for v in &planv {
        if v["kind"] == "smallh1" && v["found"] == 1 {
            // an identity whose H1 has a leading zero byte (searched by the specification): the hash itself and an extraction that uses it
            let (idv, hid) = (arr(&v["idb"]), v["hid"].as_u64().unwrap() as u8);
            let id2 = idv.clone();
            let o = guard_plain(move || gm_sm9::key::verif_hash1(&id2, hid));
            t.emit(&sess(), "sm9.hash1", json!({"prop": "C16", "idb": bytes(&idv), "hid": hid, "out": bytes(&o.ok().map(|x| ub(x)).unwrap_or(vec![0u8; 32])), "outcome": o.name(), "detail": o.detail()}));
            masters.push((scalar(&mut rng), idv, match hid { 1 => "sign", 3 => "enc", _ => "exch" }));
        }
        if v["kind"] == "zerokey" || v["kind"] == "t2key" || v["kind"] == "invkey" || v["kind"] == "nearkey" || (v["kind"] == "wrapkey" && v["legal"] == 1) { masters.push((arr(&v["k"]), arr(&v["idb"]), match v["hid"].as_u64().unwrap() { 1 => "sign", 3 => "enc", _ => "exch" })); }
    }
    for (k, id, kind) in masters {
        let (k2, id2) = (k.clone(), id.clone());
        let o: Outcome<Option<Value>> = guard_timed(60, move || -> Result<Option<Value>, String> {
            let ku = u(&k2);
            Ok(match kind {
                "sign" => Sm9SignMasterKey { ks: ku, ppubs: TwistPoint::g_mul(&ku) }.extract_key(&id2).map(|x| g1_json(&x.ds)),
                "enc" => Sm9EncMasterKey { ke: ku, ppube: Point::g_mul(&ku) }.extract_key(&id2).map(|x| g2_json(&x.de)),
                _ => Sm9EncMasterKey { ke: ku, ppube: Point::g_mul(&ku) }.extract_exch_key(&id2).map(|x| g2_json(&x.de)),
            })
        });
        let (some, pt) = match o.ok() { Some(Some(v)) => (1, v.clone()), _ => (0, json!({"x": [], "y": [], "z": []})) };
        t.emit(&sess(), "sm9.extract", json!({"prop": "C16", "kind": kind, "k": bytes(&k), "idb": bytes(&id), "some": some, "pt": pt, "outcome": o.name(), "detail": o.detail()}));
    }
}

// ------------------------------------------------------------------------------------------------ C09
struct SignCtx { ks: Vec<u8>, msk: Sm9SignMasterKey }
fn sign_ctx(ks: &[u8]) -> SignCtx { let k = u(ks); SignCtx { ks: ks.to_vec(), msk: Sm9SignMasterKey { ks: k, ppubs: TwistPoint::g_mul(&k) } } }

fn sign_event(t: &mut Tracer, sess: &str, c: &SignCtx, id: &[u8], g: Option<&Gen>, msg: &[u8], script: Vec<[u8; 32]>) -> Option<(U256, Point, Vec<u8>)> {
    let fixed = !script.is_empty();
    let (m, msk, id2) = (msg.to_vec(), c.msk, id.to_vec());
    // key extraction happens inside the guarded call: a crash in it is an outcome of this event, not of the driver
    let (o, rs, _) = hooked(script, move || { let key = msk.extract_key(&id2).ok_or("no signing key for this identity".to_string())?; key.sign(&m).map_err(|e| format!("{:?}", e)) });
    let (h, s) = match o.ok() { Some((h, s)) => (*h, *s), None => ([0u64; 4], Point::zero()) };
    let mut f = json!({"prop": "C09", "ks": bytes(&c.ks), "idb": bytes(id), "mode": if fixed { "fixed" } else { "free" }, "rs": rs.iter().map(|r| bytes(r)).collect::<Vec<_>>(),
        "h": bytes(&ub(&h)), "s": g1_json(&s), "outcome": o.name(), "detail": o.detail()});
    msg_fields(&mut f, g, msg);
    t.emit(sess, "sm9.sign", f);
    if o.ok().is_some() && !rs.is_empty() { Some((h, s, rs.last().unwrap().clone())) } else { None }
}

#[allow(clippy::too_many_arguments)]
fn verify_event(t: &mut Tracer, sess: &str, c: &SignCtx, ppubs: &TwistPoint, keyfault: bool, id: &[u8], g: Option<&Gen>, msg: &[u8], h: &[u8], s: &Point, r: Option<&[u8]>, fault: &str) {
    let msk = Sm9SignMasterKey { ks: c.msk.ks, ppubs: *ppubs };
    let (id2, m2, hu, s2) = (id.to_vec(), msg.to_vec(), u(h), *s);
    let o = guard_timed(60, move || msk.verify_sign(&id2, &m2, &hu, &s2).map_err(|e| format!("{:?}", e)));
    let mut f = json!({"prop": "C09", "ks": bytes(&c.ks), "ppubs": g2_json(ppubs), "keyfault": if keyfault { 1 } else { 0 }, "idb": bytes(id), "h": bytes(h), "s": g1_json(s),
        "honest": if r.is_some() { 1 } else { 0 }, "r": bytes(r.unwrap_or(&[])), "fault": fault, "outcome": o.name(), "detail": o.detail()});
    msg_fields(&mut f, g, msg);
    t.emit(sess, "sm9.verify", f);
}

pub fn drive_sign(t: &mut Tracer, tier: &str, seed: u64, plan: Option<String>) {
    let thorough = tier == "thorough";
    let mut rng = Rng(seed ^ 0x9009);
    let mut n = 0u64;
    let mut sess = || { n += 1; format!("sm9sig/{}", n) };
    let nhex = hexb(N9_HEX);
    // Annex A example with scripted r
    let annex = sign_ctx(&hexb("000130e78459d78545cb54c587e02cf480ce0b66340f319f348a1d5b1f2dc5f4"));
    let r_annex = b32(&hexb("00033c8616b06704813203dfd00965022ed15975c662337aed648835dc4b1cbe"));
    if let Some((h, s, r)) = sign_event(t, &sess(), &annex, b"Alice", None, b"Chinese IBS standard", vec![r_annex]) {
        verify_event(t, &sess(), &annex, &annex.msk.ppubs, false, b"Alice", None, b"Chinese IBS standard", &ub(&h), &s, Some(&r), "none");
    }
    // master keys x identities x message lengths; free r and fixed boundary r
    let nkeys = if thorough { 10 } else { 2 };
    let g = Gen::new("mix", rng.below(1 << 20));
    let lens: Vec<usize> = if thorough { vec![0, 1, 31, 32, 50, 51, 64, 100, 114, 500, 1024] } else { vec![0, 20, 50, 51, 300] };   // 50 / 51: the H2 input 02 || M || w || ct at SM3's padding boundary
    let mut valid: Vec<(SignCtx, Vec<u8>, Vec<u8>, U256, Point, Vec<u8>)> = vec![];
    for ki in 0..nkeys {
        let c = sign_ctx(&scalar(&mut rng));
        for (j, len) in lens.iter().enumerate() {
            let id = { let l = 1 + rng.below(20) as usize; rng.bytes(l) };
            let m = g.msg(*len);
            let script = match (ki + j) % 4 { 0 => vec![], 1 => vec![b32(&be_add_small(&vec![0u8; 32], 1 + (j as i64)))], 2 => vec![b32(&be_add_small(&nhex, -1 - (j as i64)))],
                _ => vec![b32(&sparse_scalar(&mut rng, (ki + j) % 2))] };   // (forms with a zero LOW limb are rejected by the library's sampler)      // exponents with all-zero 64-bit limbs below a non-zero limb
            if let Some((h, s, r)) = sign_event(t, &sess(), &c, &id, Some(&g), &m, script) {
                verify_event(t, &sess(), &c, &c.msk.ppubs, false, &id, Some(&g), &m, &ub(&h), &s, Some(&r), "none");
                if valid.len() < (if thorough { 6 } else { 1 }) { valid.push((sign_ctx(&c.ks), id.clone(), m.clone(), h, s, r)); }
            }
        }
    }
    // identities with edge white space / NUL / high bytes; and verification with a VERIFIER-side key object: the right master public key, a placeholder (0, 1) in
    // the secret field -- the relying party has no secret, and (Ppub-s, ID, M, h, S) fix the answer
    {
        let c = sign_ctx(&scalar(&mut rng));
        for (i, idv) in edge_ids().iter().enumerate() {
            if !thorough && i % 2 == 1 { continue; }
            if let Some((h, s, r)) = sign_event(t, &sess(), &c, idv, None, b"identity bytes as given", vec![]) {
                verify_event(t, &sess(), &c, &c.msk.ppubs, false, idv, None, b"identity bytes as given", &ub(&h), &s, Some(&r), "none");
                if i < 4 {
                    for ph in [[0u64; 4], [1, 0, 0, 0]] {
                        let msk = Sm9SignMasterKey { ks: ph, ppubs: c.msk.ppubs };
                        let (id2, hu, s2) = (idv.clone(), h, s);
                        let o = guard_timed(60, move || msk.verify_sign(&id2, b"identity bytes as given", &hu, &s2).map_err(|e| format!("{:?}", e)));
                        let mut f = json!({"prop": "C09", "ks": bytes(&c.ks), "ppubs": g2_json(&c.msk.ppubs), "keyfault": 0, "idb": bytes(idv), "h": bytes(&ub(&h)), "s": g1_json(&s), "honest": 1, "r": bytes(&r),
                            "fault": "verifier-only-key", "outcome": o.name(), "detail": o.detail()});
                        msg_fields(&mut f, None, b"identity bytes as given");
                        t.emit(&sess(), "sm9.verify", f);
                    }
                }
            }
        }
    }
    // the ends of the range of r: 1 and N - 2
    {
        let c = sign_ctx(&scalar(&mut rng));
        for r in [b32(&be_add_small(&vec![0u8; 32], 1)), b32(&be_add_small(&nhex, -2))] {
            if let Some((h, s, rr)) = sign_event(t, &sess(), &c, b"edge-r", None, b"ends of the range of r", vec![r]) {
                verify_event(t, &sess(), &c, &c.msk.ppubs, false, b"edge-r", None, b"ends of the range of r", &ub(&h), &s, Some(&rr), "none");
            }
        }
    }
    // an identity whose H1(ID || 01) has a leading zero byte, and master keys for which t2 or (H1 + ks)^-1 is a short value (all from the plan)
    for v in read_plan(&plan) {
        let (kind, hid) = (v["kind"].as_str().unwrap_or(""), v["hid"].as_u64().unwrap_or(0));
        if hid != 1 || !(kind == "smallh1" && v["found"] == 1 || kind == "t2key" || kind == "invkey" || kind == "zerokey" || kind == "wrapkey" && v["legal"] == 1) { continue; }
        let c = sign_ctx(&if kind == "smallh1" { scalar(&mut rng) } else { arr(&v["k"]) });
        let idv = arr(&v["idb"]);
        if let Some((h, s, r)) = sign_event(t, &sess(), &c, &idv, None, b"crafted identity / master key", vec![]) {
            verify_event(t, &sess(), &c, &c.msk.ppubs, false, &idv, None, b"crafted identity / master key", &ub(&h), &s, Some(&r), "none");
        }
    }
    // long identities (around 250 bytes: fixed-size scratch buffers for 01 || ID || hid || ct)
    {
        let c = sign_ctx(&scalar(&mut rng));
        for idlen in [250usize, 251, 252, 256, 300] {
            let idv = rng.bytes(idlen);
            if let Some((h, s, r)) = sign_event(t, &sess(), &c, &idv, None, b"long identity", vec![]) {
                verify_event(t, &sess(), &c, &c.msk.ppubs, false, &idv, None, b"long identity", &ub(&h), &s, Some(&r), "none");
            }
        }
    }
    // the master secret EQUALS the identity hash (ks = H1(ID || 01)): P = [h1]P2 + Ppub-s is a DOUBLING in G2 -- the only way the
    // protocol reaches the equal-operands branch of the group addition
    for idv in [b"Alice".to_vec(), rng.bytes(9)] {
        let h1 = ub(&gm_sm9::key::verif_hash1(&idv, 1));
        let c = sign_ctx(&h1);
        if let Some((h, s, r)) = sign_event(t, &sess(), &c, &idv, None, b"master secret equals H1", vec![]) {
            verify_event(t, &sess(), &c, &c.msk.ppubs, false, &idv, None, b"master secret equals H1", &ub(&h), &s, Some(&r), "none");
        }
    }
    // spec-made signatures from the TLC plan: the library must accept them
    for v in read_plan(&plan) {
        if v["kind"] == "specsig" && v["ok"] == "ok" {
            let c = sign_ctx(&arr(&v["ks"]));
            let s = verif::point_from_bytes(&arr(&v["s"]));
            verify_event(t, &sess(), &c, &c.msk.ppubs, false, &arr(&v["idb"]), None, &arr(&v["msg"]), &arr(&v["h"]), &s, Some(&arr(&v["r"])), "spec-made");
        }
    }
    // faults on valid signatures
    for (c, id, m, h, s, _r) in &valid {
        let hb = ub(h);
        let ve = |t: &mut Tracer, se: String, hh: &[u8], ss: &Point, fault: &str| verify_event(t, &se, c, &c.msk.ppubs, false, id, None, m, hh, ss, None, fault);
        // bit flips in h
        for bit in 0..256 { if thorough || bit % 16 == 3 { let mut h2 = hb.clone(); h2[bit / 8] ^= 0x80 >> (bit % 8); ve(t, sess(), &h2, s, "h-bitflip"); } }
        // h out of range / boundary
        for hv in [vec![0u8; 32], be_add_small(&nhex, -1), nhex.clone(), be_add_small(&nhex, 1), vec![0xffu8; 32], be_add_small(&vec![0u8; 32], 1)] { ve(t, sess(), &hv, s, "h-range"); }
        // S: bit flips (off curve), other curve points, infinity, re-randomised representation of the SAME point (must still verify -> honest path needs r; skipped)
        for bit in 0..(if thorough { 256 } else { 24 }) { let mut s2 = *s; s2.x[bit / 64] ^= 1u64 << (bit % 64); ve(t, sess(), &hb, &s2, "S-bitflip"); }
        for _ in 0..(if thorough { 8 } else { 2 }) { let s2 = Point::g_mul(&u(&scalar(&mut rng))); ve(t, sess(), &hb, &s2, "S-other-point"); }
        ve(t, sess(), &hb, &Point::zero(), "S-infinity");
        ve(t, sess(), &hb, &s.point_neg(), "S-negated");
        // altered message / identity / master public key
        let mut m2 = m.clone(); if m2.is_empty() { m2.push(7) } else { m2[0] ^= 1 };
        verify_event(t, &sess(), c, &c.msk.ppubs, false, id, None, &m2, &hb, s, None, "altered-msg");
        let mut id2 = id.clone(); id2.push(b'x');
        verify_event(t, &sess(), c, &c.msk.ppubs, false, &id2, None, m, &hb, s, None, "altered-id");
        let other = TwistPoint::g_mul(&u(&scalar(&mut rng)));
        verify_event(t, &sess(), c, &other, true, id, None, m, &hb, s, None, "altered-master-key");
    }
}

// ------------------------------------------------------------------------------------------------ C10
struct EncCtx { ke: Vec<u8>, msk: Sm9EncMasterKey }
fn enc_ctx(ke: &[u8]) -> EncCtx { let k = u(ke); EncCtx { ke: ke.to_vec(), msk: Sm9EncMasterKey { ke: k, ppube: Point::g_mul(&k) } } }

fn encrypt_event(t: &mut Tracer, sess: &str, c: &EncCtx, id: &[u8], g: Option<&Gen>, msg: &[u8], script: Vec<[u8; 32]>) -> Option<(Vec<u8>, Vec<u8>)> {
    let (msk, id2, m) = (c.msk, id.to_vec(), msg.to_vec());
    let script_len = script.len();
    let (o, rs, _) = hooked(script, move || Ok(msk.encrypt(&id2, &m)));
    let ct = o.ok().cloned().unwrap_or_default();
    let mut f = json!({"prop": "C10", "ke": bytes(&c.ke), "idb": bytes(id), "rs": rs.iter().map(|r| bytes(r)).collect::<Vec<_>>(), "ct": bytes(&ct), "expect_retry": 0, "outcome": o.name(), "detail": o.detail()});
    if rs.len() > 1 || script_len > 1 { f["expect_retry"] = json!(1); }
    msg_fields(&mut f, g, msg);
    t.emit(sess, "sm9.encrypt", f);
    if o.ok().is_some() && !rs.is_empty() { Some((ct, rs.last().unwrap().clone())) } else { None }
}
fn decrypt_event(t: &mut Tracer, sess: &str, c: &EncCtx, keyid: &[u8], id: &[u8], ct: &[u8], r: Option<&[u8]>, fault: &str) {
    let (msk, kid, id2, c2) = (c.msk, keyid.to_vec(), crate::gen::realign(id), crate::gen::realign(ct));
    let o: Outcome<Vec<u8>> = guard_timed(60, move || -> Result<Vec<u8>, String> {
        let key: Sm9EncKey = msk.extract_key(&kid).ok_or("no key".to_string())?;
        key.decrypt(id2.get(), c2.get()).map_err(|e| format!("{:?}", e))
    });
    let out = o.ok().cloned().unwrap_or_default();
    t.emit(sess, "sm9.decrypt", json!({"prop": "C10", "ke": bytes(&c.ke), "keyid": bytes(keyid), "idb": bytes(id), "ct": bytes(ct), "honest": if r.is_some() { 1 } else { 0 },
        "r": bytes(r.unwrap_or(&[])), "fault": fault, "out": bytes(&out), "outcome": o.name(), "detail": o.detail()}));
}

pub fn drive_encrypt(t: &mut Tracer, tier: &str, seed: u64, plan: Option<String>) {
    let thorough = tier == "thorough";
    let mut rng = Rng(seed ^ 0x9010);
    let mut n = 0u64;
    let mut sess = || { n += 1; format!("sm9enc/{}", n) };
    // Annex example with scripted r
    let annex = enc_ctx(&hexb("0001edee3778f441f8dea3d9fa0acc4e07ee36c93f9a08618af4ad85cede1c22"));
    let r_annex = b32(&hexb("0000aac0541779c8fc45e3e2cb25c12b5d2576b2129ae8bb5ee2cbe5ec9e785c"));
    if let Some((ct, r)) = encrypt_event(t, &sess(), &annex, b"Bob", None, b"Chinese IBE standard", vec![r_annex]) {
        decrypt_event(t, &sess(), &annex, b"Bob", b"Bob", &ct, Some(&r), "none");
    }
    // A6 retry: for this (ke, ID, one-byte message) the first scripted r gives an all-zero K1 (C2 would equal M): the standard draws again,
    // so the ciphertext must be the one of the SECOND scripted r.  (r1 = Annex r + 50; the specification confirms that it is a retry.)
    let r1 = b32(&hexb("0000aac0541779c8fc45e3e2cb25c12b5d2576b2129ae8bb5ee2cbe5ec9e788e"));
    let r2 = b32(&scalar(&mut rng));
    if let Some((ct, r)) = encrypt_event(t, &sess(), &annex, b"Bob", None, &[0x5a], vec![r1, r2]) {
        decrypt_event(t, &sess(), &annex, b"Bob", b"Bob", &ct, Some(&r), "none");
    }
    // sparse r (zero limbs)
    for w in 0..(if thorough { 4 } else { 2 }) {
        let rs = b32(&sparse_scalar(&mut rng, w % 2));
        if let Some((ct, r)) = encrypt_event(t, &sess(), &annex, b"Bob", None, b"sparse nonce", vec![rs]) {
            decrypt_event(t, &sess(), &annex, b"Bob", b"Bob", &ct, Some(&r), "none");
        }
    }
    // identities with edge white space / NUL / high bytes: key extraction, encryption and decryption all hash the bytes as given
    {
        let c = enc_ctx(&scalar(&mut rng));
        for (i, idv) in edge_ids().iter().enumerate() {
            if !thorough && i % 2 == 0 && i > 1 { continue; }
            if let Some((ct, r)) = encrypt_event(t, &sess(), &c, idv, None, b"identity bytes as given", vec![]) {
                decrypt_event(t, &sess(), &c, idv, idv, &ct, Some(&r), "none");
            }
        }
    }
    // the ends of the range of r: 1 and N - 2
    {
        let c = enc_ctx(&scalar(&mut rng));
        let nhex = hexb(N9_HEX);
        for r in [b32(&be_add_small(&vec![0u8; 32], 1)), b32(&be_add_small(&nhex, -2))] {
            if let Some((ct, rr)) = encrypt_event(t, &sess(), &c, b"edge-r", None, b"ends of the range of r", vec![r]) {
                decrypt_event(t, &sess(), &c, b"edge-r", b"edge-r", &ct, Some(&rr), "none");
            }
        }
    }
    // an identity whose H1(ID || 03) has a leading zero byte, and master keys for which t2 or (H1 + ke)^-1 is a short value (all from the plan)
    for v in read_plan(&plan) {
        let (kind, hid) = (v["kind"].as_str().unwrap_or(""), v["hid"].as_u64().unwrap_or(0));
        if hid != 3 || !(kind == "smallh1" && v["found"] == 1 || kind == "t2key" || kind == "invkey" || kind == "wrapkey" && v["legal"] == 1) { continue; }
        let c = enc_ctx(&if kind == "smallh1" { scalar(&mut rng) } else { arr(&v["k"]) });
        let idv = arr(&v["idb"]);
        if let Some((ct, r)) = encrypt_event(t, &sess(), &c, &idv, None, b"crafted identity / master key", vec![]) {
            decrypt_event(t, &sess(), &c, &idv, &idv, &ct, Some(&r), "none");
        }
    }
    // long identities (around 250 bytes), incl. two that share their first 250 bytes (a truncating H1 would give them the same key)
    {
        let c = enc_ctx(&scalar(&mut rng));
        let base = rng.bytes(300);
        for idlen in [250usize, 251, 252, 256, 300] {
            let idv = base[..idlen].to_vec();
            if let Some((ct, r)) = encrypt_event(t, &sess(), &c, &idv, None, b"long identity", vec![]) {
                decrypt_event(t, &sess(), &c, &idv, &idv, &ct, Some(&r), "none");
                if idlen == 300 { let other = base[..256].to_vec(); decrypt_event(t, &sess(), &c, &other, &other, &ct, None, "other-key"); }
            }
        }
    }
    // ke = H1(ID || 03): Q = [h1]P1 + Ppub-e is a doubling in G1
    for idv in [b"Bob".to_vec(), rng.bytes(7)] {
        let c = enc_ctx(&ub(&gm_sm9::key::verif_hash1(&idv, 3)));
        if let Some((ct, r)) = encrypt_event(t, &sess(), &c, &idv, None, b"master secret equals H1", vec![]) {
            decrypt_event(t, &sess(), &c, &idv, &idv, &ct, Some(&r), "none");
        }
    }
    // every message length 1..=255 (quick: boundary subset)
    let lens: Vec<usize> = if thorough { (1..=255).collect() } else { vec![1, 2, 23, 24, 31, 32, 33, 64, 87, 100, 223, 224, 254, 255] };     // 23 / 24 / 87: the C3 input C2 || K2 at SM3's padding boundary
    let g = Gen::new("mix", rng.below(1 << 20));
    let mut samples: Vec<(EncCtx, Vec<u8>, Vec<u8>)> = vec![];
    let c = enc_ctx(&scalar(&mut rng));
    for (i, len) in lens.iter().enumerate() {
        let c2 = if i % 7 == 3 { enc_ctx(&scalar(&mut rng)) } else { enc_ctx(&c.ke) };
        let id = { let l = match i % 6 { 1 => 51, 2 => 52, _ => 1 + rng.below(24) as usize }; rng.bytes(l) };     // 51 / 52: the KDF input C1 || w || ID || ct at SM3's padding boundary
        let m = g.msg(*len);
        if let Some((ct, r)) = encrypt_event(t, &sess(), &c2, &id, Some(&g), &m, vec![]) {
            decrypt_event(t, &sess(), &c2, &id, &id, &ct, Some(&r), "none");
            if *len <= 40 && samples.len() < (if thorough { 6 } else { 1 }) { samples.push((enc_ctx(&c2.ke), id.clone(), ct.clone())); }
        }
    }
    // spec-made ciphertexts from the TLC plan
    for v in read_plan(&plan) {
        if v["kind"] == "specct" && v["ok"] == "ok" {
            let c = enc_ctx(&arr(&v["ke"]));
            decrypt_event(t, &sess(), &c, &arr(&v["idb"]), &arr(&v["idb"]), &arr(&v["ct"]), Some(&arr(&v["r"])), "spec-made");
        }
    }
    // one more sample whose C1 has BOTH coordinates below 2^256 - p (found by trying small scripted r): the coordinate + p encodings exist for it
    {
        let c = enc_ctx(&scalar(&mut rng));
        for i in 3..200i64 {
            let r = b32(&be_add_small(&vec![0u8; 32], i));
            let msk = c.msk;
            let (o, _, _) = hooked(vec![r], move || Ok(msk.encrypt(b"range", b"coordinate plus p")));
            if let Some(ct) = o.ok() { if ct.len() > 65 && ct[1] <= 0x48 && ct[33] <= 0x48 {
                if let Some((ct2, _)) = encrypt_event(t, &sess(), &c, b"range", None, b"coordinate plus p", vec![r]) { samples.push((enc_ctx(&c.ke), b"range".to_vec(), ct2)); }
                break;
            } }
        }
    }
    // faults: every single-bit flip, truncations, C1 off the curve, other identity
    for (c, id, ct) in &samples {
        for bit in 0..(ct.len() * 8) {
            if !thorough && bit % 5 != 0 && bit >= 8 { continue; }
            let mut c2 = ct.clone(); c2[bit / 8] ^= 0x80 >> (bit % 8);
            let region = if bit < 8 { "flip-prefix" } else if bit / 8 < 65 { "flip-c1" } else if bit / 8 < 97 { "flip-c3" } else { "flip-c2" };
            decrypt_event(t, &sess(), c, id, id, &c2, None, region);
        }
        for len in 0..ct.len() { if thorough || len % 9 == 0 || len >= 95 { decrypt_event(t, &sess(), c, id, id, &ct[..len], None, "truncated"); } }
        // alterations of C3 that keep its XOR / byte sum: byte swap, the same bit flipped in two bytes
        for rep in 0..(if thorough { 16 } else { 4 }) {
            let mut c2 = ct.clone();
            let (i, mut j) = (rng.below(32) as usize, rng.below(32) as usize);
            if rep % 2 == 0 { while c2[65 + j] == c2[65 + i] { j = (j + 1) % 32; if j == i { break; } } c2.swap(65 + i, 65 + j); }
            else { if j == i { j = (i + 1) % 32; } let b = 1u8 << rng.below(8); c2[65 + i] ^= b; c2[65 + j] ^= b; }
            if &c2 != ct { decrypt_event(t, &sess(), c, id, id, &c2, None, "fold-c3"); }
        }
        let mut off = ct.clone(); for b in off[1..65].iter_mut() { *b = rng.next() as u8; } off[1] &= 0x3f;
        decrypt_event(t, &sess(), c, id, id, &off, None, "c1-offcurve");
        let mut big = ct.clone(); for b in big[1..33].iter_mut() { *b = 0xff; }
        decrypt_event(t, &sess(), c, id, id, &big, None, "c1-x>=p");
        // the SAME point with a coordinate written as coordinate + p (possible when it is below 2^256 - p): a parser that reduces silently sees the
        // genuine C1 -- only the range test (or hashing the received bytes) rejects it
        {
            let pbytes = hexb(P9_HEX);
            for (lo, name) in [(1usize, "c1-x+p"), (33, "c1-y+p")] {
                if ct[lo] <= 0x48 {
                    let mut v = ct.clone();
                    let mut carry = 0u16;
                    for i in (0..32).rev() { let t = v[lo + i] as u16 + pbytes[i] as u16 + carry; v[lo + i] = t as u8; carry = t >> 8; }
                    decrypt_event(t, &sess(), c, id, id, &v, None, name);
                }
            }
        }
        // forgeries that need no key when a degenerate C1 is accepted: C1 = (0,0) (or other fixed non-points) with w = 1 in GT,
        // K = KDF(C1 || w || ID) computed from public data, valid C3 for it
        for (fx, fy, name) in [(0u8, 0u8, "c1-zero-forged"), (0, 1, "c1-zero-forged"), (1, 1, "c1-zero-forged")] {
            let mut c1 = vec![0u8; 65]; c1[0] = 4; c1[32] = fx; c1[64] = fy;
            let mut w1 = vec![0u8; 384]; w1[383] = 1;
            let m = b"forged".to_vec();
            let k = gm_sm9::key::verif_kdf(&[&c1[1..], &w1[..], &id[..]].concat(), m.len() + 32);
            let c2: Vec<u8> = m.iter().zip(k.iter()).map(|(a, b)| a ^ b).collect();
            let c3 = gm_sm3::sm3_hash(&[&c2[..], &k[m.len()..m.len() + 32]].concat());
            decrypt_event(t, &sess(), c, id, id, &[c1, c3.to_vec(), c2].concat(), None, name);
        }
        // an off-curve C1 with C2 / C3 CONSISTENT with whatever the library's own Miller loop makes of that point (a decryption
        // that relies on the C3 comparison instead of the curve test accepts it): w' through the pairing hook, K from the KDF hook
        if let Some(dk) = c.msk.extract_key(id) {
            for which in 0..(if thorough { 4 } else { 2 }) {
                let mut c1 = ct[..65].to_vec();
                match which { 0 => c1[64] ^= 1, 1 => c1[32] ^= 2, 2 => { c1.swap(10, 50); } _ => { for b in c1[1..65].iter_mut() { *b = rng.next() as u8; } c1[1] &= 0x3f; c1[33] &= 0x3f; } }
                let c1b = c1.clone();
                let w = guard_timed(60, move || Ok::<_, String>(verif::pairing(&dk.de, &verif::point_from_bytes(&c1b))));
                if let Some(w1) = w.ok() {
                    let m = b"invalid curve".to_vec();
                    let k = gm_sm9::key::verif_kdf(&[&c1[1..], &w1[..], &id[..]].concat(), m.len() + 32);
                    let c2: Vec<u8> = m.iter().zip(k.iter()).map(|(a, b)| a ^ b).collect();
                    let c3 = gm_sm3::sm3_hash(&[&c2[..], &k[m.len()..m.len() + 32]].concat());
                    decrypt_event(t, &sess(), c, id, id, &[c1, c3.to_vec(), c2].concat(), None, "c1-offcurve-consistent");
                }
            }
        }
        let mut id2 = id.clone(); id2.push(1);
        decrypt_event(t, &sess(), c, id, &id2, ct, None, "other-identity");
        decrypt_event(t, &sess(), c, &id2, id, ct, None, "other-key");
    }
}

// ------------------------------------------------------------------------------------------------ C17
fn tamper_g1(p: &Point, kind: &str, rng: &mut Rng) -> Point {
    match kind {
        "other" => Point::g_mul(&u(&scalar(rng))),
        "offcurve" => { let mut q = *p; q.y[0] ^= 1; q }
        "infinity" => Point::zero(),
        "bitflip" => { let mut q = *p; q.x[1] ^= 1 << 9; q }
        _ => *p,
    }
}
pub fn drive_kex(t: &mut Tracer, tier: &str, seed: u64) {
    let thorough = tier == "thorough";
    let mut rng = Rng(seed ^ 0x9017);
    let mut n = 0u64;
    let mut sess = || { n += 1; format!("sm9kx/{}", n) };
    let run = |t: &mut Tracer, s: String, ke: &[u8], ida: &[u8], idb: &[u8], klen: usize, ra_script: Vec<[u8; 32]>, rb_script: Vec<[u8; 32]>, tam_a: &str, tam_b: &str, rng: &mut Rng| {
        let c = enc_ctx(ke);
        let (key_a, key_b) = match (c.msk.extract_exch_key(ida), c.msk.extract_exch_key(idb)) { (Some(a), Some(b)) => (a, b), _ => return };
        let common = json!({"prop": "C17", "ke": bytes(ke), "ida": bytes(ida), "idb": bytes(idb), "klen": klen});
        let with = |extra: Value| { let mut m = common.clone(); for (k, v) in extra.as_object().unwrap() { m[k] = v.clone(); } m };
        let (msk, idb2) = (c.msk, idb.to_vec());
        let (o1, rs1, _) = hooked(ra_script, move || Ok(exch_step_1a(&msk, &idb2)));
        let (ra, ra_) = match o1.ok() { Some((p, r)) => (*p, *r), None => { t.emit(&s, "sm9kx.1a", with(json!({"r": [], "ra": g1_json(&Point::zero()), "outcome": o1.name(), "detail": o1.detail()}))); return; } };
        let r_a = rs1.last().cloned().unwrap_or_default();
        t.emit(&s, "sm9kx.1a", with(json!({"r": bytes(&r_a), "ra": g1_json(&ra), "outcome": "ok", "detail": ""})));
        let ra_recv = tamper_g1(&ra, tam_a, rng);
        let (msk, ida2, idb2) = (c.msk, ida.to_vec(), idb.to_vec());
        let (o2, rs2, _) = hooked(rb_script, move || exch_step_1b(&msk, &ida2, &idb2, &key_b, &ra_recv, klen).map_err(|e| format!("{:?}", e)));
        let r_b = rs2.last().cloned().unwrap_or_default();
        let (rb, skb) = match o2.ok() { Some((p, k)) => (*p, k.clone()), None => (Point::zero(), vec![]) };
        t.emit(&s, "sm9kx.1b", with(json!({"r": bytes(&r_b), "peer_r": if tam_a == "none" { bytes(&r_a) } else { json!([]) }, "ra_in": g1_json(&ra_recv), "rb": g1_json(&rb), "sk": bytes(&skb),
            "tamper": tam_a, "outcome": o2.name(), "detail": o2.detail()})));
        if o2.ok().is_none() { return; }
        let rb_recv = tamper_g1(&rb, tam_b, rng);
        let (msk, ida2, idb2) = (c.msk, ida.to_vec(), idb.to_vec());
        let (o3, _, _) = hooked(vec![], move || exch_step_2a(&msk, &ida2, &idb2, &key_a, ra_, &ra, &rb_recv, klen).map_err(|e| format!("{:?}", e)));
        let ska = o3.ok().cloned().unwrap_or_default();
        t.emit(&s, "sm9kx.2a", with(json!({"r": bytes(&r_a), "peer_r": if tam_b == "none" { bytes(&r_b) } else { json!([]) }, "ra": g1_json(&ra), "rb_in": g1_json(&rb_recv), "sk": bytes(&ska),
            "tamper": tam_b, "outcome": o3.name(), "detail": o3.detail()})));
    };
    // Annex example
    run(t, sess(), &hexb("0002e65b0762d042f51f0d23542b13ed8cfa2e9a0e7206361e013a283905e31f"), b"Alice", b"Bob", 16,
        vec![b32(&hexb("00005879dd1d51e175946f23b1b41e93ba31c584ae59a426ec1046a4d03b06c8"))], vec![b32(&hexb("00018b98c44bef9f8537fb7d071b2c928b3bc65bd3d69e1eee213564905634fe"))], "none", "none", &mut rng);
    // sparse ephemeral scalars (zero limbs)
    for w in 0..(if thorough { 4 } else { 2 }) {
        let ke = scalar(&mut rng);
        let (ra, rb) = (b32(&sparse_scalar(&mut rng, w % 2)), b32(&sparse_scalar(&mut rng, (w + 1) % 2)));
        run(t, sess(), &ke, b"alice", b"bob", 24, vec![ra], vec![rb], "none", "none", &mut rng);
    }
    // identities with a trailing NUL / edge white space on either side
    {
        let ids = edge_ids();
        for (ia, ib) in [(4usize, 0usize), (1, 4), (6, 2)] {
            let ke = scalar(&mut rng);
            run(t, sess(), &ke, &ids[ia], &ids[ib], 16, vec![], vec![], "none", "none", &mut rng);
        }
    }
    // the ends of the ephemeral range: r = 1 (R = Q itself: a "trivial scalar" shortcut must still return the same POINT) and r = N - 2
    {
        let nhex = hexb(N9_HEX);
        let (one, top) = (b32(&be_add_small(&vec![0u8; 32], 1)), b32(&be_add_small(&nhex, -2)));
        for (sa, sb) in [(one, top), (top, one), (one, one)] {
            let ke = scalar(&mut rng);
            run(t, sess(), &ke, b"alice", b"bob", 16, vec![sa], vec![sb], "none", "none", &mut rng);
        }
    }
    // the generator first offers candidates in [N, p) and the extremes (N + 5, N, N - 1, 0, 2^256 - 1: none may be used), then a valid one: both
    // parties must still derive the same key from the scalar that was finally accepted
    {
        let nhex = hexb(N9_HEX);
        let bad: Vec<[u8; 32]> = vec![b32(&be_add_small(&nhex, 5)), b32(&nhex), b32(&be_add_small(&nhex, -1)), [0u8; 32], [0xffu8; 32], b32(&be_add_small(&hexb(P9_HEX), -2))];
        for which in 0..3 {
            let ke = scalar(&mut rng);
            let mut sa = if which != 1 { bad.clone() } else { vec![] }; sa.push(b32(&scalar(&mut rng)));
            let mut sb = if which != 0 { bad.iter().rev().cloned().collect() } else { vec![] }; sb.push(b32(&scalar(&mut rng)));
            run(t, sess(), &ke, b"alice", b"bob", 16 + which, sa, sb, "none", "none", &mut rng);
        }
    }
    // ke = H1(ID || 02) for one of the two identities: Q_B (resp. Q_A) = [h1]P1 + Ppub-e is a doubling in G1
    for which in 0..2 {
        let (ida, idb) = (b"Alice".to_vec(), b"Bob".to_vec());
        let ke = ub(&gm_sm9::key::verif_hash1(if which == 0 { &idb } else { &ida }, 2));
        run(t, sess(), &ke, &ida, &idb, 32, vec![], vec![], "none", "none", &mut rng);
    }
    // long identities (251 / 256 bytes)
    for (la, lb) in [(251usize, 5usize), (6, 256)] {
        let ke = scalar(&mut rng);
        let (ida, idb) = (rng.bytes(la), rng.bytes(lb));
        run(t, sess(), &ke, &ida, &idb, 16, vec![], vec![], "none", "none", &mut rng);
    }
    // identities whose total length puts the KDF input IDA || IDB || RA || RB || g1 || g2 || g3 || ct at SM3's padding boundary (55 / 56 mod 64)
    for (la, lb) in [(25usize, 26usize), (26, 26)] {
        let ke = scalar(&mut rng);
        let (ida, idb) = (rng.bytes(la), rng.bytes(lb));
        run(t, sess(), &ke, &ida, &idb, 40, vec![], vec![], "none", "none", &mut rng);
    }
    // honest runs, klen 1..=128
    let klens: Vec<usize> = if thorough { (1..=128).collect() } else { vec![1, 16, 32, 33, 100, 128] };
    for (i, klen) in klens.iter().enumerate() {
        let ke = scalar(&mut rng);
        let (ida, idb) = ({ let l = 1 + rng.below(16) as usize; rng.bytes(l) }, { let l = 1 + rng.below(16) as usize; rng.bytes(l) });
        if !thorough || i % 2 == 0 { run(t, sess(), &ke, &ida, &idb, *klen, vec![], vec![], "none", "none", &mut rng); }
    }
    // tampered R values
    for kind in ["offcurve", "infinity", "bitflip", "other"] {
        let ke = scalar(&mut rng);
        if kind != "other" || thorough {
            run(t, sess(), &ke, b"alice@x", b"bob@y", 20, vec![], vec![], kind, "none", &mut rng);
            run(t, sess(), &ke, b"alice@x", b"bob@y", 20, vec![], vec![], "none", kind, &mut rng);
        } else {
            run(t, sess(), &ke, b"alice@x", b"bob@y", 20, vec![], vec![], kind, "none", &mut rng);
        }
    }
}

// ------------------------------------------------------------------------------------------------ C12
/// another Jacobian representation of the same G2 point: (X l^2, Y l^3, Z l) for an Fp2 value l given as 64 bytes (c1 || c0)
pub fn g2_rerand(q: &TwistPoint, l: &[u8]) -> TwistPoint {
    let m = |a: &[u8], b: &[u8]| verif::fp2_op("mul", a, b);
    let (l2, x, y, z) = (m(l, l), verif::fp2_bytes(&q.x), verif::fp2_bytes(&q.y), verif::fp2_bytes(&q.z));
    let l3 = m(&l2, l);
    TwistPoint { x: verif::fp2_from_bytes(&m(&x, &l2)), y: verif::fp2_from_bytes(&m(&y, &l3)), z: verif::fp2_from_bytes(&m(&z, l)) }
}
/// the affine representation (Z = 1) of a finite G2 point
pub fn g2_affine(q: &TwistPoint) -> TwistPoint {
    let zi = verif::fp2_op("inv", &verif::fp2_bytes(&q.z), &[0u8; 64]);
    let mut r = g2_rerand(q, &zi);
    r.z = TwistPoint::g_mul(&[1, 0, 0, 0]).z;
    r
}
/// Fp2 values a shortcut keyed on Z (or on Z^2) could mistake for one: -1, 2, u, -u, 1 + u, and a random one
pub fn special_fp2(rng: &mut Rng) -> Vec<(Vec<u8>, &'static str)> {
    let pm1 = be_add_small(&hexb(P9_HEX), -1);
    let (z, one, two) = (vec![0u8; 32], be_add_small(&vec![0u8; 32], 1), be_add_small(&vec![0u8; 32], 2));
    let mut r = scalar(rng); r[0] &= 0x3f;
    vec![([z.clone(), pm1.clone()].concat(), "z=-1"), ([z.clone(), two].concat(), "z=2"), ([one.clone(), z.clone()].concat(), "z=u"), ([pm1, z.clone()].concat(), "z=-u"),
         ([one.clone(), one].concat(), "z=1+u"), ([z, r].concat(), "z=random")]
}
pub fn drive_pairing(t: &mut Tracer, tier: &str, seed: u64) {
    let thorough = tier == "thorough";
    let mut rng = Rng(seed ^ 0x9012);
    let mut n = 0u64;
    let mut sess = || { n += 1; format!("sm9pair/{}", n) };
    let nhex = hexb(N9_HEX);
    let small = |v: i64| be_add_small(&vec![0u8; 32], v);
    // exact 384-byte comparisons: generator multiples with small / near-order / random scalars; Jacobian inputs with Z != 1
    let mut cases: Vec<(Vec<u8>, Vec<u8>, &'static str)> = vec![(small(1), small(1), "generators"), (small(2), small(3), "small"), (be_add_small(&nhex, -1), small(1), "near-order"),
        (small(1), be_add_small(&nhex, -2), "near-order"), (hexb("000130e78459d78545cb54c587e02cf480ce0b66340f319f348a1d5b1f2dc5f4"), small(1), "annex-g")];
    for _ in 0..(if thorough { 40 } else { 3 }) { cases.push((scalar(&mut rng), scalar(&mut rng), "random")); }
    for (a, b, cls) in &cases {
        // e([b]P1, [a]P2): [a]P2 via g_mul (Jacobian in general), [b]P1 via g_mul (Jacobian, Z != 1 unless b = 1)
        let q = TwistPoint::g_mul(&u(a));
        let p = Point::g_mul(&u(b));
        let o = guard_plain(|| verif::pairing(&q, &p));
        let out = o.ok().cloned().unwrap_or_default();
        t.emit(&sess(), "sm9.pairing", json!({"prop": "C12", "p": g1_json(&p), "q": g2_json(&q), "cls": cls, "out": bytes(&out), "outcome": o.name(), "detail": o.detail()}));
    }
    // the identity of G1 as first argument, obtained in three ways ((1,1,0) by construction, [N]P1, P - P): e(O, Q) = 1 for every Q
    {
        let p1 = Point::g_mul(&[1, 0, 0, 0]);
        let pk = Point::g_mul(&u(&scalar(&mut rng)));
        let zeros: Vec<Point> = vec![Point::zero(), p1.point_mul(&u(&nhex)), pk.point_sub(&pk), pk.point_add(&pk.point_neg())];
        for (i, z) in zeros.iter().enumerate() {
            let q = if i % 2 == 0 { TwistPoint::g_mul(&[1, 0, 0, 0]) } else { TwistPoint::g_mul(&u(&scalar(&mut rng))) };
            let zz = *z;
            let o = guard_plain(|| verif::pairing(&q, &zz));
            let out = o.ok().cloned().unwrap_or_default();
            t.emit(&sess(), "sm9.pairing", json!({"prop": "C12", "p": g1_json(z), "q": g2_json(&q), "cls": "identity-g1", "out": bytes(&out), "outcome": o.name(), "detail": o.detail()}));
        }
    }
    // the identity of G2 as second argument ((1,1,0)-style zero, [N]P2, Q - Q): e(P, O) = 1 for every P
    {
        let g2 = TwistPoint::g_mul(&[1, 0, 0, 0]);
        let qk = TwistPoint::g_mul(&u(&scalar(&mut rng)));
        let zeros: Vec<TwistPoint> = vec![TwistPoint::zero(), g2.point_mul(&u(&nhex)), qk.point_sub(&qk)];
        for (i, z) in zeros.iter().enumerate() {
            let p = if i % 2 == 0 { Point::g_mul(&[1, 0, 0, 0]) } else { Point::g_mul(&u(&scalar(&mut rng))) };
            let zz = *z;
            let o = guard_plain(|| verif::pairing(&zz, &p));
            let out = o.ok().cloned().unwrap_or_default();
            t.emit(&sess(), "sm9.pairing", json!({"prop": "C12", "p": g1_json(&p), "q": g2_json(z), "cls": "identity-g2", "out": bytes(&out), "outcome": o.name(), "detail": o.detail()}));
        }
    }
    // bilinearity / order identities evaluated by the library, judged by the specification with G0^(ab)
    let nid = if thorough { 400 } else { 24 };
    for i in 0..nid {
        let (a, b, cls) = match i % 6 { 0 => (small(1 + i as i64), small(1), "small"), 1 => (be_add_small(&nhex, -1 - (i as i64)), small(2), "near-order"), 2 => (small(1), be_add_small(&nhex, -1), "near-order"),
            _ => (scalar(&mut rng), scalar(&mut rng), "random") };
        let q = if i % 4 == 0 { TwistPoint::g_mul(&u(&a)) } else { TwistPoint::g_mul(&[1, 0, 0, 0]).point_mul(&u(&a)) };
        let p = if i % 3 == 0 { Point::g_mul(&u(&b)) } else { Point::g_mul(&[1, 0, 0, 0]).point_mul(&u(&b)) };
        let o = guard_plain(|| verif::pairing(&q, &p));
        let out = o.ok().cloned().unwrap_or_default();
        t.emit(&sess(), "sm9.pair_ident", json!({"prop": "C12", "a": bytes(&a), "b": bytes(&b), "cls": cls, "out": bytes(&out), "outcome": o.name(), "detail": o.detail()}));
    }
    // the same pair in OTHER Jacobian representations: Q = (X l^2, Y l^3, Z l) with l = -1, 2, u, ... (l^2 = 1 or l in Fp: what a
    // "Q is affine" shortcut in the line functions could key on), P with special stored Z limbs; judged through G0^(ab)
    {
        let (a, b) = (scalar(&mut rng), scalar(&mut rng));
        let qa = g2_affine(&TwistPoint::g_mul(&u(&a)));
        let pa = Point::g_mul(&u(&b)).to_affine_point();
        for (l, cls) in special_fp2(&mut rng) {
            let q = g2_rerand(&qa, &l);
            let o = guard_plain(|| verif::pairing(&q, &pa));
            let out = o.ok().cloned().unwrap_or_default();
            t.emit(&sess(), "sm9.pair_ident", json!({"prop": "C12", "a": bytes(&a), "b": bytes(&b), "cls": format!("q.{}", cls), "out": bytes(&out), "outcome": o.name(), "detail": o.detail()}));
        }
        use gm_sm9::fields::fp::mont_mul;
        let mone = gm_sm9::u256::u256_sub(&u(&hexb(P9_HEX)), &pa.z).0;         // the stored form of -1 (p minus the Montgomery one)
        for (zl, cls) in [([1u64, 0, 0, 0], "stored-1"), ([2, 0, 0, 0], "stored-2"), (mone, "z=-1"), ([0, 0, 0, 1], "limb3")] {
            let (l2, l3) = (mont_mul(&zl, &zl), mont_mul(&mont_mul(&zl, &zl), &zl));
            let p = Point { x: mont_mul(&pa.x, &l2), y: mont_mul(&pa.y, &l3), z: mont_mul(&pa.z, &zl) };
            let o = guard_plain(|| verif::pairing(&qa, &p));
            let out = o.ok().cloned().unwrap_or_default();
            t.emit(&sess(), "sm9.pair_ident", json!({"prop": "C12", "a": bytes(&a), "b": bytes(&b), "cls": format!("p.{}", cls), "out": bytes(&out), "outcome": o.name(), "detail": o.detail()}));
        }
    }
    // GT exponentiation (order N: g^(N-2) etc. stay within the library's pow precondition e < N-1)
    let g0 = guard_plain(|| verif::pairing(&TwistPoint::g_mul(&[1, 0, 0, 0]), &Point::g_mul(&[1, 0, 0, 0]))).ok().cloned().unwrap_or_default();
    if g0.len() == 384 {
        for (e, cls) in [(small(0), "e=0"), (small(1), "e=1"), (small(2), "small"), (be_add_small(&nhex, -2), "e=N-2"), (scalar(&mut rng), "random"), (scalar(&mut rng), "random"),
                         (sparse_scalar(&mut rng, 0), "sparse"), (sparse_scalar(&mut rng, 1), "sparse"), (sparse_scalar(&mut rng, 2), "sparse"), (sparse_scalar(&mut rng, 3), "sparse")] {
            let (g2, e2) = (g0.clone(), u(&e));
            let o = guard_plain(move || verif::fp12_pow(&g2, &e2));
            let out = o.ok().cloned().unwrap_or_default();
            t.emit(&sess(), "gt.pow", json!({"prop": "C12", "base": bytes(&g0), "e": bytes(&e), "cls": cls, "out": bytes(&out), "outcome": o.name(), "detail": o.detail()}));
        }
    }
}

// ------------------------------------------------------------------------------------------------ C13
fn field_values(rng: &mut Rng, modulus_hex: &str, nrand: usize) -> Vec<(Vec<u8>, &'static str)> {
    let m = hexb(modulus_hex);
    let mut v: Vec<(Vec<u8>, &'static str)> = vec![(vec![0u8; 32], "zero"), (be_add_small(&vec![0u8; 32], 1), "one"), (be_add_small(&vec![0u8; 32], 2), "small"),
        (be_add_small(&m, -1), "near-modulus"), (be_add_small(&m, -2), "near-modulus")];
    let limbs: [u64; 4] = [1, 1 << 32, 1 << 63, u64::MAX];
    for a in 0..4 { let x: U256 = [limbs[a], limbs[(a + 1) % 4], limbs[(a + 2) % 4], limbs[(a + 3) % 4] >> 2]; v.push((ub(&x), "boundary-limbs")); }
    for _ in 0..nrand { v.push((scalar(rng), "random")); }
    v.into_iter().filter(|(x, _)| x.as_slice() < m.as_slice()).collect()
}
/// tower element of `lvl` components: each subset of components zero, others from the value pool
fn tower_elems(rng: &mut Rng, lvl: usize, pool: &[(Vec<u8>, &'static str)], count: usize) -> Vec<(Vec<u8>, String)> {
    let mut out = vec![];
    let masks: Vec<u32> = if lvl <= 4 { (0..(1u32 << lvl)).collect() } else { let mut m: Vec<u32> = vec![0, 0xfff, 1, 0x800, 0x00f, 0xf00, 0x0f0, 0x555, 0xaaa]; for _ in 0..count { m.push(rng.next() as u32 & 0xfff); } m };
    for mask in masks {
        let mut b = vec![];
        let mut cls = String::from("z");
        for i in 0..lvl {
            if mask >> i & 1 == 1 { let (v, _) = &pool[rng.below(pool.len() as u64) as usize]; b.extend_from_slice(v); cls.push('x'); } else { b.extend_from_slice(&[0u8; 32]); cls.push('0'); }
        }
        out.push((b, if lvl <= 4 { cls } else { format!("m{:03x}", mask) }));
    }
    out
}

pub fn drive_arith(t: &mut Tracer, tier: &str, seed: u64) {
    let thorough = tier == "thorough";
    let mut rng = Rng(seed ^ 0x9013);
    let mut n = 0u64;
    let mut sess = || { n += 1; format!("sm9ar/{}", n) };
    let pool = field_values(&mut rng, P9_HEX, if thorough { 12 } else { 4 });
    let tower = |t: &mut Tracer, s: String, lvl: usize, f: &'static str, a: &[u8], b: &[u8], cls: &str| {
        let (a2, b2) = (a.to_vec(), b.to_vec());
        let o = guard_plain(move || match lvl { 1 => verif::fp_op(f, &a2, &b2), 2 => verif::fp2_op(f, &a2, &b2), 4 => verif::fp4_op(f, &a2, &b2), _ => verif::fp12_op(f, &a2, &b2) });
        let out = o.ok().cloned().unwrap_or_default();
        t.emit(&s, "tower.op", json!({"prop": "C13", "lvl": lvl, "f": f, "cls": cls, "a": bytes(a), "b": bytes(b), "out": bytes(&out), "outcome": o.name(), "detail": o.detail()}));
    };
    // Fp
    for (i, (a, ca)) in pool.iter().enumerate() {
        for f in ["sqr", "neg", "dbl", "tpl", "div2", "inv"] { tower(t, sess(), 1, f, a, &[0u8; 32], ca); }
        for (j, (b, _)) in pool.iter().enumerate() { if thorough || (i + j) % 3 == 0 { for f in ["add", "sub", "mul"] { tower(t, sess(), 1, f, a, b, ca); } } }
    }
    // Fp2 / Fp4: every zero pattern
    for (lvl, unary, binary) in [(2usize, vec!["sqr", "neg", "dbl", "tpl", "div2", "inv", "conj", "a_mul_u", "sqr_u"], vec!["add", "sub", "mul", "div", "mul_u", "mul_fp"]),
                                 (4usize, vec!["sqr", "neg", "dbl", "div2", "inv", "conj", "a_mul_v", "sqr_v"], vec!["add", "sub", "mul", "mul_v", "mul_fp2", "mul_fp"])] {
        let reps = if thorough { 4 } else { 1 };
        for _ in 0..reps {
            let elems = tower_elems(&mut rng, lvl, &pool, 0);
            for (i, (a, ca)) in elems.iter().enumerate() {
                for f in &unary { tower(t, sess(), lvl, f, a, &vec![0u8; 32 * lvl], ca); }
                for (j, (b, _)) in elems.iter().enumerate() { if thorough || (i * 3 + j) % 5 == 0 || lvl == 2 { for f in &binary { tower(t, sess(), lvl, f, a, b, ca); } } }
            }
        }
    }
    // Fp12: zero-pattern classes x a few values
    let e12 = tower_elems(&mut rng, 12, &pool, if thorough { 20 } else { 3 });
    for (i, (a, ca)) in e12.iter().enumerate() {
        for f in ["sqr", "neg", "dbl", "inv"] { tower(t, sess(), 12, f, a, &vec![0u8; 384], ca); }
        if i % 3 == 0 { tower(t, sess(), 12, "frob2", a, &vec![0u8; 384], ca); }
        if thorough && i % 5 == 0 { tower(t, sess(), 12, "frob6", a, &vec![0u8; 384], ca); }
        let (b, _) = &e12[(i * 5 + 1) % e12.len()];
        for f in ["add", "sub", "mul"] { tower(t, sess(), 12, f, a, b, ca); }
    }
    // Fp12 exponentiation (arbitrary elements, not only GT): small, boundary and sparse exponents (all-zero 64-bit limbs below / between non-zero ones)
    {
        let small = |v: i64| be_add_small(&vec![0u8; 32], v);
        let mut exps: Vec<(Vec<u8>, &'static str)> = vec![(small(0), "e=0"), (small(1), "e=1"), (small(2), "small"), (small(3), "small"), (be_add_small(&hexb(N9_HEX), -2), "e=N-2"), (scalar(&mut rng), "random")];
        for w in 0..4 { exps.push((sparse_scalar(&mut rng, w), "sparse")); }
        for (sh, name) in [(8usize, "sparse"), (16, "sparse"), (24, "sparse")] { let mut k = vec![0u8; 32]; k[31 - sh] = 1; exps.push((k, name)); }     // 2^64, 2^128, 2^192
        for (i, (e, cls)) in exps.iter().enumerate() {
            let (a, _) = &e12[(i * 3) % e12.len()];
            let (a2, e2) = (a.clone(), u(e));
            let o = guard_plain(move || verif::fp12_pow(&a2, &e2));
            let out = o.ok().cloned().unwrap_or_default();
            t.emit(&sess(), "gt.pow", json!({"prop": "C13", "base": bytes(a), "e": bytes(e), "cls": format!("fp12.{}", cls), "out": bytes(&out), "outcome": o.name(), "detail": o.detail()}));
        }
    }
    // sums that equal the modulus except in ONE 64-bit limb (m - 2^64, m - 2^128, m - 2^192, reached as x + 0 and (x - 5) + 5): a comparison with the
    // modulus that skips or mis-orders a limb reduces them wrongly; modulo p and modulo N
    // sums that land just BELOW the modulus, at a distance whose low word is above 2^63 / equal to 2^63 / equal to the modulus's low limb (a comparison of the
    // last limb done on the wrapped difference read as a signed number goes wrong exactly there); also differences a - b with those values
    for (mhex, is_p) in [(P9_HEX, true), (N9_HEX, false)] {
        let m = hexb(mhex);
        let low = u64::from_be_bytes(m[24..32].try_into().unwrap());
        for d in [(1u64 << 63) + 1, 1u64 << 63, 0x9000_0000_0000_0000, low, low - 1, (1u64 << 63) - 1] {
            let mut db = vec![0u8; 32]; db[24..32].copy_from_slice(&d.to_be_bytes());
            let target = crate::suites::sm2::be_sub(&m, &db);                     // m - d
            let a = { let mut x = rng.bytes(32); x[0] = 0; x };
            let b = crate::suites::sm2::be_sub(&target, &a);                      // a + b = m - d, no carry
            if is_p { tower(t, sess(), 1, "add", &a, &b, "near-modulus-sum"); tower(t, sess(), 1, "sub", &target, &a, "near-modulus-sum"); }
            else {
                for f in ["add", "sub"] {
                    let (x, y) = if f == "add" { (a.clone(), b.clone()) } else { (target.clone(), a.clone()) };
                    let (xu, yu) = (u(&x), u(&y));
                    let o = guard_plain(move || if f == "add" { mod_n_add(&xu, &yu) } else { gm_sm9::fields::mod_n_sub(&xu, &yu) });
                    t.emit(&sess(), "modn.op", json!({"prop": "C13", "f": f, "cls": "near-modulus-sum", "a": bytes(&x), "b": bytes(&y), "out": bytes(&o.ok().map(|x| ub(x)).unwrap_or(vec![0u8; 32])), "outcome": o.name(), "detail": o.detail()}));
                }
            }
        }
    }
    for limb in 0..4usize {
        // (limb 0: the modulus itself -- sums that are exactly m, m - 1, m + 1)
        let pw = { let mut v = vec![0u8; 32]; if limb > 0 { v[31 - 8 * limb] = 1; } v };
        for (mhex, is_p) in [(P9_HEX, true), (N9_HEX, false)] {
            let m = hexb(mhex);
            // m - 2^(64 limb): subtract the power as big-endian byte strings
            let mut x = m.clone(); let mut borrow = 0i32;
            for i in (0..32).rev() { let d = x[i] as i32 - pw[i] as i32 - borrow; if d < 0 { x[i] = (d + 256) as u8; borrow = 1; } else { x[i] = d as u8; borrow = 0; } }
            let x5 = be_add_small(&x, -5);
            let mut pairs = vec![(x5.clone(), be_add_small(&vec![0u8; 32], 5)), (x5.clone(), be_add_small(&vec![0u8; 32], 4)), (x5.clone(), be_add_small(&vec![0u8; 32], 6))];
            if limb > 0 { pairs.push((x.clone(), vec![0u8; 32])); pairs.push((x.clone(), pw.clone())); }
            for (a, b) in pairs {
                if is_p { tower(t, sess(), 1, "add", &a, &b, "limb-below"); if b.iter().all(|z| *z == 0) { tower(t, sess(), 1, "dbl", &a, &b, "limb-below"); tower(t, sess(), 1, "mul", &a, &be_add_small(&vec![0u8; 32], 1), "limb-below"); } }
                else {
                    let (au, bu) = (u(&a), u(&b));
                    let o = guard_plain(move || mod_n_add(&au, &bu));
                    t.emit(&sess(), "modn.op", json!({"prop": "C13", "f": "add", "cls": "limb-below", "a": bytes(&a), "b": bytes(&b), "out": bytes(&o.ok().map(|x| ub(x)).unwrap_or(vec![0u8; 32])), "outcome": o.name(), "detail": o.detail()}));
                }
            }
        }
    }
    // raw sums / differences with PATTERNED limbs (each 64-bit limb of a - b mod 2^256, resp. a + b mod 2^256, taken from 0, 1, 2^32-1, 2^32, 2^64-1):
    // carry / borrow chains, conditional corrections by 2^256 - m
    for (mhex, is_p) in [(P9_HEX, true), (N9_HEX, false)] {
        for (a, b, f) in crate::suites::sm2::limb_pattern_pairs(&mut rng, mhex, if thorough { 1 } else { 2 }) {
            if is_p { tower(t, sess(), 1, f, &a, &b, "limb-pattern"); }
            else {
                let (au, bu) = (u(&a), u(&b));
                let o = guard_plain(move || if f == "add" { mod_n_add(&au, &bu) } else { mod_n_sub(&au, &bu) });
                t.emit(&sess(), "modn.op", json!({"prop": "C13", "f": f, "cls": "limb-pattern", "a": bytes(&a), "b": bytes(&b), "out": bytes(&o.ok().map(|x| ub(x)).unwrap_or(vec![0u8; 32])), "outcome": o.name(), "detail": o.detail()}));
            }
        }
    }
    // arithmetic modulo the group order N
    let npool = field_values(&mut rng, N9_HEX, if thorough { 12 } else { 4 });
    for (i, (a, ca)) in npool.iter().enumerate() {
        for (j, (b, _)) in npool.iter().enumerate() {
            if !thorough && (i + j) % 2 == 1 { continue; }
            for f in ["add", "sub", "mul"] {
                let (au, bu) = (u(a), u(b));
                let o = guard_plain(move || match f { "add" => mod_n_add(&au, &bu), "sub" => mod_n_sub(&au, &bu), _ => mod_n_mul(&au, &bu) });
                t.emit(&sess(), "modn.op", json!({"prop": "C13", "f": f, "cls": ca, "a": bytes(a), "b": bytes(b), "out": bytes(&o.ok().map(|x| ub(x)).unwrap_or(vec![0u8; 32])), "outcome": o.name(), "detail": o.detail()}));
            }
        }
        let au = u(a);
        let o = guard_plain(move || mod_n_inv(&au));
        t.emit(&sess(), "modn.op", json!({"prop": "C13", "f": "inv", "cls": ca, "a": bytes(a), "b": bytes(&[0u8; 32]), "out": bytes(&o.ok().map(|x| ub(x)).unwrap_or(vec![0u8; 32])), "outcome": o.name(), "detail": o.detail()}));
    }
    // G1 / G2 operations: equal / opposite / infinity / generic operands, affine and Jacobian (non-affine RIGHT operands included)
    let nhex = hexb(N9_HEX);
    let g1 = Point::g_mul(&[1, 0, 0, 0]);
    let g2 = TwistPoint::g_mul(&[1, 0, 0, 0]);
    let mut scalars: Vec<Vec<u8>> = vec![be_add_small(&vec![0u8; 32], 0), be_add_small(&vec![0u8; 32], 1), be_add_small(&vec![0u8; 32], 2), be_add_small(&nhex, -1), nhex.clone(), be_add_small(&nhex, 1), vec![0xffu8; 32]];
    for _ in 0..(if thorough { 10 } else { 2 }) { scalars.push(rng.bytes(32)); }
    for w in 0..4 { scalars.push(sparse_scalar(&mut rng, w)); }
    for k in crate::suites::sm2::limb_pattern_scalars().into_iter().take(if thorough { 12 } else { 4 }) { scalars.push(k); }
    let g1op = |t: &mut Tracer, s: String, f: &'static str, p: &Point, q: &Point, k: &[u8], cls: &str| {
        let (p2, q2, ku) = (*p, *q, u(k));
        if f == "equals" {
            let o = guard_plain(move || p2.point_equals(&q2));
            t.emit(&s, "g1.op", json!({"prop": "C13", "f": f, "cls": cls, "p": g1_json(p), "q": g1_json(q), "k": bytes(k), "eq": if o.ok() == Some(&true) { 1 } else { 0 }, "out": g1_json(&Point::zero()), "outcome": o.name(), "detail": o.detail()}));
            return;
        }
        let o = guard_plain(move || match f { "add" => p2.point_add(&q2), "sub" => p2.point_sub(&q2), "dbl" => p2.point_double(), "neg" => p2.point_neg(), "mul" => p2.point_mul(&ku), "affine" => p2.to_affine_point(), _ => Point::g_mul(&ku) });
        t.emit(&s, "g1.op", json!({"prop": "C13", "f": f, "cls": cls, "p": g1_json(p), "q": g1_json(q), "k": bytes(k), "eq": 0, "out": g1_json(o.ok().unwrap_or(&Point::zero())), "outcome": o.name(), "detail": o.detail()}));
    };
    let g2op = |t: &mut Tracer, s: String, f: &'static str, p: &TwistPoint, q: &TwistPoint, k: &[u8], cls: &str| {
        let (p2, q2, ku) = (*p, *q, u(k));
        if f == "equals" {
            let o = guard_plain(move || p2.point_equals(&q2));
            t.emit(&s, "g2.op", json!({"prop": "C13", "f": f, "cls": cls, "p": g2_json(p), "q": g2_json(q), "k": bytes(k), "eq": if o.ok() == Some(&true) { 1 } else { 0 }, "out": g2_json(&TwistPoint::zero()), "outcome": o.name(), "detail": o.detail()}));
            return;
        }
        let o = guard_plain(move || match f { "add" => p2.point_add(&q2), "add_full" => verif::twist_add_full(&p2, &q2), "sub" => p2.point_sub(&q2), "dbl" => p2.point_double(), "neg" => p2.point_neg(),
                                              "mul" => p2.point_mul(&ku), _ => TwistPoint::g_mul(&ku) });
        t.emit(&s, "g2.op", json!({"prop": "C13", "f": f, "cls": cls, "p": g2_json(p), "q": g2_json(q), "k": bytes(k), "eq": 0, "out": g2_json(o.ok().unwrap_or(&TwistPoint::zero())), "outcome": o.name(), "detail": o.detail()}));
    };
    let zero32 = vec![0u8; 32];
    let npts = if thorough { 5 } else { 2 };
    for i in 0..npts {
        let k = scalar(&mut rng);
        // Jacobian (Z != 1) and affine forms of the same points
        let pj = Point::g_mul(&u(&k));                       // Jacobian in general
        let pa = pj.to_affine_point();
        let pj2 = pa.point_double().point_add(&pa).point_sub(&pa).point_sub(&pa);   // another representation of the same point
        let qj = Point::g_mul(&u(&scalar(&mut rng)));
        let inf = Point::zero();
        let pairs: Vec<(Point, Point, &str)> = vec![(pa, pa, "affine-affine"), (pj, pa, "jac-affine"), (pa, pj, "affine-jac"), (pj, pj2, "jac-jac"), (pj, pj.point_neg(), "jac-jac"), (pa, pj2.point_neg(), "affine-jac"),
            (inf, pj, "jac-jac"), (pj, inf, "jac-jac"), (inf, inf, "jac-jac"), (pj, qj, "jac-jac"), (pa, qj, "affine-jac"), (qj, pa, "jac-affine")];
        for (a, b, cls) in &pairs {
            for f in ["add", "sub", "equals"] { g1op(t, sess(), f, a, b, &zero32, cls); }
        }
        for a in [pa, pj, inf] { g1op(t, sess(), "dbl", &a, &a, &zero32, "unary"); g1op(t, sess(), "neg", &a, &a, &zero32, "unary"); }
        // DIFFERENT points with the same y: (x, y) and (omega x, y), omega a primitive cube root of unity mod p (y^2 = x^3 + 5 has this automorphism):
        // an equality test that looks at y only, or an addition that keys on equal y, takes them for the same point
        {
            let omega = verif::fp_op("mul", &hexb("0000000000000000f300000002a3a6f2780272354f8b78f4d5fc11967be65333"), &be_add_small(&vec![0u8; 32], 1));
            let (xb, yb) = (verif::fp_op("mul", &ub(&gm_sm9::fields::fp::mont_mul(&pa.x, &[1, 0, 0, 0])), &be_add_small(&vec![0u8; 32], 1)), ub(&gm_sm9::fields::fp::mont_mul(&pa.y, &[1, 0, 0, 0])));
            let wx = verif::fp_op("mul", &xb, &omega);
            let phi = verif::point_from_bytes(&[vec![4u8], wx, yb].concat());
            for (a, b, cls) in [(pa, phi, "same-y-affine"), (pj, phi, "same-y-jac"), (phi, pj2, "same-y-jac")] {
                for f in ["equals", "add", "sub"] { g1op(t, sess(), f, &a, &b, &zero32, cls); }
            }
        }
        // the identity in OTHER representations than Point::zero() = (1, 1, 0): P - P, -O, [N]P, (t^2, t^3, 0) -- as operands of every operation,
        // and compared with each other (each of them denotes the same point)
        if i == 0 {
            use gm_sm9::fields::fp::mont_mul;
            let t3 = gm_sm9::fields::fp::fp_to_mont(&[3, 0, 0, 0]);
            let infs: Vec<Point> = vec![pj.point_sub(&pj), Point::zero().point_neg(), pa.point_mul(&u(&nhex)), Point { x: mont_mul(&t3, &t3), y: mont_mul(&mont_mul(&t3, &t3), &t3), z: [0, 0, 0, 0] }];
            for (k, o) in infs.iter().enumerate() {
                let o2 = infs[(k + 1) % infs.len()];
                for (a, b) in [(*o, pj), (pa, *o), (*o, o2), (*o, inf), (inf, *o)] {
                    for f in ["add", "sub", "equals"] { g1op(t, sess(), f, &a, &b, &zero32, "otherO"); }
                }
                g1op(t, sess(), "dbl", o, o, &zero32, "unary-otherO"); g1op(t, sess(), "neg", o, o, &zero32, "unary-otherO");
                g1op(t, sess(), "mul", o, o, &scalars[1 % scalars.len()], "scalar-otherO");
            }
        }
        for (j, s) in scalars.iter().enumerate() {
            if thorough || (i + j) % 2 == 0 { g1op(t, sess(), "mul", if j % 2 == 0 { &pa } else { &pj }, &pa, s, "scalar"); }
            if i == 0 { g1op(t, sess(), "gmul", &g1, &g1, s, "scalar"); }
        }
        // representations with SPECIAL stored Z limbs (the plain integer 1 instead of the Montgomery one, 2, single-limb values): any
        // shortcut keyed on the representation of Z must not misfire
        if i == 0 {
            use gm_sm9::fields::fp::mont_mul;
            for zl in [[1u64, 0, 0, 0], [2, 0, 0, 0], [0, 1, 0, 0], [0, 0, 0, 1], [u64::MAX, 0, 0, 0]] {
                let (l2, l3) = (mont_mul(&zl, &zl), mont_mul(&mont_mul(&zl, &zl), &zl));
                let ps = Point { x: mont_mul(&pa.x, &l2), y: mont_mul(&pa.y, &l3), z: mont_mul(&pa.z, &zl) };
                for (a, b, cls) in [(ps, pa, "specialz-affine"), (pa, ps, "affine-specialz"), (ps, pj, "specialz-jac"), (ps, ps.point_neg(), "specialz-specialz"), (ps, qj, "specialz-jac")] {
                    for f in ["add", "sub", "equals"] { g1op(t, sess(), f, &a, &b, &zero32, cls); }
                }
                g1op(t, sess(), "dbl", &ps, &ps, &zero32, "unary-specialz"); g1op(t, sess(), "neg", &ps, &ps, &zero32, "unary-specialz");
                g1op(t, sess(), "affine", &ps, &ps, &zero32, "unary-specialz");
                g1op(t, sess(), "mul", &ps, &ps, &scalars[1 % scalars.len()], "scalar-specialz");
            }
        }
        // G2
        let tj = TwistPoint::g_mul(&u(&k));
        let tj2 = tj.point_double().point_add(&tj).point_sub(&tj).point_sub(&tj);
        let uj = TwistPoint::g_mul(&u(&scalar(&mut rng)));
        let tinf = TwistPoint::zero();
        let tpairs: Vec<(TwistPoint, TwistPoint, &str)> = vec![(g2, g2, "affine-affine"), (tj, tj, "jac-jac"), (tj, tj2, "jac-jac"), (tj2, tj, "jac-jac"), (tj, tj.point_neg(), "jac-jac"), (tj, tj2.point_neg(), "jac-jac"),
            (tinf, tj, "jac-jac"), (tj, tinf, "jac-jac"), (tj, uj, "jac-jac"), (tj, g2, "jac-affine"), (g2, tj, "affine-jac"), (uj, tj2, "jac-jac")];
        for (a, b, cls) in &tpairs {
            for f in ["add", "add_full", "sub", "equals"] { g2op(t, sess(), f, a, b, &zero32, cls); }
        }
        // DIFFERENT G2 points with the same y: (x, y) and (omega x, y) (the twist y^2 = x^3 + 5u has the same automorphism), in affine and
        // Jacobian forms; and representations of one point with special Z (-1, 2, u, ...)
        {
            let omega = [vec![0u8; 32], hexb("0000000000000000f300000002a3a6f2780272354f8b78f4d5fc11967be65333")].concat();
            let ta = g2_affine(&tj);
            let phi = TwistPoint { x: verif::fp2_from_bytes(&verif::fp2_op("mul", &verif::fp2_bytes(&ta.x), &omega)), y: ta.y, z: ta.z };
            let phij = g2_rerand(&phi, &[vec![0u8; 32], scalar(&mut rng)].concat());
            for (a, b, cls) in [(ta, phi, "same-y-affine"), (tj, phi, "same-y-jac"), (phi, tj2, "same-y-jac"), (tj, phij, "same-y-jac"), (phij, ta, "same-y-jac")] {
                for f in ["add", "add_full", "sub", "equals"] { g2op(t, sess(), f, &a, &b, &zero32, cls); }
            }
            if i == 0 {
                for (l, zc) in special_fp2(&mut rng) {
                    let ts = g2_rerand(&ta, &l);
                    let cls = format!("special{}", zc);
                    for (a, b) in [(ts, ta), (ta, ts), (ts, uj), (uj, ts), (ts, ts.point_neg())] {
                        for f in ["add", "add_full", "sub", "equals"] { g2op(t, sess(), f, &a, &b, &zero32, &cls); }
                    }
                    g2op(t, sess(), "dbl", &ts, &ts, &zero32, &cls); g2op(t, sess(), "mul", &ts, &ts, &scalars[1 % scalars.len()], &cls);
                }
            }
        }
        if i == 0 {
            let l = [vec![0u8; 32], be_add_small(&vec![0u8; 32], 3)].concat();
            let mut tz = g2_rerand(&g2, &l); tz.z = TwistPoint::zero().z;                  // (9 x, 27 y, 0)
            let tz2 = TwistPoint { x: verif::fp2_from_bytes(&verif::fp2_op("mul", &l, &l)), y: verif::fp2_from_bytes(&verif::fp2_op("mul", &verif::fp2_op("mul", &l, &l), &l)), z: TwistPoint::zero().z };   // (t^2, t^3, 0)
            let infs: Vec<TwistPoint> = vec![tj.point_sub(&tj), TwistPoint::zero().point_neg(), g2.point_mul(&u(&nhex)), tz2];
            let _ = tz;
            for (k, o) in infs.iter().enumerate() {
                let o2 = infs[(k + 1) % infs.len()];
                for (a, b) in [(*o, tj), (g2, *o), (*o, o2), (*o, tinf), (tinf, *o)] {
                    for f in ["add", "add_full", "sub", "equals"] { g2op(t, sess(), f, &a, &b, &zero32, "otherO"); }
                }
                g2op(t, sess(), "dbl", o, o, &zero32, "unary-otherO"); g2op(t, sess(), "neg", o, o, &zero32, "unary-otherO");
                g2op(t, sess(), "mul", o, o, &scalars[1 % scalars.len()], "scalar-otherO");
            }
        }
        for a in [g2, tj, tinf] { g2op(t, sess(), "dbl", &a, &a, &zero32, "unary"); g2op(t, sess(), "neg", &a, &a, &zero32, "unary"); }
        for (j, s) in scalars.iter().enumerate() {
            if thorough || (i + j) % 3 == 0 { g2op(t, sess(), "mul", if j % 2 == 0 { &g2 } else { &tj }, &g2, s, "scalar"); }
            if i == 0 && (thorough || j % 2 == 0) { g2op(t, sess(), "gmul", &g2, &g2, s, "scalar"); }
        }
    }
    // Booth recodings (windows 5 and 7): all digits of special and random scalars; every window position receives every digit class over the set
    let mut ks: Vec<Vec<u8>> = vec![vec![0u8; 32], vec![0xffu8; 32], be_add_small(&vec![0u8; 32], 1), nhex.clone(), { let mut x = vec![0u8; 32]; x[0] = 0x80; x }, vec![0x55u8; 32], vec![0xaau8; 32],
        { let mut x = vec![0u8; 32]; x[23] = 1; x }, { let mut x = vec![0xffu8; 32]; x[24] = 0x7f; x }];
    for _ in 0..(if thorough { 200 } else { 30 }) { ks.push(rng.bytes(32)); }
    for k in crate::suites::sm2::limb_pattern_scalars() { ks.push(k); }
    for k in &ks {
        for w in [5u64, 7] {
            let nwin = (256 + w - 1) / w;
            let ku = u(k);
            let o = guard_plain(move || (0..nwin).map(|i| sm9_u256_get_booth(&ku, w, i)).collect::<Vec<i32>>());
            let digits: Vec<Value> = o.ok().map(|d| d.iter().map(|x| json!([if *x < 0 { 1 } else { 0 }, x.unsigned_abs()])).collect()).unwrap_or_default();
            t.emit(&sess(), "booth", json!({"prop": "C13", "k": bytes(k), "w": w, "cls": "recode", "digits": digits, "outcome": o.name(), "detail": o.detail()}));
        }
    }
    // fixed-base table: all 37 x 64 entries in one session (exhaustive in both tiers)
    let (rows, cols) = verif::table_dims();
    let ts = "sm9ar/table".to_string();
    for row in 0..rows {
        for j in 1..=(cols / 2) {
            t.emit(&ts, "g1.table", json!({"prop": "C13", "row": row, "j": j, "x": bytes(&ub(&verif::table_entry(row, 2 * j - 2))), "y": bytes(&ub(&verif::table_entry(row, 2 * j - 1)))}));
        }
    }
}

// ------------------------------------------------------------------------------------------------ C14 (SM9 part)
pub fn rng_ops_sm9(t: &mut Tracer, sess: &str, proc_id: u32, count: usize, inject: bool, rng: &mut Rng, real: &mut u64) {
    let sc = sign_ctx(&scalar(rng));
    let ec = enc_ctx(&scalar(rng));
    let skey = sc.msk.extract_key(b"signer").unwrap();
    let xkey = ec.msk.extract_exch_key(b"bob").unwrap();
    let ra = Point::g_mul(&[9, 0, 0, 0]);
    for i in 0..count {
        let script = if inject { crate::suites::sm2::injection_script(N9_HEX, P9_HEX, rng, i) } else { vec![] };
        let kind = ["keygen-sign", "keygen-enc", "keygen-enc2", "sign", "encrypt", "kx1a", "kx1b", "keygen-sign2"][i % 8];
        // what the operation made of its scalar (checked by the specification on a sample of the operations: [k]P in TLA+ is expensive)
        let (o, _, log): (Outcome<Value>, _, _) = match kind {
            "keygen-sign" => hooked(script, || { let k = gm_sm9::key::generate_sign_master_key(); Ok(json!({"chk": "g2pub", "q": g2_json(&k.ppubs)})) }),
            "keygen-sign2" => hooked(script, || { let k = Sm9SignMasterKey::master_key_generate(); Ok(json!({"chk": "g2pub", "q": g2_json(&k.ppubs)})) }),
            "keygen-enc" => hooked(script, || { let k = gm_sm9::key::generate_enc_master_key(); Ok(json!({"chk": "g1pub", "pt": bytes(&k.ppube.to_bytes_be())})) }),
            "keygen-enc2" => hooked(script, || { let k = Sm9EncMasterKey::master_key_generate(); Ok(json!({"chk": "g1pub", "pt": bytes(&k.ppube.to_bytes_be())})) }),
            "sign" => { let (m, ks) = (rng.bytes(10), sc.ks.clone()); hooked(script, move || skey.sign(&m).map(|(h, s)| json!({"chk": "s9sig", "ks": bytes(&ks), "idb": bytes(b"signer"), "h": bytes(&ub(&h)), "pt": bytes(&s.to_bytes_be())})).map_err(|e| format!("{:?}", e))) }
            "encrypt" => { let (msk, m, ke) = (ec.msk, rng.bytes(8), ec.ke.clone()); hooked(script, move || { let c = msk.encrypt(b"bob", &m); Ok(json!({"chk": "c1", "ke": bytes(&ke), "idb": bytes(b"bob"), "hid": 3, "pt": bytes(&c[..65])})) }) }
            "kx1a" => { let (msk, ke) = (ec.msk, ec.ke.clone()); hooked(script, move || { let (p, _) = exch_step_1a(&msk, b"bob"); Ok(json!({"chk": "c1", "ke": bytes(&ke), "idb": bytes(b"bob"), "hid": 2, "pt": bytes(&p.to_bytes_be())})) }) }
            _ => { let (msk, ke) = (ec.msk, ec.ke.clone()); hooked(script, move || exch_step_1b(&msk, b"alice", b"bob", &xkey, &ra, 16).map(|(p, _)| json!({"chk": "c1", "ke": bytes(&ke), "idb": bytes(b"alice"), "hid": 2, "pt": bytes(&p.to_bytes_be())})).map_err(|e| format!("{:?}", e))) }
        };
        let draws: Vec<Value> = log.iter().map(|e| json!({"c": bytes(&e.candidate), "a": if e.accepted { 1 } else { 0 }})).collect();
        if !inject && o.name() == "ok" { *real += 1; }
        let mut f = json!({"prop": "C14", "lib": "sm9", "kind": kind, "proc": proc_id, "scripted": if inject { 1 } else { 0 }, "chk": "none", "draws": draws, "outcome": o.name()});
        if let (Some(v), true) = (o.ok(), (i < 70 && i % 35 < 14) || inject) { for (k, x) in v.as_object().unwrap() { f[k] = x.clone(); } }
        t.emit(sess, "rng.op", f);
    }
    // an encryption whose FIRST scalar gives an all-zero K1 (ke / ID of the Annex, M = 5A, r1 = Annex r + 50): step A6 goes back to A2 -- the
    // scalar that is finally used must be a NEW draw from the generator (two accepted draws), not something derived from the discarded one
    if !inject && proc_id == 1 {
        let c = enc_ctx(&hexb("0001edee3778f441f8dea3d9fa0acc4e07ee36c93f9a08618af4ad85cede1c22"));
        let r1 = b32(&hexb("0000aac0541779c8fc45e3e2cb25c12b5d2576b2129ae8bb5ee2cbe5ec9e788e"));
        let (msk, ke) = (c.msk, c.ke.clone());
        // only the first candidate is scripted; the second draw comes from the real generator
        let (o, _, log) = hooked(vec![r1], move || { let ct = msk.encrypt(b"Bob", &[0x5a]); Ok(json!({"chk": "c1", "ke": bytes(&ke), "idb": bytes(b"Bob"), "hid": 3, "pt": bytes(&ct[..65])})) });
        let draws: Vec<Value> = log.iter().map(|e| json!({"c": bytes(&e.candidate), "a": if e.accepted { 1 } else { 0 }})).collect();
        let mut f = json!({"prop": "C14", "lib": "sm9", "kind": "encrypt", "proc": proc_id, "scripted": 1, "retry": 1, "chk": "none", "draws": draws, "outcome": o.name()});
        if let Some(v) = o.ok() { for (k, x) in v.as_object().unwrap() { f[k] = x.clone(); } }
        t.emit(sess, "rng.op", f);
    }
}
