//! C02 (block cipher, histories) and C07 (modes) drivers.
use crate::gen::{raw_json, Gen, Rng};
use crate::trace::{bytes, guard, words16, Tracer};
use gm_sm4::{CipherMode, Sm4Cipher, Sm4CipherMode};
use serde_json::{json, Value};

/// the round keys as the object's `Debug` rendering shows them ("Sm4Cipher { rk: [1, 2, ...] }"): gm-sm4 has no hook, and a cipher object whose
/// rendering is something else (a refactored struct) is simply logged WITHOUT round keys -- the block events still bind it to the specification
fn parse_rk(dbg: &str) -> Option<Vec<u32>> {
    let a = dbg.find("rk: [")? + 4;
    let b = a + dbg[a..].find(']')?;
    let v: Option<Vec<u32>> = dbg[a + 1..b].split(',').map(|s| s.trim().parse::<u32>().ok()).collect();
    v.filter(|v| v.len() == 32)
}

fn new_cipher(t: &mut Tracer, sess: &str, key: &[u8]) -> Option<Sm4Cipher> {
    let pk = crate::gen::realign(key);
    let out = guard(|| Sm4Cipher::new(pk.get()));
    let rk = match out.ok().and_then(|c| parse_rk(&format!("{:?}", c))) { Some(v) => words16(&v), None => json!([]) };
    t.emit(sess, "sm4.new", json!({"prop": "C02", "key": bytes(key), "rk": rk, "outcome": out.name(), "detail": out.detail()}));
    match out { crate::trace::Outcome::Ok(c) => Some(c), _ => None }
}

fn block_op(t: &mut Tracer, sess: &str, c: &Sm4Cipher, enc: bool, kind: &str, block: &[u8]) -> Vec<u8> {
    let pb = crate::gen::realign(block);
    let out = guard(|| if enc { c.encrypt(pb.get()) } else { c.decrypt(pb.get()) });
    let o = out.ok().cloned().unwrap_or_default();
    t.emit(sess, if enc { "sm4.enc" } else { "sm4.dec" },
        json!({"prop": "C02", "kind": kind, "block": bytes(block), "out": bytes(&o), "outcome": out.name(), "detail": out.detail()}));
    o
}

pub fn drive_block(t: &mut Tracer, tier: &str, seed: u64, plan: Option<String>) {
    let thorough = tier == "thorough";
    let mut rng = Rng(seed ^ 0x5114);
    // (a) planned call sequences (E2: every sequence up to the plan's bound) on objects with random keys
    if let Some(p) = plan {
        let text = std::fs::read_to_string(p).expect("plan");
        // crafted blocks: the specification ran a chosen mid-cipher state backwards so that the round transform of ONE round receives a special word
        let arrb = |v: &Value| -> Vec<u8> { v.as_array().unwrap().iter().map(|x| x.as_u64().unwrap() as u8).collect() };
        let mut groups: Vec<(Vec<u8>, Vec<(bool, Vec<u8>)>)> = vec![];       // one session (one cipher object) per key, its blocks in plan order
        for line in text.lines() {
            let v: Value = serde_json::from_str(line).unwrap();
            if v["kind"] != "craft" { continue; }
            let key = arrb(&v["key"]);
            if !groups.iter().any(|(k, _)| *k == key) { groups.push((key.clone(), vec![])); }
            groups.iter_mut().find(|(k, _)| *k == key).unwrap().1.push((v["dir"] == "enc", arrb(&v["block"])));
        }
        for (key, blocks) in &groups {
            let sess = format!("sm4/craft{}", hex::encode(key));
            if let Some(c) = new_cipher(t, &sess, key) { for (enc, b) in blocks { block_op(t, &sess, &c, *enc, "crafted", b); } }
        }
        // CLONES of a cipher object (and a clone of the clone), used alongside the original, in both directions
        for kq in 0..3 {
            let key = rng.bytes(16);
            let sess = format!("sm4/clone{}", kq);
            if let Some(c) = new_cipher(t, &sess, &key) {
                let c2 = c.clone();
                let c3 = c2.clone();
                let b = rng.bytes(16);
                let e1 = block_op(t, &sess, &c2, true, "cloned", &b);
                block_op(t, &sess, &c, false, "cloned", &e1);
                block_op(t, &sess, &c2, false, "cloned", &e1);
                block_op(t, &sess, &c3, false, "cloned", &e1);
                block_op(t, &sess, &c3, true, "cloned", &b);
                block_op(t, &sess, &c, true, "cloned", &b);
            }
        }
        // crafted keys: the key-schedule transform of one round receives 00000000 / FFFFFFFF
        for (n, line) in text.lines().enumerate() {
            let v: Value = serde_json::from_str(line).unwrap();
            if v["kind"] != "craftkey" { continue; }
            let sess = format!("sm4/craftkey{}", n);
            if let Some(c) = new_cipher(t, &sess, &arrb(&v["key"])) {
                let b = rng.bytes(16);
                let o = block_op(t, &sess, &c, true, "craftedkey", &b);
                if o.len() == 16 { block_op(t, &sess, &c, false, "craftedkey", &o); }
            }
        }
        for (n, line) in text.lines().enumerate() {
            let v: Value = serde_json::from_str(line).unwrap();
            if v["kind"] == "craft" || v["kind"] == "craftkey" { continue; }
            let key = rng.bytes(16);
            let sess = format!("sm4/seq{}", n);
            let c = match new_cipher(t, &sess, &key) { Some(c) => c, None => continue };
            let mut prev_in: Vec<u8> = vec![];
            let mut prev_out: Vec<u8> = vec![];
            for call in v["seq"].as_array().unwrap() {
                let op = call[0].as_str().unwrap();
                let src = call[1].as_str().unwrap();
                if src == "badlen" {
                    // a call the object must refuse (15, 17 or 0 bytes); whatever it answers, the NEXT calls on the same object are judged as usual
                    let bl = [15usize, 17, 0, 1, 31][rng.below(5) as usize]; let bad = rng.bytes(bl);
                    let _ = block_op(t, &sess, &c, op == "enc", "badlen", &bad);
                    continue;
                }
                let block = match src { "fresh" => rng.bytes(16), "prev" => prev_out.clone(), _ => prev_in.clone() };
                if block.len() != 16 { continue; }
                prev_out = block_op(t, &sess, &c, op == "enc", src, &block);
                prev_in = block;
            }
        }
    }
    // OpenSSL-made ECB corpus
    let corpus = concat!(env!("CARGO_MANIFEST_DIR"), "/../corpus/sm4_openssl.ndjson");
    if let Ok(text) = std::fs::read_to_string(corpus) {
        let arr = |v: &Value| -> Vec<u8> { v.as_array().unwrap().iter().map(|x| x.as_u64().unwrap() as u8).collect() };
        for (n, line) in text.lines().enumerate() {
            let v: Value = serde_json::from_str(line).unwrap();
            if v["mode"].as_str().unwrap() != "ecb" { continue; }
            let sess = format!("sm4/corpus{}", n);
            if let Some(c) = new_cipher(t, &sess, &arr(&v["key"])) {
                block_op(t, &sess, &c, true, "fresh", &arr(&v["pt"]));
                block_op(t, &sess, &c, false, "fresh", &arr(&v["ct"]));
            }
        }
    }
    // (b) structured keys x structured blocks, both directions
    let mut keys: Vec<Vec<u8>> = vec![vec![0; 16], vec![0xff; 16], (0..16).collect(), vec![0x01, 0x23, 0x45, 0x67, 0x89, 0xab, 0xcd, 0xef, 0xfe, 0xdc, 0xba, 0x98, 0x76, 0x54, 0x32, 0x10]];
    let step = if thorough { 1 } else { 5 };
    for bit in (0..128).step_by(step) {
        let mut k = vec![0u8; 16];
        k[bit / 8] = 0x80 >> (bit % 8);
        keys.push(k);
    }
    for _ in 0..(if thorough { 200 } else { 20 }) { keys.push(rng.bytes(16)); }
    for (n, key) in keys.iter().enumerate() {
        let sess = format!("sm4/key{}", n);
        let c = match new_cipher(t, &sess, key) { Some(c) => c, None => continue };
        let mut blocks: Vec<Vec<u8>> = vec![vec![0; 16], vec![0xff; 16], key.clone()];
        let bit = (n * 7) % 128;
        let mut b = vec![0u8; 16];
        b[bit / 8] = 0x80 >> (bit % 8);
        blocks.push(b);
        blocks.push(rng.bytes(16));
        if thorough { for _ in 0..6 { blocks.push(rng.bytes(16)); } }
        for b in &blocks {
            let ct = block_op(t, &sess, &c, true, "fresh", b);
            if ct.len() == 16 { block_op(t, &sess, &c, false, "prev", &ct); }
            let pt = block_op(t, &sess, &c, false, "fresh", b);
            if pt.len() == 16 { block_op(t, &sess, &c, true, "prev", &pt); }
        }
    }
}

fn mode_of(m: &str) -> CipherMode {
    match m { "cbc" => CipherMode::Cbc, "cfb" => CipherMode::Cfb, "ofb" => CipherMode::Ofb, _ => CipherMode::Ctr }
}

// One mode object per (key, mode) for the whole run: a program keeps such an object and calls it many times -- with different IVs, lengths and
// directions, and with calls that fail in between.  The specification is stateless per call, so any state the object carries shows as a deviation.
thread_local! { static MODE_OBJS: std::cell::RefCell<Vec<((Vec<u8>, String), Sm4CipherMode)>> = std::cell::RefCell::new(vec![]); }
fn mode_event(t: &mut Tracer, sess: &str, mode: &str, enc: bool, key: &[u8], iv: &[u8], g: Option<&Gen>, data: &[u8]) -> Option<Vec<u8>> {
    let (pdata, piv) = (crate::gen::realign(data), crate::gen::realign(iv));
    let (data, iv) = (pdata.get(), piv.get());
    let out = guard(|| {
        MODE_OBJS.with(|objs| {
            let mut objs = objs.borrow_mut();
            let k = (key.to_vec(), mode.to_string());
            if !objs.iter().any(|(kk, _)| *kk == k) {
                let c = Sm4CipherMode::new(key, mode_of(mode))?;
                if objs.len() >= 64 { objs.remove(0); }
                objs.push((k.clone(), c));
            }
            let c = &objs.iter().find(|(kk, _)| *kk == k).unwrap().1;
            if enc { c.encrypt(data, iv) } else { c.decrypt(data, iv) }
        })
    });
    let o = out.ok().cloned();
    let mut f = json!({"prop": "C07", "mode": mode, "dir": if enc { "enc" } else { "dec" }, "key": bytes(key), "iv": bytes(iv),
        "len": data.len(), "lenient": 0, "out": bytes(o.as_deref().unwrap_or(&[])), "outcome": out.name(), "detail": out.detail()});
    match g { Some(g) => { f["gen"] = g.json(); } None => { f["gen"] = raw_json(); f["raw"] = bytes(data); } }
    t.emit(sess, "sm4.mode", f);
    o
}

pub fn drive_modes(t: &mut Tracer, tier: &str, seed: u64) {
    let thorough = tier == "thorough";
    let mut rng = Rng(seed ^ 0x5117);
    let modes = ["cbc", "cfb", "ofb", "ctr"];
    let key = rng.bytes(16);
    let mut n = 0u64;
    let mut sess = || { n += 1; format!("sm4m/{}", n) };
    // every length 0..=maxlen x 4 modes x both directions (decryption of the library's own ciphertext)
    let maxlen = if thorough { 200 } else { 70 };
    let g = Gen::new("mix", rng.below(1 << 20));
    let full = g.msg(maxlen);
    for mode in modes {
        for len in 0..=maxlen {
            let iv = rng.bytes(16);
            let s = sess();
            if let Some(ct) = mode_event(t, &s, mode, true, &key, &iv, Some(&g), &full[..len]) {
                mode_event(t, &s, mode, false, &key, &iv, None, &ct);
            }
        }
    }
    // CTR: IVs that force carries through 1..16 bytes and wrap-around; data long enough to cross the carry
    for k in 1..=16usize {
        let mut iv = rng.bytes(16);
        for i in 0..k { iv[15 - i] = 0xff; }
        if k < 16 { if iv[15 - k] == 0xff { iv[15 - k] = 0x7f; } }
        for back in [0u8, 1] {
            let mut iv2 = iv.clone();
            iv2[15] = iv2[15].wrapping_sub(back);   // carry happens at the first or the second increment
            let len = 40 + rng.below(30) as usize;
            let s = sess();
            if let Some(ct) = mode_event(t, &s, "ctr", true, &key, &iv2, Some(&g), &full[..len.min(maxlen)]) {
                mode_event(t, &s, "ctr", false, &key, &iv2, None, &ct);
            }
        }
    }
    // other keys, longer random data
    for _ in 0..(if thorough { 60 } else { 8 }) {
        let key = rng.bytes(16);
        let iv = rng.bytes(16);
        let len = rng.below(if thorough { 1200 } else { 400 }) as usize;
        let gg = Gen::new("mix", rng.below(1 << 20));
        let d = gg.msg(len);
        for mode in modes {
            let s = sess();
            if let Some(ct) = mode_event(t, &s, mode, true, &key, &iv, Some(&gg), &d) {
                mode_event(t, &s, mode, false, &key, &iv, None, &ct);
            }
        }
    }
    // CONTENT that repeats: the final block equal to an earlier one, all blocks equal, data equal to the IV or to the key, a tail equal to the head -- a mode
    // that recognises "the last block" or "the IV" by VALUE instead of by position goes wrong here (random data never repeats a block)
    {
        let (key, iv) = (rng.bytes(16), rng.bytes(16));
        let (ra, rb) = (rng.bytes(16), rng.bytes(16));
        let pats: Vec<Vec<u8>> = vec![vec![0u8; 64], vec![0u8; 32], [ra.clone(), rb.clone(), ra.clone()].concat(), [ra.clone(), ra.clone()].concat(), [ra.clone(), rb.clone(), rb.clone(), ra.clone(), rb.clone()].concat(),
            [iv.clone(), iv.clone()].concat(), [key.clone(), iv.clone(), key.clone()].concat(), [ra.clone(), rb.clone(), ra[..7].to_vec()].concat(), [ra.clone(), ra.clone(), ra[..15].to_vec()].concat(), vec![0x10u8; 48], vec![0x80u8; 33]];
        for (i, d) in pats.iter().enumerate() {
            for (j, mode) in modes.iter().enumerate() {
                if !thorough && (i + j) % 2 == 1 && *mode != "cfb" { continue; }
                let s = sess();
                if let Some(ct) = mode_event(t, &s, mode, true, &key, &iv, None, d) {
                    mode_event(t, &s, mode, false, &key, &iv, None, &ct);
                }
                // the same pattern as a CIPHERTEXT to decrypt (CBC: only when block-aligned; the padding verdict is the specification's)
                mode_event(t, &s, mode, false, &key, &iv, None, d);
            }
        }
    }
    // LARGE inputs (a mode that processes big buffers in chunks, halves or threads has its seam there): lengths around 2^16 and beyond, odd and
    // even, block-aligned and not, all four modes, both directions
    {
        let lens: Vec<usize> = if thorough { vec![65535, 65536, 65537, 65538, 65553, 100001, 131072, 131075] } else { vec![65538, 65553] };
        for (i, len) in lens.iter().enumerate() {
            let gg = Gen::new("mix", rng.below(1 << 20));
            let d = gg.msg(*len);
            for (j, mode) in modes.iter().enumerate() {
                if !thorough && (i + j) % 2 == 1 && *mode != "ctr" { continue; }
                let (key, iv, s) = (rng.bytes(16), rng.bytes(16), sess());
                if let Some(ct) = mode_event(t, &s, mode, true, &key, &iv, Some(&gg), &d) {
                    mode_event(t, &s, mode, false, &key, &iv, None, &ct);
                }
            }
        }
    }
    // OpenSSL-made corpus (CBC/CFB/OFB/CTR): both directions
    let corpus = concat!(env!("CARGO_MANIFEST_DIR"), "/../corpus/sm4_openssl.ndjson");
    if let Ok(text) = std::fs::read_to_string(corpus) {
        let arr = |v: &Value| -> Vec<u8> { v.as_array().unwrap().iter().map(|x| x.as_u64().unwrap() as u8).collect() };
        for line in text.lines() {
            let v: Value = serde_json::from_str(line).unwrap();
            let mode = v["mode"].as_str().unwrap().to_string();
            if mode == "ecb" { continue; }
            let m: &'static str = match mode.as_str() { "cbc" => "cbc", "cfb" => "cfb", "ofb" => "ofb", _ => "ctr" };
            mode_event(t, &sess(), m, true, &arr(&v["key"]), &arr(&v["iv"]), None, &arr(&v["pt"]));
            mode_event(t, &sess(), m, false, &arr(&v["key"]), &arr(&v["iv"]), None, &arr(&v["ct"]));
        }
    }
    // error cases: IV length != 16 (all modes, both directions)
    for mode in modes {
        for ivlen in [0usize, 1, 15, 17, 32] {
            let iv = rng.bytes(ivlen);
            let d = rng.bytes(32);
            mode_event(t, &sess(), mode, true, &key, &iv, None, &d);
            mode_event(t, &sess(), mode, false, &key, &iv, None, &d);
        }
    }
    // CBC decryption: lengths that are not a positive multiple of 16 (incl. empty), bad final byte, inconsistent padding
    let iv = rng.bytes(16);
    for len in [0usize, 1, 15, 17, 31, 33, 47] {
        let d = rng.bytes(len);
        mode_event(t, &sess(), "cbc", false, &key, &iv, None, &d);
    }
    // craft ciphertexts whose plaintext ends in a chosen byte: encrypt with a raw single-block cipher in CBC fashion
    if let Ok(c) = Sm4Cipher::new(&key) {
        for last in [0u8, 1, 2, 15, 16, 17, 32, 128, 255] {
            for nblocks in [1usize, 2, 3] {
                let mut p = rng.bytes(16 * nblocks);
                let l = p.len();
                p[l - 1] = last;
                let mut prev = iv.clone();
                let mut ct = vec![];
                for b in p.chunks(16) {
                    let x: Vec<u8> = b.iter().zip(prev.iter()).map(|(a, b)| a ^ b).collect();
                    let e = c.encrypt(&x).unwrap();
                    ct.extend_from_slice(&e);
                    prev = e;
                }
                mode_event(t, &sess(), "cbc", false, &key, &iv, None, &ct);
            }
        }
    }
    // random ciphertexts (mostly invalid padding)
    for _ in 0..(if thorough { 300 } else { 40 }) {
        let nb = 1 + rng.below(3) as usize;
        let d = rng.bytes(16 * nb);
        mode_event(t, &sess(), "cbc", false, &key, &iv, None, &d);
    }
}
