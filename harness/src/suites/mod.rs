pub mod sm3;
pub mod sm4;
