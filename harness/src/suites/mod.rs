pub mod api;
pub mod rng;
pub mod sm2;
pub mod sm3;
pub mod sm4;
pub mod sm9;
pub mod zuc;
