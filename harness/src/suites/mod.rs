pub mod sm2;
pub mod sm3;
pub mod sm4;
pub mod zuc;
