pub mod sm3;
