//! C20 driver: every entry point that consumes untrusted bytes, on every length 0..=200 with zero / 0xFF / random content,
//! truncations and single-byte corruptions of valid encodings, boundary keys -- each call under panic capture and a watchdog.
use crate::gen::Rng;
use crate::suites::sm2::{be_add_small, hexb, key_from, leak, N_HEX};
use crate::trace::{guard_timed, Outcome, Tracer};
use gm_sm2::key::{Sm2Model, Sm2PrivateKey, Sm2PublicKey};
use gm_sm4::{CipherMode, Sm4Cipher, Sm4CipherMode};
use pkcs8::{DecodePrivateKey, DecodePublicKey, EncodePrivateKey, EncodePublicKey, LineEnding};
use serde_json::json;

fn call<T: Send + 'static>(t: &mut Tracer, n: &mut u64, op: &str, fault: &str, len: usize, f: impl FnOnce() -> Result<T, String> + Send + 'static) {
    let o = guard_timed(20, f);
    *n += 1;
    t.emit(&format!("api/{}", n), op, json!({"prop": "C20", "fault": fault, "len": len, "outcome": o.name(), "detail": o.detail()}));
}
fn e<T, E: std::fmt::Debug>(r: Result<T, E>) -> Result<(), String> { r.map(|_| ()).map_err(|x| format!("{:?}", x)) }

fn contents(rng: &mut Rng, len: usize) -> Vec<(Vec<u8>, &'static str)> {
    vec![(vec![0u8; len], "zeros"), (vec![0xffu8; len], "ones"), (rng.bytes(len), "random")]
}

pub fn drive(t: &mut Tracer, tier: &str, seed: u64) {
    let thorough = tier == "thorough";
    let mut rng = Rng(seed ^ 0xa920);
    let mut n = 0u64;
    let key = key_from(&{ let mut d = rng.bytes(32); d[0] &= 0x7f; d }).unwrap();
    let pk = key.sk.public_key.clone();
    // every length 0..=200 (thorough: 0..=300); quick: 0..=70 and ladders around 100, 128, 200 and 256 (fixed-size scratch buffers)
    let lens: Vec<usize> = if thorough { (0..=300).collect() } else { let mut v: Vec<usize> = (0..=70).collect(); v.extend([96, 97, 98, 99, 100]); v.extend(118..=136); v.extend([200, 300]); v.extend(245..=262); v };
    // --- every length x content, per entry point ---
    for len in &lens {
        for (data, fault) in contents(&mut rng, *len) {
            let l = *len;
            { let (p, d) = (pk.clone(), data.clone()); call(t, &mut n, "sm2.verify", fault, l, move || e(p.verify(None, b"msg", &d))); }
            { let d = data.clone(); call(t, &mut n, "sm2.pk_new", fault, l, move || e(Sm2PublicKey::new(&d))); }
            { let d = data.clone(); call(t, &mut n, "sm2.sk_new", fault, l, move || e(Sm2PrivateKey::new(&d))); }
            { let (s, d) = (key.sk.clone(), data.clone()); call(t, &mut n, "sm2.decrypt.uncomp", fault, l, move || e(s.decrypt(&d, false, Sm2Model::C1C3C2))); }
            { let (s, d) = (key.sk.clone(), data.clone()); call(t, &mut n, "sm2.decrypt.uncomp", fault, l, move || e(s.decrypt(&d, false, Sm2Model::C1C2C3))); }
            { let (s, d) = (key.sk.clone(), data.clone()); call(t, &mut n, "sm2.decrypt.comp", fault, l, move || e(s.decrypt(&d, true, Sm2Model::C1C3C2))); }
            { let (s, d) = (key.sk.clone(), data.clone()); call(t, &mut n, "sm2.decrypt_asn1", fault, l, move || e(s.decrypt_asn1(&d, false, Sm2Model::C1C3C2))); }
            { let d = data.clone(); call(t, &mut n, "sm2.spki_der", fault, l, move || e(Sm2PublicKey::from_public_key_der(&d))); }
            { let d = data.clone(); call(t, &mut n, "sm2.pkcs8_der", fault, l, move || e(Sm2PrivateKey::from_pkcs8_der(&d))); }
            { let d = data.clone(); call(t, &mut n, "sm4.new", fault, l, move || e(Sm4Cipher::new(&d))); }
            { let d = data.clone(); call(t, &mut n, "sm4.enc_block", fault, l, move || e(Sm4Cipher::new(&[7u8; 16]).and_then(|c| c.encrypt(&d)))); }
            { let d = data.clone(); call(t, &mut n, "sm4.dec_block", fault, l, move || e(Sm4Cipher::new(&[7u8; 16]).and_then(|c| c.decrypt(&d)))); }
            { let d = data.clone(); call(t, &mut n, "sm4.cbc_dec", fault, l, move || e(Sm4CipherMode::new(&[7u8; 16], CipherMode::Cbc).and_then(|c| c.decrypt(&d, &[1u8; 16])))); }
            for (mi, m) in ["cfb", "ofb", "ctr"].iter().enumerate() {
                let d = data.clone();
                let mode = move || match mi { 0 => CipherMode::Cfb, 1 => CipherMode::Ofb, _ => CipherMode::Ctr };
                call(t, &mut n, &format!("sm4.{}_dec", m), fault, l, move || e(Sm4CipherMode::new(&[7u8; 16], mode()).and_then(|c| c.decrypt(&d, &[1u8; 16]))));
            }
            { let d = data.clone(); call(t, &mut n, "sm4.mode_iv", fault, l, move || e(Sm4CipherMode::new(&[7u8; 16], CipherMode::Cbc).and_then(|c| c.decrypt(&[9u8; 32], &d)))); }
            { let d = data.clone(); call(t, &mut n, "sm4.mode_iv", fault, l, move || e(Sm4CipherMode::new(&[7u8; 16], CipherMode::Ctr).and_then(|c| c.encrypt(&[9u8; 32], &d)))); }
            { let d = data.clone(); call(t, &mut n, "sm4.mode_key", fault, l, move || e(Sm4CipherMode::new(&d, CipherMode::Ofb).and_then(|c| c.encrypt(&[9u8; 5], &[1u8; 16])))); }
            { let d = data.clone(); call(t, &mut n, "sm9.decrypt", fault, l, move || -> Result<(), String> {
                let ke = gm_sm9::u256::u256_from_be_bytes(&[3u8; 32]);
                let msk = gm_sm9::key::Sm9EncMasterKey { ke, ppube: gm_sm9::points::Point::g_mul(&ke) };
                e(msk.extract_key(b"bob").ok_or("nokey".to_string())?.decrypt(b"bob", &d)) }); }
            { let d = data.clone(); call(t, &mut n, "sm9.from_hash", fault, l, move || { let _ = gm_sm9::fields::mod_n_from_hash(&d); Ok::<(), String>(()) }); }
            { let d = data.clone(); call(t, &mut n, "sm9.hash1", fault, l, move || { let _ = gm_sm9::key::verif_hash1(&d, 1); Ok::<(), String>(()) }); }
            { let d = data.clone(); call(t, &mut n, "sm2.kdf", fault, l, move || { let _ = gm_sm2::util::kdf(&d, l); Ok::<(), String>(()) }); }
            { let d = data.clone(); call(t, &mut n, "sm9.kdf", fault, l, move || { let _ = gm_sm9::key::verif_kdf(&d, l); Ok::<(), String>(()) }); }
            // text decoders: hex / PEM (only valid UTF-8 can be passed to a &str API)
            if let Ok(s) = String::from_utf8(data.iter().map(|b| b"0123456789abcdefXg-\n"[(*b as usize) % 20]).collect::<Vec<u8>>()) {
                { let s2 = s.clone(); call(t, &mut n, "sm2.pk_hex", fault, l, move || e(Sm2PublicKey::from_hex_string(&s2))); }
                { let s2 = s.clone(); call(t, &mut n, "sm2.sk_hex", fault, l, move || e(Sm2PrivateKey::from_hex_string(&s2))); }
                { let s2 = s.clone(); call(t, &mut n, "sm2.spki_pem", fault, l, move || e(Sm2PublicKey::from_public_key_pem(&s2))); }
                { let s2 = s.clone(); call(t, &mut n, "sm2.pkcs8_pem", fault, l, move || e(Sm2PrivateKey::from_pkcs8_pem(&s2))); }
            }
        }
    }
    // --- point decoders with a FORCED prefix byte (02 / 03 / 04 / 06 / 07 / 00) at every length: random content almost never gets past the prefix test
    for len in &lens {
        if *len == 0 { continue; }
        for pre in [0x02u8, 0x03, 0x04, 0x06, 0x07, 0x00] {
            let mut d = rng.bytes(*len); d[0] = pre; if *len > 1 { d[1] &= 0x7f; }
            let l = *len;
            { let d2 = d.clone(); call(t, &mut n, "sm2.pk_new", "prefixed", l, move || e(Sm2PublicKey::new(&d2))); }
            { let s2 = hex::encode(&d); call(t, &mut n, "sm2.pk_hex", "prefixed", l, move || e(Sm2PublicKey::from_hex_string(&s2))); }
            // as C1 of a ciphertext (compressed and uncompressed framing)
            { let (s, mut c) = (key.sk.clone(), d.clone()); c.extend(rng.bytes(40)); call(t, &mut n, "sm2.decrypt.comp", "prefixed", l + 40, move || e(s.decrypt(&c, true, Sm2Model::C1C3C2))); }
        }
    }
    // --- the same helpers again with DEcreasing lengths, and SM9 operations for identities of decreasing length: all calls share one worker
    //     thread, so state kept per thread (scratch buffers sized by an earlier, longer input) is carried into the shorter call ---
    for len in lens.iter().rev().step_by(if thorough { 1 } else { 3 }) {
        let l = *len;
        let data = rng.bytes(l);
        { let d = data.clone(); call(t, &mut n, "sm9.kdf", "descending", l, move || { let _ = gm_sm9::key::verif_kdf(&d, 40); Ok::<(), String>(()) }); }
        { let d = data.clone(); call(t, &mut n, "sm2.kdf", "descending", l, move || { let _ = gm_sm2::util::kdf(&d, 40); Ok::<(), String>(()) }); }
        { let d = data.clone(); call(t, &mut n, "sm9.hash1", "descending", l, move || { let _ = gm_sm9::key::verif_hash1(&d, 3); Ok::<(), String>(()) }); }
        { let (p, d) = (pk.clone(), data.clone()); call(t, &mut n, "sm2.verify_msg", "descending", l, move || { let _ = p.verify(None, &d, &[7u8; 64]); Ok::<(), String>(()) }); }
        { let d = data.clone(); call(t, &mut n, "sm4.cfb_dec", "descending", l, move || e(Sm4CipherMode::new(&[7u8; 16], CipherMode::Cfb).and_then(|c| c.decrypt(&d, &[1u8; 16])))); }
    }
    {
        let ke = gm_sm9::u256::u256_from_be_bytes(&[3u8; 32]);
        let msk = gm_sm9::key::Sm9EncMasterKey { ke, ppube: gm_sm9::points::Point::g_mul(&ke) };
        let ks = gm_sm9::u256::u256_from_be_bytes(&[5u8; 32]);
        let smk = gm_sm9::key::Sm9SignMasterKey { ks, ppubs: gm_sm9::points::TwistPoint::g_mul(&ks) };
        for idlen in [200usize, 64, 33, 8, 1, 100, 2] {
            let id = vec![b'a' + (idlen % 23) as u8; idlen];
            { let (m, i) = (msk, id.clone()); call(t, &mut n, "sm9.roundtrip_id", "descending", idlen, move || -> Result<(), String> {
                let c = m.encrypt(&i, b"identity length sequence"); let k = m.extract_key(&i).ok_or("nokey".to_string())?;
                let out = k.decrypt(&i, &c).map_err(|x| format!("{:?}", x))?; if out == b"identity length sequence" { Ok(()) } else { Err("mismatch".into()) } }); }
            { let (m, i) = (smk, id.clone()); call(t, &mut n, "sm9.signverify_id", "descending", idlen, move || -> Result<(), String> {
                let k = m.extract_key(&i).ok_or("nokey".to_string())?; let (h, s) = k.sign(b"msg").map_err(|x| format!("{:?}", x))?; e(m.verify_sign(&i, b"msg", &h, &s)) }); }
            { let (m, i) = (msk, id.clone()); call(t, &mut n, "sm9.exchange_id", "descending", idlen, move || -> Result<(), String> {
                let (ka, kb) = (m.extract_exch_key(b"alice").ok_or("nokey".to_string())?, m.extract_exch_key(&i).ok_or("nokey".to_string())?);
                let (ra, ra_) = gm_sm9::key::exch_step_1a(&m, &i);
                let (rb, skb) = gm_sm9::key::exch_step_1b(&m, b"alice", &i, &kb, &ra, 16).map_err(|x| format!("{:?}", x))?;
                let ska = gm_sm9::key::exch_step_2a(&m, b"alice", &i, &ka, ra_, &ra, &rb, 16).map_err(|x| format!("{:?}", x))?;
                if ska == skb { Ok(()) } else { Err("keys differ".into()) } }); }
        }
    }
    // --- LONG inputs: the hash-to-range and KDF helpers at every length up to 1100 (thorough: 2200) -- assembled-input scratch buffers of
    //     512 / 1024 / 2048 bytes have their edge wherever prefix + data + w + counter happens to end --, and the message-consuming
    //     signature operations at the ladders around those edges (SM9: 1 + |M| + 384 + 4 bytes are hashed; SM2: 32 + |M|) ---
    {
        let top = if thorough { 2200usize } else { 1100 };
        let w384 = rng.bytes(384);
        for l in 201..=top {
            let data = rng.bytes(l);
            { let (d, w) = (data.clone(), w384.clone()); call(t, &mut n, "sm9.hash2", "long", l, move || { let _ = gm_sm9::key::verif_hash2(&d, &w); Ok::<(), String>(()) }); }
            if thorough || l % 2 == 1 { let d = data.clone(); call(t, &mut n, "sm9.hash1", "long", l, move || { let _ = gm_sm9::key::verif_hash1(&d, 2); Ok::<(), String>(()) }); }
            if thorough || l % 2 == 0 { let d = data.clone(); call(t, &mut n, "sm9.kdf", "long", l, move || { let _ = gm_sm9::key::verif_kdf(&d, 48); Ok::<(), String>(()) }); }
            if thorough || l % 3 == 0 { let d = data.clone(); call(t, &mut n, "sm2.kdf", "long", l, move || { let _ = gm_sm2::util::kdf(&d, 48); Ok::<(), String>(()) }); }
            if thorough || l % 3 == 1 { let d = data.clone(); call(t, &mut n, "sm9.from_hash", "long", l, move || { let _ = gm_sm9::fields::mod_n_from_hash(&d); Ok::<(), String>(()) }); }
        }
        for l in 0..=200usize { let (d, w) = (rng.bytes(l), w384.clone()); call(t, &mut n, "sm9.hash2", "random", l, move || { let _ = gm_sm9::key::verif_hash2(&d, &w); Ok::<(), String>(()) }); }
        let ks = gm_sm9::u256::u256_from_be_bytes(&[5u8; 32]);
        let smk = gm_sm9::key::Sm9SignMasterKey { ks, ppubs: gm_sm9::points::TwistPoint::g_mul(&ks) };
        let skey = smk.extract_key(b"signer");
        let mut ladder: Vec<usize> = vec![];
        for edge in [512usize, 1024, 2048, 4096] { for d in 0..=(if thorough { 12 } else { 6 }) { for off in [0usize, 32, 384 + 5] { if edge >= off + d { ladder.push(edge - off - d); ladder.push(edge - off + d); } } } }
        ladder.sort(); ladder.dedup();
        for l in ladder {
            let m = rng.bytes(l);
            if let Some(sk) = skey {
                { let mm = m.clone(); call(t, &mut n, "sm9.sign_msg", "ladder", l, move || e(sk.sign(&mm))); }
                // a forged (h, S): H2 is evaluated before the comparison
                { let (mk, mm) = (smk, m.clone()); call(t, &mut n, "sm9.verify_msg", "ladder", l, move || { let _ = mk.verify_sign(b"signer", &mm, &[7, 0, 0, 0], &gm_sm9::points::Point::g_mul(&[11, 0, 0, 0])); Ok::<(), String>(()) }); }
            }
            { let (p, mm) = (pk.clone(), m.clone()); call(t, &mut n, "sm2.verify_msg", "ladder", l, move || { let _ = p.verify(None, &mm, &[7u8; 64]); Ok::<(), String>(()) }); }
            { let (k, mm) = (key.sk.clone(), m.clone()); call(t, &mut n, "sm2.sign_msg", "ladder", l, move || e(k.sign(None, &mm))); }
        }
    }
    // --- SM2 identities around the ENTL limit (a 16-bit BIT count: 8191 bytes is the longest legal identity) and around 2^16 bytes: sign and verify must answer ---
    for idlen in [8190usize, 8191, 8192, 8193, 16384, 65535, 65536, 65537] {
        let id: &'static str = Box::leak(std::iter::repeat('i').take(idlen).collect::<String>().into_boxed_str());
        { let p = pk.clone(); call(t, &mut n, "sm2.verify_longid", "long-id", idlen, move || { let _ = p.verify(Some(id), b"msg", &[7u8; 64]); Ok::<(), String>(()) }); }
        { let k = key.sk.clone(); call(t, &mut n, "sm2.sign_longid", "long-id", idlen, move || { let _ = k.sign(Some(id), b"msg"); Ok::<(), String>(()) }); }
    }
    // --- degenerate values that the constructors accept: the master key ke = N - H1(ID || hid) (Q_B = [h1]P1 + Ppub-e is the point at infinity, so are
    //     C1 and R); the point at infinity as a received R or as the signature point S.  Every call must terminate (ok or err). ---
    {
        let nn = gm_sm9::u256::u256_from_be_bytes(&hex::decode("b640000002a3a6f1d603ab4ff58ec74449f2934b18ea8beee56ee19cd69ecf25").unwrap());
        for (idx, id) in [b"bob".to_vec(), b"degenerate".to_vec()].iter().enumerate() {
            for hid in [3u8, 2] {
                let h = gm_sm9::key::verif_hash1(id, hid);
                let ke = gm_sm9::u256::u256_sub(&nn, &h).0;
                let msk = gm_sm9::key::Sm9EncMasterKey { ke, ppube: gm_sm9::points::Point::g_mul(&ke) };
                if hid == 3 {
                    { let (m, i) = (msk, id.clone()); call(t, &mut n, "sm9.encrypt_q_infinity", "degenerate", idx, move || { let _ = m.encrypt(&i, b"message"); Ok::<(), String>(()) }); }
                } else {
                    { let (m, i) = (msk, id.clone()); call(t, &mut n, "sm9.kx1a_q_infinity", "degenerate", idx, move || { let _ = gm_sm9::key::exch_step_1a(&m, &i); Ok::<(), String>(()) }); }
                }
            }
        }
        let ke = gm_sm9::u256::u256_from_be_bytes(&[3u8; 32]);
        let msk = gm_sm9::key::Sm9EncMasterKey { ke, ppube: gm_sm9::points::Point::g_mul(&ke) };
        if let Some(kb) = msk.extract_exch_key(b"bob") {
            let zero = gm_sm9::points::Point::zero();
            let other_zero = gm_sm9::points::Point::g_mul(&[9, 0, 0, 0]).point_sub(&gm_sm9::points::Point::g_mul(&[9, 0, 0, 0]));
            for (i, ra) in [zero, other_zero].iter().enumerate() {
                let (m, k, r) = (msk, kb, *ra);
                call(t, &mut n, "sm9.kx1b_r_infinity", "degenerate", i, move || { let _ = gm_sm9::key::exch_step_1b(&m, b"alice", b"bob", &k, &r, 16); Ok::<(), String>(()) });
            }
        }
        let ks = gm_sm9::u256::u256_from_be_bytes(&[5u8; 32]);
        let smk = gm_sm9::key::Sm9SignMasterKey { ks, ppubs: gm_sm9::points::TwistPoint::g_mul(&ks) };
        { let m = smk; call(t, &mut n, "sm9.verify_s_infinity", "degenerate", 0, move || { let _ = m.verify_sign(b"signer", b"msg", &[7, 0, 0, 0], &gm_sm9::points::Point::zero()); Ok::<(), String>(()) }); }
        // points whose PUBLIC limb fields hold unreduced values (the structs are plain data: Z = p is zero modulo p without being the all-zero limbs, x = p, y = 2^256 - 1 ...):
        // as the signature point S and as a received R
        {
            let pl = gm_sm9::u256::u256_from_be_bytes(&hex::decode("b640000002a3a6f1d603ab4ff58ec74521f2934b1a7aeedbe56f9b27e351457d").unwrap());
            let base = gm_sm9::points::Point::g_mul(&[11, 0, 0, 0]);
            let ff = [u64::MAX; 4];
            let mut cands = vec![];
            for (i, v) in [pl, ff, [1, 0, 0, 0]].iter().enumerate() {
                let mut a = base; a.z = *v; cands.push((a, i));
                let mut b = base; b.x = *v; cands.push((b, 3 + i));
                let mut c2 = base; c2.y = *v; cands.push((c2, 6 + i));
            }
            let ke = gm_sm9::u256::u256_from_be_bytes(&[3u8; 32]);
            let msk = gm_sm9::key::Sm9EncMasterKey { ke, ppube: gm_sm9::points::Point::g_mul(&ke) };
            let kb = msk.extract_exch_key(b"bob");
            for (pt, i) in cands {
                { let (m, q) = (smk, pt); call(t, &mut n, "sm9.verify_s_unreduced", "degenerate", i, move || { let _ = m.verify_sign(b"signer", b"msg", &[7, 0, 0, 0], &q); Ok::<(), String>(()) }); }
                if let Some(k) = kb { let (m, q) = (msk, pt); call(t, &mut n, "sm9.kx1b_r_unreduced", "degenerate", i, move || { let _ = gm_sm9::key::exch_step_1b(&m, b"alice", b"bob", &k, &q, 16); Ok::<(), String>(()) }); }
            }
        }
        // SM2: verification / decryption / key agreement never see an infinity through bytes; the public key object cannot hold it (constructor refuses)
    }
    // --- truncations and single-byte corruptions of valid encodings ---
    let spki = pk.to_public_key_der().unwrap().as_bytes().to_vec();
    let p8 = key.sk.to_pkcs8_der().unwrap().as_bytes().to_vec();
    let spki_pem = pk.to_public_key_pem(LineEnding::LF).unwrap();
    let p8_pem = key.sk.to_pkcs8_pem(LineEnding::LF).unwrap().to_string();
    let ct = pk.encrypt(b"attack at dawn", false, Sm2Model::C1C3C2).unwrap();
    let der = pk.encrypt_asn1(b"attack at dawn", false, Sm2Model::C1C3C2).unwrap();
    let step = if thorough { 1 } else { 3 };
    let mutate = |v: &[u8], i: usize, rng: &mut Rng| { let mut c = v.to_vec(); c[i] ^= 1 << (rng.below(8)); c };
    for i in (0..spki.len()).step_by(step) {
        { let d = spki[..i].to_vec(); call(t, &mut n, "sm2.spki_der", "truncated", i, move || e(Sm2PublicKey::from_public_key_der(&d))); }
        for v in [0x00u8, 0x01, 0x7f, 0x80, 0xff, spki[i] ^ (1 << rng.below(8))] { if v == spki[i] { continue; } let mut d = spki.clone(); d[i] = v; let l = d.len(); call(t, &mut n, "sm2.spki_der", "corrupted", l, move || e(Sm2PublicKey::from_public_key_der(&d))); }
    }
    for i in (0..p8.len()).step_by(step) {
        { let d = p8[..i].to_vec(); call(t, &mut n, "sm2.pkcs8_der", "truncated", i, move || e(Sm2PrivateKey::from_pkcs8_der(&d))); }
        for v in [0x00u8, 0x01, 0x7f, 0x80, 0xff, p8[i] ^ (1 << rng.below(8))] { if v == p8[i] { continue; } let mut d = p8.clone(); d[i] = v; let l = d.len(); call(t, &mut n, "sm2.pkcs8_der", "corrupted", l, move || e(Sm2PrivateKey::from_pkcs8_der(&d))); }
    }
    for i in (0..spki_pem.len()).step_by(step * 2) {
        { let s = spki_pem[..i].to_string(); call(t, &mut n, "sm2.spki_pem", "truncated", i, move || e(Sm2PublicKey::from_public_key_pem(&s))); }
        { let mut b = spki_pem.as_bytes().to_vec(); b[i] = b"Az+/=-\n9"[rng.below(8) as usize]; if let Ok(s) = String::from_utf8(b) { let l = s.len(); call(t, &mut n, "sm2.spki_pem", "corrupted", l, move || e(Sm2PublicKey::from_public_key_pem(&s))); } }
    }
    for i in (0..p8_pem.len()).step_by(step * 2) {
        { let s = p8_pem[..i].to_string(); call(t, &mut n, "sm2.pkcs8_pem", "truncated", i, move || e(Sm2PrivateKey::from_pkcs8_pem(&s))); }
        { let mut b = p8_pem.as_bytes().to_vec(); b[i] = b"Az+/=-\n9"[rng.below(8) as usize]; if let Ok(s) = String::from_utf8(b) { let l = s.len(); call(t, &mut n, "sm2.pkcs8_pem", "corrupted", l, move || e(Sm2PrivateKey::from_pkcs8_pem(&s))); } }
    }
    for i in (0..ct.len()).step_by(step) {
        { let (s, d) = (key.sk.clone(), mutate(&ct, i, &mut rng)); let l = d.len(); call(t, &mut n, "sm2.decrypt.uncomp", "corrupted", l, move || e(s.decrypt(&d, false, Sm2Model::C1C3C2))); }
    }
    // raw SM2 ciphertexts: every truncation, in each framing (the C1 prefix stays valid, so the slicing after it is reached)
    let ct_c = pk.encrypt(b"attack at dawn", true, Sm2Model::C1C2C3).unwrap();
    for i in 0..ct.len() {
        { let (s, d) = (key.sk.clone(), ct[..i].to_vec()); call(t, &mut n, "sm2.decrypt.uncomp", "truncated", i, move || e(s.decrypt(&d, false, Sm2Model::C1C3C2))); }
        { let (s, d) = (key.sk.clone(), ct[..i].to_vec()); call(t, &mut n, "sm2.decrypt.uncomp", "truncated", i, move || e(s.decrypt(&d, false, Sm2Model::C1C2C3))); }
    }
    for i in 0..ct_c.len() {
        { let (s, d) = (key.sk.clone(), ct_c[..i].to_vec()); call(t, &mut n, "sm2.decrypt.comp", "truncated", i, move || e(s.decrypt(&d, true, Sm2Model::C1C2C3))); }
        { let (s, d) = (key.sk.clone(), mutate(&ct_c, i, &mut rng)); let l = d.len(); call(t, &mut n, "sm2.decrypt.comp", "corrupted", l, move || e(s.decrypt(&d, true, Sm2Model::C1C2C3))); }
    }
    // SM9 ciphertexts C1 || C3 || C2: every truncation and byte-wise corruption of a valid one, and a valid C1 followed by tails of
    // every interesting length (the key-derivation length depends on |C2|: 255/256 and beyond)
    {
        let ke = gm_sm9::u256::u256_from_be_bytes(&[3u8; 32]);
        let msk = gm_sm9::key::Sm9EncMasterKey { ke, ppube: gm_sm9::points::Point::g_mul(&ke) };
        let dk = msk.extract_key(b"bob").unwrap();
        let ct9 = msk.encrypt(b"bob", b"twenty bytes of text");
        for i in 0..ct9.len() {
            { let (k, d) = (dk, ct9[..i].to_vec()); call(t, &mut n, "sm9.decrypt", "truncated", i, move || e(k.decrypt(b"bob", &d))); }
            if i % step == 0 { let (k, d) = (dk, mutate(&ct9, i, &mut rng)); let l = d.len(); call(t, &mut n, "sm9.decrypt", "corrupted", l, move || e(k.decrypt(b"bob", &d))); }
        }
        // C1 || C3 with an EMPTY C2 and the C3 that matches it (the encryption of the empty message): 97 bytes, must be refused
        { let (m, k) = (msk, dk); call(t, &mut n, "sm9.decrypt", "empty-c2-valid-mac", 97, move || { let c = m.encrypt(b"bob", b""); if c.len() != 97 { return Err("length".into()); } e(k.decrypt(b"bob", &c)) }); }
        let tails: Vec<usize> = if thorough { (0..=40).chain(250..=300).chain([511, 512, 1000, 4096]).collect() } else { vec![0, 1, 31, 32, 33, 254 + 32, 255 + 32, 256 + 32, 257 + 32, 300 + 32, 1000] };
        for tl in tails {
            let mut d = ct9[..65].to_vec(); d.extend(rng.bytes(tl)); let k = dk; let l = d.len();
            call(t, &mut n, "sm9.decrypt", "valid-c1-tail", l, move || e(k.decrypt(b"bob", &d)));
        }
        // encryption must terminate for every message length with any key (no error channel: it may not panic)
        for ml in [0usize, 1, 255, 256, 257, 300, 1000] {
            let (m, msg) = (msk, rng.bytes(ml));
            call(t, &mut n, "sm9.encrypt_len", "message-length", ml, move || -> Result<(), String> { let c = m.encrypt(b"bob", &msg); if c.len() == 65 + 32 + msg.len() { Ok(()) } else { Err("length".into()) } });
        }
    }
    // DER ciphertexts are short: every byte position, truncation and a boundary set of replacement values (not only one bit flip)
    for i in 0..der.len() {
        { let (s, d) = (key.sk.clone(), der[..i].to_vec()); call(t, &mut n, "sm2.decrypt_asn1", "truncated", i, move || e(s.decrypt_asn1(&d, false, Sm2Model::C1C3C2))); }
        for v in [0x00u8, 0x01, 0x7f, 0x80, 0xff, der[i] ^ 1, der[i].wrapping_add(1)] {
            if v == der[i] { continue; }
            let (s, mut d) = (key.sk.clone(), der.clone()); d[i] = v; let l = d.len();
            call(t, &mut n, "sm2.decrypt_asn1", "corrupted", l, move || e(s.decrypt_asn1(&d, false, Sm2Model::C1C3C2)));
        }
    }
    // structure-aware DER: SEQUENCE { INTEGER x, INTEGER y, OCTET STRING hash, OCTET STRING ct } with INTEGER / OCTET STRING sizes around the limits
    let tlv = |tag: u8, v: &[u8]| -> Vec<u8> { let mut o = vec![tag]; if v.len() < 128 { o.push(v.len() as u8); } else if v.len() < 256 { o.push(0x81); o.push(v.len() as u8); } else { o.push(0x82); o.push((v.len() >> 8) as u8); o.push(v.len() as u8); } o.extend_from_slice(v); o };
    for ilen in [0usize, 1, 2, 31, 32, 33, 34, 40, 64, 127, 128, 129, 300] {
        for first in [0x00u8, 0x01, 0x7f, 0x80, 0xff] {
            for which in 0..2 {
                let mut big = rng.bytes(ilen); if ilen > 0 { big[0] = first; }
                let good = { let mut g = rng.bytes(32); g[0] = 0x11; g };
                let (x, y) = if which == 0 { (big.clone(), good.clone()) } else { (good.clone(), big.clone()) };
                for hlen in [32usize, 31, 33, 0] {
                    if hlen != 32 && !(ilen == 32 && first == 0x01) { continue; }
                    let body = [tlv(2, &x), tlv(2, &y), tlv(4, &rng.bytes(hlen)), tlv(4, &rng.bytes(5))].concat();
                    let d = tlv(0x30, &body); let l = d.len(); let s = key.sk.clone();
                    call(t, &mut n, "sm2.decrypt_asn1", "der-shape", l, move || e(s.decrypt_asn1(&d, false, Sm2Model::C1C3C2)));
                }
            }
        }
    }
    // --- boundary keys: the constructor decides; whatever it accepts must sign, encrypt and decrypt in bounded time ---
    let nhex = hexb(N_HEX);
    for (d, fault) in [(vec![0u8; 32], "d=0"), (be_add_small(&vec![0u8; 32], 1), "d=1"), (be_add_small(&nhex, -2), "d=n-2"), (be_add_small(&nhex, -1), "d=n-1"), (nhex.clone(), "d=n"),
                       (be_add_small(&nhex, 1), "d=n+1"), (vec![0xffu8; 32], "d=2^256-1")] {
        call(t, &mut n, "sm2.sign_with_key", fault, 32, move || -> Result<(), String> {
            match Sm2PrivateKey::new(&d) { Err(_) => Ok(()), Ok(sk) => { let s = sk.sign(None, b"m").map_err(|x| format!("{:?}", x))?; e(sk.public_key.verify(None, b"m", &s)) } } });
    }
    for (d, fault) in [(vec![0u8; 32], "d=0"), (be_add_small(&vec![0u8; 32], 1), "d=1"), (be_add_small(&nhex, -2), "d=n-2"), (be_add_small(&nhex, -1), "d=n-1"), (nhex.clone(), "d=n"), (vec![0xffu8; 32], "d=2^256-1")] {
        call(t, &mut n, "sm2.encrypt_with_key", fault, 32, move || -> Result<(), String> {
            match Sm2PrivateKey::new(&d) { Err(_) => Ok(()), Ok(sk) => { let c = sk.public_key.encrypt(b"m", false, Sm2Model::C1C3C2).map_err(|x| format!("{:?}", x))?; e(sk.decrypt(&c, false, Sm2Model::C1C3C2)) } } });
    }
    // identities: too long / empty
    for idlen in [0usize, 1, 8191, 8192, 10000] {
        let id = leak(&"i".repeat(idlen));
        let p = pk.clone();
        call(t, &mut n, "sm2.verify_id", "id-length", idlen, move || e(p.verify(Some(id), b"m", &[1u8; 64])));
        let s = key.sk.clone();
        call(t, &mut n, "sm2.sign_id", "id-length", idlen, move || e(s.sign(Some(id), b"m")));
    }
    // SM9 verification with arbitrary h / S
    let ks = gm_sm9::u256::u256_from_be_bytes(&[5u8; 32]);
    let msk = gm_sm9::key::Sm9SignMasterKey { ks, ppubs: gm_sm9::points::TwistPoint::g_mul(&ks) };
    for i in 0..(if thorough { 200 } else { 40 }) {
        let h = match i % 5 { 0 => vec![0u8; 32], 1 => vec![0xffu8; 32], 2 => hexb(crate::suites::sm9::N9_HEX), 3 => be_add_small(&hexb(crate::suites::sm9::N9_HEX), -1), _ => rng.bytes(32) };
        let s = gm_sm9::points::Point { x: gm_sm9::u256::u256_from_be_bytes(&rng.bytes(32)), y: gm_sm9::u256::u256_from_be_bytes(&rng.bytes(32)),
            z: if i % 3 == 0 { [0, 0, 0, 0] } else { gm_sm9::u256::u256_from_be_bytes(&rng.bytes(32)) } };
        let m = msk;
        call(t, &mut n, "sm9.verify", "arbitrary", 32, move || e(m.verify_sign(b"alice", b"msg", &gm_sm9::u256::u256_from_be_bytes(&h), &s)));
    }
    let _ = Outcome::<()>::Timeout;
}
