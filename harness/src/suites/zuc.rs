//! C08 (ZUC keystream under every request split) and C18 (128-EEA3 / 128-EIA3) drivers.
use crate::gen::Rng;
use crate::trace::{bytes, guard_plain, word16, words16, Tracer};
use gm_zuc::eea::EEA;
use gm_zuc::eia::EIA;
use gm_zuc::ZUC;
use serde_json::{json, Value};

fn run_requests(t: &mut Tracer, sess: &str, key: &[u8], iv: &[u8], reqs: &[usize]) { run_requests_flag(t, sess, key, iv, reqs, false) }
/// `special`: ask the specification to look for rounds that start with R1 = 0 or R2 = 0 inside each request (it costs a second pass)
fn run_requests_flag(t: &mut Tracer, sess: &str, key: &[u8], iv: &[u8], reqs: &[usize], special: bool) {
    let (pk, pv) = (crate::gen::realign(key), crate::gen::realign(iv));
    let out = guard_plain(|| ZUC::new(pk.get(), pv.get()));
    t.emit(sess, "zuc.new", json!({"prop": "C08", "key": bytes(key), "iv": bytes(iv), "outcome": out.name(), "detail": out.detail()}));
    let mut z = match out { crate::trace::Outcome::Ok(z) => z, _ => return };
    for n in reqs {
        let o = guard_plain(|| z.generate_keystream(*n));
        let w = o.ok().cloned().unwrap_or_default();
        t.emit(sess, "zuc.req", json!({"prop": "C08", "n": n, "special": if special { 1 } else { 0 }, "out": words16(&w), "outcome": o.name(), "detail": o.detail()}));
    }
}

// ---- input construction: (key, IV) pairs for which one addition of the FIRST initialisation round has operands that sum to exactly `target`
//      (2^31-1, 2^31, 2^31+1: the boundary of the reduction modulo 2^31-1; random pairs: 2^-29).  Meet in the middle over two (key byte, IV byte)
//      pairs; every candidate is re-checked with the straightforward chain below.  The SPECIFICATION classifies the session (new.add31-boundary)
//      and judges the keystream; nothing here is an oracle. ----
const ZD: [u32; 16] = [0x44D7, 0x26BC, 0x626B, 0x135E, 0x5789, 0x35E2, 0x7135, 0x09AF, 0x4D78, 0x2F13, 0x6BC4, 0x1AF1, 0x5E26, 0x3C4D, 0x789A, 0x47AC];
fn zcell(i: usize, k: u8, iv: u8) -> u32 { ((k as u32) << 23) | (ZD[i] << 8) | iv as u32 }
fn zrot(a: u32, k: u32) -> u32 { ((a << k) | (a >> (31 - k))) & 0x7fff_ffff }
fn zadd(a: u32, b: u32) -> u32 { let c = a as u64 + b as u64; ((c & 0x7fff_ffff) + (c >> 31)) as u32 }
/// operands (partial sum, term) of the six additions of the first initialisation round
fn first_round_adds(key: &[u8], iv: &[u8]) -> Vec<(u32, u32)> {
    let s: Vec<u32> = (0..16).map(|i| zcell(i, key[i], iv[i])).collect();
    let x0 = ((s[15] >> 15) << 16) | (s[14] & 0xffff);
    let terms = [zrot(s[0], 8), zrot(s[4], 20), zrot(s[10], 21), zrot(s[13], 17), zrot(s[15], 15), x0 >> 1];
    let mut acc = s[0];
    let mut out = vec![];
    for t in terms { out.push((acc, t)); acc = zadd(acc, t); }
    out
}
pub fn craft_add31(rng: &mut Rng, pos: usize, target: u64) -> Option<(Vec<u8>, Vec<u8>)> {
    // Addition `pos` (1-based) adds the term of cell [0, 4, 10, 13, 15][pos-1] (pos 6: u, moved by iv[14]) to the partial sum.  The partial sum is
    // additive modulo 2^31-1 in the contribution L = s0 + rot(s0, 8) of cell 0, whose free bits (key and IV byte) cover the constant bits of every
    // term: tabulate L over (key[0], iv[0]), walk over the term's (key byte, IV byte), look up the L that makes the sum hit the target.
    const P: u64 = 0x7fff_ffff;
    if pos < 2 || pos > 6 { return None; }
    let cells = [0usize, 0, 4, 10, 13, 15];
    let lval = |k: u8, v: u8| -> u64 { let s0 = zcell(0, k, v); (s0 as u64 + zrot(s0, 8) as u64) % P };
    let mut lmap: std::collections::HashMap<u64, (u8, u8)> = std::collections::HashMap::new();
    for k in 0..=255u8 { for v in 0..=255u8 { lmap.insert(lval(k, v), (k, v)); } }
    for _attempt in 0..4 {
        let (mut key, mut iv) = (rng.bytes(16), rng.bytes(16));
        let lcur = lval(key[0], iv[0]);
        let try_fix = |key: &mut Vec<u8>, iv: &mut Vec<u8>| -> bool {
            let a = first_round_adds(key, iv)[pos - 1];
            let rest = (a.0 as u64 % P + P - lcur) % P;                      // contribution of everything but cell 0 to the partial sum
            let need = ((target % P) + 2 * P - (a.1 as u64 % P) - rest) % P;
            if let Some((k0, v0)) = lmap.get(&need) {
                let (ok, ov) = (key[0], iv[0]);
                key[0] = *k0; iv[0] = *v0;
                let b = first_round_adds(key, iv)[pos - 1];
                if b.0 as u64 + b.1 as u64 == target { return true; }
                key[0] = ok; iv[0] = ov;
            }
            false
        };
        if pos <= 5 {
            let mc = cells[pos];
            for k in 0..=255u8 { for v in 0..=255u8 { key[mc] = k; iv[mc] = v; if try_fix(&mut key, &mut iv) { return Some((key, iv)); } } }
        } else {
            for v14 in 0..=255u8 { iv[14] = v14; for k in 0..=255u8 { for v in 0..=255u8 { key[10] = k; iv[10] = v; if try_fix(&mut key, &mut iv) { return Some((key, iv)); } } } }
        }
    }
    None
}

fn eea_iv(count: u32, bearer: u32, dir: u32) -> Vec<u8> {
    let c = count.to_be_bytes(); let b = ((((bearer & 0x1f) << 1) | (dir & 1)) << 2) as u8;
    vec![c[0], c[1], c[2], c[3], b, 0, 0, 0, c[0], c[1], c[2], c[3], b, 0, 0, 0]
}
fn eia_iv(count: u32, bearer: u32, dir: u32) -> Vec<u8> {
    let c = count.to_be_bytes(); let b = ((bearer & 0x1f) << 3) as u8; let d = ((dir & 1) << 7) as u8;
    vec![c[0], c[1], c[2], c[3], b, 0, 0, 0, c[0] ^ d, c[1], c[2], c[3], b, 0, d, 0]
}
/// (key, COUNT, BEARER, DIRECTION) whose 128-EEA3 (or 128-EIA3) IV puts addition `pos` of the first initialisation round at exactly `target`
/// (same idea as craft_add31, with the IV constrained to the 3GPP layout: free are the key, COUNT, BEARER and DIRECTION)
pub fn craft_add31_3gpp(rng: &mut Rng, pos: usize, target: u64, eia: bool) -> Option<(Vec<u8>, u32, u32, u32)> {
    const P: u64 = 0x7fff_ffff;
    if pos < 2 || pos > 6 { return None; }
    let cells = [0usize, 0, 4, 10, 13, 15];
    let ivof = |c: u32, b: u32, d: u32| if eia { eia_iv(c, b, d) } else { eea_iv(c, b, d) };
    let lval = |k: u8, v: u8| -> u64 { let s0 = zcell(0, k, v); (s0 as u64 + zrot(s0, 8) as u64) % P };
    let mut lmap: std::collections::HashMap<u64, (u8, u8)> = std::collections::HashMap::new();
    for k in 0..=255u8 { for v in 0..=255u8 { lmap.insert(lval(k, v), (k, v)); } }
    let vc = if pos <= 5 { cells[pos] } else { 13 };
    for _attempt in 0..3000 {
        let mut key = rng.bytes(16);
        let (count, bearer, dir) = (rng.next() as u32, rng.below(32) as u32, rng.below(2) as u32);
        let iv = ivof(count, bearer, dir);
        let lcur = lval(key[0], iv[0]);
        for kb in 0..=255u8 {
            key[vc] = kb;
            let a = first_round_adds(&key, &iv)[pos - 1];
            let rest = (a.0 as u64 % P + P - lcur) % P;
            let need = ((target % P) + 2 * P - (a.1 as u64 % P) - rest) % P;
            if let Some((k0, v0)) = lmap.get(&need) {
                let mut key2 = key.clone(); key2[0] = *k0;
                let count2 = (count & 0x00ff_ffff) | ((*v0 as u32) << 24);
                let iv2 = ivof(count2, bearer, dir);
                let b = first_round_adds(&key2, &iv2)[pos - 1];
                if b.0 as u64 + b.1 as u64 == target { return Some((key2, count2, bearer, dir)); }
            }
        }
    }
    None
}

pub fn drive_stream(t: &mut Tracer, tier: &str, seed: u64, plan: Option<String>) {
    let thorough = tier == "thorough";
    let mut rng = Rng(seed ^ 0x20c);
    let mut n = 0u64;
    let mut sess = || { n += 1; format!("zuc/{}", n) };
    let structured: Vec<(Vec<u8>, Vec<u8>)> = vec![
        (vec![0; 16], vec![0; 16]), (vec![0xff; 16], vec![0xff; 16]),
        (vec![0x3d,0x4c,0x4b,0xe9,0x6a,0x82,0xfd,0xae,0xb5,0x8f,0x64,0x1d,0xb1,0x7b,0x45,0x5b], vec![0x84,0x31,0x9a,0xa8,0xde,0x69,0x15,0xca,0x1f,0x6b,0xda,0x6b,0xfb,0xd8,0xc7,0x66]),
        (vec![0; 16], vec![0xff; 16]), (vec![0xff; 16], vec![0; 16]), ((0..16).collect(), (16..32).collect()),
    ];
    // (a) every composition from the TLC plan, cycling through structured and random keys
    if let Some(p) = plan {
        let text = std::fs::read_to_string(p).expect("plan");
        for (i, line) in text.lines().enumerate() {
            let v: Value = serde_json::from_str(line).unwrap();
            let reqs: Vec<usize> = v["reqs"].as_array().unwrap().iter().map(|x| x.as_u64().unwrap() as usize).collect();
            let (key, iv) = if i % 4 == 0 { structured[(i / 4) % structured.len()].clone() } else { (rng.bytes(16), rng.bytes(16)) };
            run_requests(t, &sess(), &key, &iv, &reqs);
        }
    }
    // (a2) crafted (key, IV): an addition of the first initialisation round sums to exactly 2^31-1 / 2^31 / 2^31+1
    for pos in 2..=6usize {
        for target in [0x7fff_ffffu64, 0x8000_0000, 0x8000_0001] {
            if let Some((key, iv)) = craft_add31(&mut rng, pos, target) {
                run_requests(t, &sess(), &key, &iv, &[16]);
                run_requests(t, &sess(), &key, &iv, &[1, 0, 3, 12]);
            }
        }
    }
    // (a3) searched (key, IV) pairs (one-off helper in main.rs) for which some round starts with one of the memory words of F equal to ZERO (R1 = 0 at word 1181;
    //      R2 = 0 at words 1350, 671, 663; 2^-32 per round): the specification re-classifies the sessions itself (class suffix .r-zero)
    for (k, v, at) in [("e70bd263a0935f21f220be90fd8a5f6e", "7cf3f0990175b2e6f087463ca560bafe", 1181usize), ("2bb9c5b2e1aad8f813054bcd708cc208", "a563b1c76476c983ae3b8b543b9ffff1", 1350),
                       ("67d2d3a7837c0f32d7c1009b6412670c", "0d87080ddcf1fe85b74f1c3f96626898", 671), ("b79753b3134cbc0293b5e04c1a3aa8e9", "76cb871d533823f4b29fc4ac2ca5deb3", 663),
                       // ... or with an all-zero input word to one of the S-box layers of F (v at words 1139, 1050; u at word 433)
                       ("db5f6f7553db72ce976a37a767168521", "2f05059a7c60bdd1969b8fdba13a56eb", 1139), ("f9baed7ccbecb481efe1bb158f4492d7", "2fb0d02281ce990a65eb5ac160bac024", 1050),
                       ("de9344d845285e538770db3927effd7b", "81a1bd9c5f25a2b0721ec3ff1da2af57", 433)] {
        let (key, iv) = (hex::decode(k).unwrap(), hex::decode(v).unwrap());
        run_requests_flag(t, &sess(), &key, &iv, &[at - 3, 8, 5], true);
        run_requests_flag(t, &sess(), &key, &iv, &[at + 10], true);
    }
    // (b) official vectors and structured keys: two-word requests and word-by-word
    for (k, iv) in &structured {
        run_requests(t, &sess(), k, iv, &[2]);
        run_requests(t, &sess(), k, iv, &[1, 1, 1, 1]);
        run_requests(t, &sess(), k, iv, &[0, 0, 3, 0, 1]);
    }
    // single-bit keys / IVs
    let step = if thorough { 1 } else { 8 };
    for bit in (0..128).step_by(step) {
        let mut k = vec![0u8; 16];
        k[bit / 8] = 0x80 >> (bit % 8);
        run_requests(t, &sess(), &k, &vec![0u8; 16], &[3]);
        run_requests(t, &sess(), &vec![0u8; 16], &k, &[1, 2]);
    }
    // (b2) LARGE single requests (a generator that produces its output in blocks or windows of 2^k words has its seam inside one call),
    //      alone and followed by further requests (the state left behind by a large request)
    for (i, big) in [1023usize, 1024, 1025, 4095, 4096, 4097, 5000, 8192, 8193, 9000].iter().enumerate() {
        if !thorough && (i % 3 == 1) && *big != 4097 { continue; }
        let (key, iv) = if i % 4 == 0 { structured[i % structured.len()].clone() } else { (rng.bytes(16), rng.bytes(16)) };
        run_requests(t, &sess(), &key, &iv, &[*big, 1, 17]);
    }
    if thorough { run_requests(t, &sess(), &rng.bytes(16), &rng.bytes(16), &[(1 << 16) + 3, 2]); run_requests(t, &sess(), &rng.bytes(16), &rng.bytes(16), &[3, (1 << 15) + 1, 4097, 5]); }
    // (b3) VERY long streams (2^27 words and more from one generator): the words between the judged windows are produced by the library and
    //      dropped; at each window the generator's state is read through the gm_rs_verif accessor and logged as a `zuc.skip` event -- the
    //      specification checks the LFSR part of it by skip-ahead (x^n modulo the feedback polynomial), takes the two memory words from the
    //      log, and judges the next requests from that state.  Windows sit around 2^k words (counters in words, bits or bytes that wrap).
    {
        let (key, iv) = (rng.bytes(16), rng.bytes(16));
        let s = sess();
        let out = guard_plain(|| ZUC::new(&key, &iv));
        t.emit(&s, "zuc.new", json!({"prop": "C08", "key": bytes(&key), "iv": bytes(&iv), "outcome": out.name(), "detail": out.detail()}));
        if let crate::trace::Outcome::Ok(mut z) = out {
            let mut produced: u64 = 0;
            let mut req = |t: &mut Tracer, z: &mut ZUC, n: usize, produced: &mut u64| {
                let o = guard_plain(|| z.generate_keystream(n));
                let w = o.ok().cloned().unwrap_or_default();
                t.emit(&s, "zuc.req", json!({"prop": "C08", "n": n, "out": words16(&w), "outcome": o.name(), "detail": o.detail()}));
                *produced += n as u64;
            };
            req(t, &mut z, 40, &mut produced);
            let marks: Vec<u64> = if thorough { vec![1 << 12, 1 << 16, 1 << 20, 1 << 24, 1 << 26, 1 << 27, (1 << 27) + (1 << 26), 1 << 28] } else { vec![1 << 16, 1 << 24, 1 << 26, 1 << 27] };
            for m in marks {
                let target = m - 40;                                     // the window [m - 40, m + 24) is judged
                let mut left = target - produced;
                let skipped = left;
                let o = guard_plain(|| { while left > 0 { let c = left.min(1 << 16) as usize; let _ = z.generate_keystream(c); left -= c as u64; } });
                produced = target;
                let (cells, r1, r2) = z.verif_state();
                t.emit(&s, "zuc.skip", json!({"prop": "C08", "n": skipped, "s": cells.to_vec(), "r1": word16(r1), "r2": word16(r2), "at": format!("2^{}", 63 - m.leading_zeros()), "outcome": o.name(), "detail": o.detail()}));
                req(t, &mut z, 33, &mut produced);
                req(t, &mut z, 31, &mut produced);
            }
        }
    }
    // (c) long streams with seeded random splits
    let (streams, total) = if thorough { (8, 1usize << 16) } else { (5, 4000usize) };
    for si in 0..streams {
        // the all-zero and all-one keys get long streams too (rare LFSR events need hundreds to thousands of steps)
        let (key, iv) = match si { 0 => (vec![0u8; 16], vec![0u8; 16]), 1 => (vec![0xffu8; 16], vec![0xffu8; 16]), _ => (rng.bytes(16), rng.bytes(16)) };
        let mut reqs = vec![];
        let mut left = total;
        while left > 0 {
            let r = match rng.below(10) { 0 => 0, 1..=5 => 1 + rng.below(8) as usize, 6..=8 => 1 + rng.below(100) as usize, _ => 1 + rng.below(1000) as usize };
            let r = r.min(left);
            reqs.push(r);
            left -= r;
        }
        run_requests(t, &sess(), &key, &iv, &reqs);
    }
}

fn eea_event(t: &mut Tracer, sess: &str, key: &[u8], count: u32, bearer: u32, dir: u32, len: u32, msg: &[u32]) -> Option<Vec<u32>> {
    let pk = crate::gen::realign(key);
    let o = guard_plain(|| { let mut e = EEA::new(pk.get(), count, bearer, dir); e.encrypt(msg, len) });
    let w = o.ok().cloned();
    t.emit(sess, "eea.encrypt", json!({"prop": "C18", "key": bytes(key), "count": word16(count), "bearer": bearer, "dir": dir, "len": len,
        "msg": words16(msg), "out": words16(w.as_deref().unwrap_or(&[])), "outcome": o.name(), "detail": o.detail()}));
    w
}
fn eia_event(t: &mut Tracer, sess: &str, key: &[u8], count: u32, bearer: u32, dir: u32, len: u32, msg: &[u32]) {
    let pk = crate::gen::realign(key);
    let o = guard_plain(|| { let mut e = EIA::new(pk.get(), count, bearer, dir); e.gen_mac(msg, len) });
    let m = o.ok().cloned().unwrap_or(0);
    t.emit(sess, "eia.mac", json!({"prop": "C18", "key": bytes(key), "count": word16(count), "bearer": bearer, "dir": dir, "len": len,
        "msg": words16(msg), "mac": word16(m), "outcome": o.name(), "detail": o.detail()}));
}

pub fn drive_eea(t: &mut Tracer, tier: &str, seed: u64) {
    let thorough = tier == "thorough";
    let mut rng = Rng(seed ^ 0xeea3);
    let mut n = 0u64;
    let mut sess = || { n += 1; format!("eea/{}", n) };
    let words = |rng: &mut Rng, k: usize| -> Vec<u32> { (0..k).map(|_| rng.next() as u32).collect() };
    // official test sets that are in the repository's tests + EIA3 set 1
    let ck1 = [0x17u8,0x3d,0x14,0xba,0x50,0x03,0x73,0x1d,0x7a,0x60,0x04,0x94,0x70,0xf0,0x0a,0x29];
    let m1 = [0x6cf65340u32,0x735552ab,0x0c9752fa,0x6f9025fe,0x0bd675d9,0x005875b2,0];
    eea_event(t, &sess(), &ck1, 0x66035492, 15, 0, 193, &m1);
    eia_event(t, &sess(), &[0u8; 16], 0, 0, 0, 1, &[0]);
    // LENGTH = 0 for the confidentiality function too (zero output words), with an empty and a non-empty message, extreme COUNT / BEARER / DIRECTION
    // (every combination of the extreme COUNT / BEARER / DIRECTION values: an IV layout that skips work when its head word is zero shows only for 0 / 0 / 1)
    for (count, bearer, dir, nw) in [(0u32, 0u32, 0u32, 0usize), (0, 0, 1, 2), (0, 31, 0, 1), (0, 31, 1, 0), (0xffff_ffff, 0, 0, 1), (0xffff_ffff, 0, 1, 2), (0xffff_ffff, 31, 0, 3), (0xffff_ffff, 31, 1, 0),
                                     (0x8000_0000, 16, 1, 3), (1, 31, 0, 1), (0, 1, 1, 1), (1, 0, 1, 1)] {
        let key = rng.bytes(16);
        let msg = words(&mut rng, nw);
        eea_event(t, &sess(), &key, count, bearer, dir, 0, &msg);
        eia_event(t, &sess(), &key, count, bearer, dir, 0, &msg);
        let m2 = words(&mut rng, 2);
        eea_event(t, &sess(), &key, count, bearer, dir, 33, &m2);
        eia_event(t, &sess(), &key, count, bearer, dir, 33, &m2);
    }
    // every LENGTH (thorough) or a stride plus every multiple of 32 +-1 (quick); bearers and directions sampled against length
    let maxlen = 600u32;
    for len in 0..=maxlen {
        let pick = thorough || len <= 70 || len % 32 <= 1 || len % 32 == 31 || len % 13 == 0;
        if !pick { continue; }
        let key = rng.bytes(16);
        let count = rng.next() as u32;
        let bearer = (len * 7 + (rng.below(4) as u32)) % 32;
        let dir = (len / 3) % 2;
        let nw = ((len + 31) / 32) as usize;
        // message with extra words / set bits beyond LENGTH
        let msg = words(&mut rng, nw + 1);
        eia_event(t, &sess(), &key, count, bearer, dir, len, &msg);
        if len >= 1 {
            let s = sess();
            if let Some(ct) = eea_event(t, &s, &key, count, bearer, dir, len, &msg) {
                // involution: applying it again with the same parameters restores the first LENGTH bits
                eea_event(t, &s, &key, count, bearer, dir, len, &ct);
            }
        }
    }
    // all bearers x both directions at a few lengths
    for bearer in 0..32u32 {
        for dir in 0..2u32 {
            let len = 1 + rng.below(200) as u32;
            let key = rng.bytes(16);
            let count = rng.next() as u32;
            let msg = words(&mut rng, ((len + 31) / 32) as usize);
            eea_event(t, &sess(), &key, count, bearer, dir, len, &msg);
            eia_event(t, &sess(), &key, count, bearer, dir, len, &msg);
        }
    }
    // dependence: flipping a bit beyond LENGTH leaves the MAC unchanged, inside changes it to the spec's value (judged per event)
    for _ in 0..(if thorough { 60 } else { 10 }) {
        let len = 1 + rng.below(300) as u32;
        let key = rng.bytes(16);
        let count = rng.next() as u32;
        let nw = ((len + 31) / 32) as usize;
        let msg = words(&mut rng, nw);
        let s = sess();
        eia_event(t, &s, &key, count, 3, 1, len, &msg);
        let mut m2 = msg.clone();
        let inside = rng.below(len as u64) as usize;
        m2[inside / 32] ^= 0x8000_0000u32 >> (inside % 32);
        eia_event(t, &s, &key, count, 3, 1, len, &m2);
        if len % 32 != 0 {
            let mut m3 = msg.clone();
            let beyond = len as usize + rng.below((32 - len % 32) as u64) as usize;
            m3[beyond / 32] ^= 0x8000_0000u32 >> (beyond % 32);
            eia_event(t, &s, &key, count, 3, 1, len, &m3);
        }
    }
    // longer random lengths
    for _ in 0..(if thorough { 30 } else { 4 }) {
        let len = 600 + rng.below(if thorough { 8000 } else { 1500 }) as u32;
        let key = rng.bytes(16);
        let count = rng.next() as u32;
        let msg = words(&mut rng, ((len + 31) / 32) as usize);
        eea_event(t, &sess(), &key, count, rng.below(32) as u32, rng.below(2) as u32, len, &msg);
        eia_event(t, &sess(), &key, count, rng.below(32) as u32, rng.below(2) as u32, len, &msg);
    }
    // crafted (key, COUNT, BEARER, DIRECTION): the derived IV puts an addition of the first initialisation round at exactly 2^31-1 / 2^31 / 2^31+1
    for pos in 2..=6usize {
        for target in [0x7fff_ffffu64, 0x8000_0000, 0x8000_0001] {
            for eia in [false, true] {
                if let Some((key, count, bearer, dir)) = craft_add31_3gpp(&mut rng, pos, target, eia) {
                    let len = 100 + 3 * pos as u32;                       // never a multiple of 32 or one off: the class name stays eea/eia.len-other.add31-boundary
                    let msg = words(&mut rng, ((len + 31) / 32) as usize);
                    if eia { eia_event(t, &sess(), &key, count, bearer, dir, len, &msg); } else { eea_event(t, &sess(), &key, count, bearer, dir, len, &msg); }
                }
            }
        }
    }
    // very long messages (up to 65 504 bits, the 3GPP maximum): rare events of the keystream generator (a carry that needs a second fold, about once
    // per 1200 LFSR steps) are reached through EEA3 / EIA3 themselves, incl. structured keys
    // ... and beyond it (LENGTH is a 32-bit quantity; the property quantifies over every LENGTH): 2^k-word seams of the keystream generator
    let beyond: Vec<u32> = if thorough { vec![131040, 131072, 131073, 131105, 160000, 262144, 262145, 300001] } else { vec![131073, 131105, 200003] };
    let nlong = if thorough { 24 } else { 5 };
    for i in 0..(nlong + beyond.len()) {
        let len = if i >= nlong { beyond[i - nlong] } else if i == 0 { 65504 } else if i == 1 { 65503 } else { 40000 + rng.below(25504) as u32 };       // 65504 bits is the 3GPP maximum
        let key = match i % 5 { 3 => vec![0u8; 16], 4 => vec![0xffu8; 16], _ => rng.bytes(16) };
        let count = rng.next() as u32;
        let msg = words(&mut rng, ((len + 31) / 32) as usize);
        eea_event(t, &sess(), &key, count, rng.below(32) as u32, rng.below(2) as u32, len, &msg);
        eia_event(t, &sess(), &key, count, rng.below(32) as u32, rng.below(2) as u32, len, &msg);
    }
}
