//! C01 driver: SM3 digests over generated / boundary / random messages.
use crate::gen::{raw_json, Gen, Rng};
use crate::trace::{bytes, guard_plain, Tracer};
use serde_json::json;

fn hash_event(t: &mut Tracer, sess: &str, g: Option<&Gen>, msg: &[u8]) {
    let placed = crate::gen::realign(msg);
    let out = guard_plain(|| gm_sm3::sm3_hash(placed.get()));
    let mut f = json!({"prop": "C01", "len": msg.len(), "outcome": out.name(), "detail": out.detail()});
    match g {
        Some(g) => { f["gen"] = g.json(); }
        None => { f["gen"] = raw_json(); f["raw"] = bytes(msg); }
    }
    f["digest"] = match out.ok() { Some(d) => bytes(&d[..]), None => json!([]) };
    t.emit(sess, "sm3.hash", f);
}

pub fn drive(t: &mut Tracer, tier: &str, seed: u64, plan: Option<String>) {
    let thorough = tier == "thorough";
    let mut rng = Rng(seed ^ 0x5113);
    let maxlen = if thorough { 4096 } else { 300 };
    let classes: Vec<Gen> = if thorough {
        vec![Gen::new("zero", 0), Gen::new("ff", 0), Gen::new("inc", rng.below(256)), Gen::new("mix", rng.below(1 << 20))]
    } else {
        vec![Gen::new("zero", 0), Gen::new("mix", rng.below(1 << 20))]
    };
    // content classes with increasing length (prefix-shared sessions)
    for g in &classes {
        let sess = format!("sm3/{}:{}", g.k, g.seed);
        let full = g.msg(maxlen);
        for len in 0..=maxlen {
            hash_event(t, &sess, Some(g), &full[..len]);
        }
    }
    // every single-bit-set message over three blocks (quick: every 6th bit + the block edges)
    for bit in 0..1536u64 {
        if thorough || bit % 6 == 0 || bit % 512 >= 504 || bit % 512 < 8 {
            let g = Gen::new("bit", bit);
            hash_event(t, &format!("sm3/bit{}", bit), Some(&g), &g.msg(192));
        }
    }
    // random multi-block messages (explicit bytes)
    let nrand = if thorough { 500 } else { 50 };
    for i in 0..nrand {
        let len = 1 + rng.below(if thorough { 2048 } else { 700 }) as usize;
        let m = rng.bytes(len);
        hash_event(t, &format!("sm3/rand{}", i), None, &m);
    }
    // purity: A, B, A, B', A in one session -- the verdict depends on the input only
    for i in 0..(if thorough { 40 } else { 8 }) {
        let la = 1 + rng.below(200) as usize;
        let a = rng.bytes(la);
        let lb = 1 + rng.below(200) as usize;
        let b = rng.bytes(lb);
        let sess = format!("sm3/pure{}", i);
        hash_event(t, &sess, None, &a);
        hash_event(t, &sess, None, &b);
        hash_event(t, &sess, None, &a);
        hash_event(t, &sess, None, &[]);
        hash_event(t, &sess, None, &a);
    }
    // OpenSSL-made corpus: the library must reproduce the digests the specification is anchored to
    let corpus = concat!(env!("CARGO_MANIFEST_DIR"), "/../corpus/sm3_openssl_bytes.ndjson");
    if let Ok(text) = std::fs::read_to_string(corpus) {
        for (i, line) in text.lines().enumerate() {
            let v: serde_json::Value = serde_json::from_str(line).unwrap();
            let m: Vec<u8> = v["msg"].as_array().unwrap().iter().map(|x| x.as_u64().unwrap() as u8).collect();
            hash_event(t, &format!("sm3/corpus{}", i), None, &m);
        }
    }
    // one message of >= 2^29 bytes (bit length >= 2^32): TLC cannot compress 8.4 M blocks, so the per-block observer hook logs the
    // chaining values of ~200 seeded block indices plus every block from the last full message block on; the specification checks each
    // logged compression, the padded tail with its 64-bit length field and the digest (the chain BETWEEN samples is not checked)
    giant(t, seed, thorough, false);
    // thorough only: a message of more than 2^32 bytes (block indices beyond 2^26, byte offsets beyond 32 bits; needs about 9 GiB for a minute)
    if thorough { giant(t, seed, thorough, true); }
    // searched 64-byte blocks (`gmverif findsm3`) for which some round j >= 16 of the first compression starts with two equal registers among the
    // arguments of FF (A, B, C) or GG (E, F, G), or uses a zero W_j / W'_j -- the specification re-classifies them (class crafted-internal)
    for hx in [
        "676d2d727320766572696669636174696f6e3a20534d3320626c6f636b207769746820616e20696e7465726e616c20636f696e636964656e00000900000022a3",
        "676d2d727320766572696669636174696f6e3a20534d3320626c6f636b207769746820616e20696e7465726e616c20636f696e636964656e0000090000007616",
        "676d2d727320766572696669636174696f6e3a20534d3320626c6f636b207769746820616e20696e7465726e616c20636f696e636964656e000000000005b2f6",
        "676d2d727320766572696669636174696f6e3a20534d3320626c6f636b207769746820616e20696e7465726e616c20636f696e636964656e000006000020a198",
        "676d2d727320766572696669636174696f6e3a20534d3320626c6f636b207769746820616e20696e7465726e616c20636f696e636964656e0000040000419c5b",
        "676d2d727320766572696669636174696f6e3a20534d3320626c6f636b207769746820616e20696e7465726e616c20636f696e636964656e000005000030eb32",
        "676d2d727320766572696669636174696f6e3a20534d3320626c6f636b207769746820616e20696e7465726e616c20636f696e636964656e00000a0000494995",
        "676d2d727320766572696669636174696f6e3a20534d3320626c6f636b207769746820616e20696e7465726e616c20636f696e636964656e00000a000072dbb6",
    ] {
        let m = hex::decode(hx).unwrap();
        hash_event(t, "sm3/crafted", None, &m);
        let mut longer = m.clone(); longer.extend_from_slice(b"...and a tail after the crafted block");
        hash_event(t, "sm3/crafted", None, &longer);
    }
    // blocks SOLVED for by the specification (PlanSM3): round 0 feeds a special word (0, 2^i, 2^i +- 1) into P0, register A or P1 -- as the first
    // block of a 64-byte message or the second block of a 128-byte one; the trace specification re-classifies them (class crafted-value)
    for (i, v) in crate::suites::sm2::read_plan(&plan).iter().enumerate() {
        let m: Vec<u8> = v["msg"].as_array().unwrap().iter().map(|x| x.as_u64().unwrap() as u8).collect();
        hash_event(t, "sm3/value", None, &m);
        if i % 8 == 0 { let mut longer = m.clone(); longer.extend_from_slice(b"tail"); hash_event(t, "sm3/value", None, &longer); }
    }
    // boundary lengths around multiples of 64 for longer messages
    let g = Gen::new("mix", rng.below(1 << 20));
    let blocks: &[usize] = if thorough { &[16, 33, 64, 100, 255, 256, 1024] } else { &[16, 33] };
    for nb in blocks {
        let sess = format!("sm3/edge{}", nb);
        let full = g.msg(nb * 64 + 2);
        for d in [-9i64, -8, -2, -1, 0, 1] {
            let len = (*nb as i64 * 64 + d) as usize;
            hash_event(t, &sess, Some(&g), &full[..len]);
        }
    }
}

fn giant(t: &mut Tracer, seed: u64, thorough: bool, beyond32: bool) {
    use std::collections::HashSet;
    let mut rng = Rng(seed ^ 0x6166);
    let extra = 1 + rng.below(120) as usize;                 // tail of 1..120 bytes: one or two padding blocks
    let len: usize = (if beyond32 { 1usize << 32 } else { 1usize << 29 }) + 64 * (rng.below(1000) as usize) + extra;
    let g = Gen::new("mix", rng.below(1 << 20));
    let nfull = (len / 64) as u64;
    let mut idx: HashSet<u64> = HashSet::new();
    for i in [0u64, 1, 2, 63, 64, 65535, 65536, (1 << 22) - 1, 1 << 22, (1 << 23) + 5, (1 << 26) - 1, 1 << 26, (1 << 26) + 1, (1 << 26) + 7, nfull - 2, nfull - 1] { idx.insert(i.min(nfull - 1)); }
    while idx.len() < (if thorough { 400 } else { 120 }) { idx.insert(rng.below(nfull)); }
    let msg = g.msg(len);
    let out = guard_plain(|| {
        gm_sm3::verif::observe(idx.clone(), nfull);
        let d = gm_sm3::sm3_hash(&msg);
        (d, gm_sm3::verif::stop())
    });
    drop(msg);
    let sess = if beyond32 { "sm3/giant2".to_string() } else { "sm3/giant".to_string() };
    let w = |v: &[u32; 8]| -> Vec<u8> { v.iter().flat_map(|x| x.to_be_bytes()).collect() };
    match out.ok() {
        Some((digest, log)) => {
            let mut v_after_full: Option<[u32; 8]> = None;
            for e in log {
                if e.index < nfull {
                    t.emit(&sess, "sm3.block", json!({"prop": "C01", "gen": g.json(), "idx": e.index, "vin": bytes(&w(&e.v_in)), "vout": bytes(&w(&e.v_out)), "outcome": "ok"}));
                    if e.index == nfull - 1 { v_after_full = Some(e.v_out); }
                }
            }
            let vin = v_after_full.unwrap_or([0u32; 8]);
            t.emit(&sess, "sm3.final", json!({"prop": "C01", "gen": g.json(), "lhi": len >> 24, "llo": len & 0xff_ffff, "nfull": nfull, "vin": bytes(&w(&vin)),
                "digest": bytes(&digest[..]), "outcome": "ok"}));
        }
        None => { t.emit(&sess, "sm3.final", json!({"prop": "C01", "gen": g.json(), "lhi": len >> 24, "llo": len & 0xff_ffff, "nfull": nfull, "vin": bytes(&[0u8; 32]), "digest": bytes(&[0u8; 32]), "outcome": out.name()})); }
    }
}
