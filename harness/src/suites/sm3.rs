//! C01 driver: SM3 digests over generated / boundary / random messages.
use crate::gen::{raw_json, Gen, Rng};
use crate::trace::{bytes, guard_plain, Tracer};
use serde_json::json;

fn hash_event(t: &mut Tracer, sess: &str, g: Option<&Gen>, msg: &[u8]) {
    let out = guard_plain(|| gm_sm3::sm3_hash(msg));
    let mut f = json!({"prop": "C01", "len": msg.len(), "outcome": out.name(), "detail": out.detail()});
    match g {
        Some(g) => { f["gen"] = g.json(); }
        None => { f["gen"] = raw_json(); f["raw"] = bytes(msg); }
    }
    f["digest"] = match out.ok() { Some(d) => bytes(&d[..]), None => json!([]) };
    t.emit(sess, "sm3.hash", f);
}

pub fn drive(t: &mut Tracer, tier: &str, seed: u64) {
    let thorough = tier == "thorough";
    let mut rng = Rng(seed ^ 0x5113);
    let maxlen = if thorough { 4096 } else { 300 };
    let classes: Vec<Gen> = if thorough {
        vec![Gen::new("zero", 0), Gen::new("ff", 0), Gen::new("inc", rng.below(256)), Gen::new("mix", rng.below(1 << 20))]
    } else {
        vec![Gen::new("zero", 0), Gen::new("mix", rng.below(1 << 20))]
    };
    // content classes with increasing length (prefix-shared sessions)
    for g in &classes {
        let sess = format!("sm3/{}:{}", g.k, g.seed);
        let full = g.msg(maxlen);
        for len in 0..=maxlen {
            hash_event(t, &sess, Some(g), &full[..len]);
        }
    }
    // every single-bit-set message over three blocks (quick: every 6th bit + the block edges)
    for bit in 0..1536u64 {
        if thorough || bit % 6 == 0 || bit % 512 >= 504 || bit % 512 < 8 {
            let g = Gen::new("bit", bit);
            hash_event(t, &format!("sm3/bit{}", bit), Some(&g), &g.msg(192));
        }
    }
    // random multi-block messages (explicit bytes)
    let nrand = if thorough { 500 } else { 50 };
    for i in 0..nrand {
        let len = 1 + rng.below(if thorough { 2048 } else { 700 }) as usize;
        let m = rng.bytes(len);
        hash_event(t, &format!("sm3/rand{}", i), None, &m);
    }
    // purity: A, B, A, B', A in one session -- the verdict depends on the input only
    for i in 0..(if thorough { 40 } else { 8 }) {
        let la = 1 + rng.below(200) as usize;
        let a = rng.bytes(la);
        let lb = 1 + rng.below(200) as usize;
        let b = rng.bytes(lb);
        let sess = format!("sm3/pure{}", i);
        hash_event(t, &sess, None, &a);
        hash_event(t, &sess, None, &b);
        hash_event(t, &sess, None, &a);
        hash_event(t, &sess, None, &[]);
        hash_event(t, &sess, None, &a);
    }
    // OpenSSL-made corpus: the library must reproduce the digests the specification is anchored to
    let corpus = concat!(env!("CARGO_MANIFEST_DIR"), "/../corpus/sm3_openssl_bytes.ndjson");
    if let Ok(text) = std::fs::read_to_string(corpus) {
        for (i, line) in text.lines().enumerate() {
            let v: serde_json::Value = serde_json::from_str(line).unwrap();
            let m: Vec<u8> = v["msg"].as_array().unwrap().iter().map(|x| x.as_u64().unwrap() as u8).collect();
            hash_event(t, &format!("sm3/corpus{}", i), None, &m);
        }
    }
    // boundary lengths around multiples of 64 for longer messages
    let g = Gen::new("mix", rng.below(1 << 20));
    let blocks: &[usize] = if thorough { &[16, 33, 64, 100, 255, 256, 1024] } else { &[16, 33] };
    for nb in blocks {
        let sess = format!("sm3/edge{}", nb);
        let full = g.msg(nb * 64 + 2);
        for d in [-9i64, -8, -2, -1, 0, 1] {
            let len = (*nb as i64 * 64 + d) as usize;
            hash_event(t, &sess, Some(&g), &full[..len]);
        }
    }
}
