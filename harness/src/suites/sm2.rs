//! SM2 drivers: C03 (sign), C04 (verify faults), C05/C06 (encrypt/decrypt), C11, C14, C15, C19.
use crate::gen::{raw_json, Gen, Rng};
use crate::trace::{bytes, guard, guard_timed, Outcome, Tracer};
use gm_sm2::key::{Sm2Model, Sm2PrivateKey, Sm2PublicKey};
use gm_sm2::verif;
use serde_json::{json, Value};

pub const N_HEX: &str = "fffffffeffffffffffffffffffffffff7203df6b21c6052b53bbf40939d54123";
pub const P_HEX: &str = "fffffffeffffffffffffffffffffffffffffffff00000000ffffffffffffffff";

pub fn leak(s: &str) -> &'static str { Box::leak(s.to_string().into_boxed_str()) }
pub fn arr(v: &Value) -> Vec<u8> { v.as_array().map(|a| a.iter().map(|x| x.as_u64().unwrap() as u8).collect()).unwrap_or_default() }
fn b32(v: &[u8]) -> [u8; 32] { let mut a = [0u8; 32]; a.copy_from_slice(v); a }
pub fn read_plan(p: &Option<String>) -> Vec<Value> {
    match p { Some(p) => std::fs::read_to_string(p).expect("plan").lines().map(|l| serde_json::from_str(l).unwrap()).collect(), None => vec![] }
}
/// big-endian 32-byte integer helpers for building boundary inputs (input construction only)
pub fn be_add_small(x: &[u8], d: i64) -> Vec<u8> {
    let mut v = x.to_vec();
    let mut c = d;
    for i in (0..v.len()).rev() {
        let t = v[i] as i64 + c;
        v[i] = t.rem_euclid(256) as u8;
        c = t.div_euclid(256);
        if c == 0 { break; }
    }
    v
}
pub fn hexb(s: &str) -> Vec<u8> { hex::decode(s).unwrap() }
/// a - b for big-endian byte strings of equal length, a >= b (input construction only)
pub fn be_sub(a: &[u8], b: &[u8]) -> Vec<u8> {
    let mut v = a.to_vec();
    let mut borrow = 0i32;
    for i in (0..v.len()).rev() { let t = a[i] as i32 - b[i] as i32 - borrow; if t < 0 { v[i] = (t + 256) as u8; borrow = 1; } else { v[i] = t as u8; borrow = 0; } }
    v
}

fn msg_fields(f: &mut Value, g: Option<&Gen>, m: &[u8]) {
    f["len"] = json!(m.len());
    match g { Some(g) => { f["gen"] = g.json(); } None => { f["gen"] = raw_json(); f["raw"] = bytes(m); } }
}

pub struct Key { pub sk: Sm2PrivateKey, pub d: Vec<u8>, pub pk65: Vec<u8> }
pub fn key_from(d: &[u8]) -> Option<Key> {
    let sk = match guard(|| Sm2PrivateKey::new(d)) { Outcome::Ok(s) => s, _ => return None };
    let pk65 = sk.public_key.to_bytes(false);
    Some(Key { sk, d: d.to_vec(), pk65 })
}

/// sign under the RNG hook; `script` = candidates offered first (fixed nonce / injections)
fn sign_event(t: &mut Tracer, sess: &str, key: &Key, uid: &str, g: Option<&Gen>, msg: &[u8], script: Vec<[u8; 32]>) -> Option<Vec<u8>> {
    let sk = key.sk.clone();
    let uid_s = leak(uid);
    let m = msg.to_vec();
    let fixed = !script.is_empty();
    let out = guard_timed(20, move || {
        verif::rng_script(script);
        let _ = verif::rng_take_log();
        let r = sk.sign(Some(uid_s), &m);
        let log = verif::rng_take_log();
        verif::rng_script(vec![]);
        r.map(|s| (s, log))
    });
    let (sig, log) = match out.ok() { Some((s, l)) => (s.clone(), l.clone()), None => (vec![], vec![]) };
    let ks: Vec<Value> = log.iter().filter(|e| e.accepted).map(|e| bytes(&e.candidate)).collect();
    let mut f = json!({"prop": "C03", "d": bytes(&key.d), "uid": bytes(uid.as_bytes()), "mode": if fixed { "fixed" } else { "free" },
        "ks": ks, "sig": bytes(&sig), "outcome": out.name(), "detail": out.detail()});
    msg_fields(&mut f, g, msg);
    t.emit(sess, "sm2.sign", f);
    if sig.is_empty() { None } else { Some(sig) }
}

fn verify_event(t: &mut Tracer, sess: &str, prop: &str, pk65: &[u8], uid: &str, g: Option<&Gen>, msg: &[u8], sig: &[u8], fault: &str) {
    let out = match Sm2PublicKey::new(pk65) {
        Ok(pk) => { let u = leak(uid); let (pm, ps) = (crate::gen::realign(msg), crate::gen::realign(sig)); guard(|| pk.verify(Some(u), pm.get(), ps.get())) }
        Err(e) => Outcome::Err(format!("pk: {:?}", e)),
    };
    let mut f = json!({"prop": prop, "pk": bytes(pk65), "uid": bytes(uid.as_bytes()), "sig": bytes(sig), "fault": fault,
        "outcome": out.name(), "detail": out.detail()});
    msg_fields(&mut f, g, msg);
    t.emit(sess, "sm2.verify", f);
}

fn edge_keys(rng: &mut Rng, thorough: bool) -> Vec<Vec<u8>> {
    let n = hexb(N_HEX);
    let mut one = vec![0u8; 32]; one[31] = 1;
    let mut two = vec![0u8; 32]; two[31] = 2;
    let mut v = vec![one, two, be_add_small(&n, -2), hexb("3945208f7b2144b13f36e38ac6d39f95889393692860b51a42fb81ef4df7c5b8")];
    // sparse / dense limbs
    let mut sparse = vec![0u8; 32]; sparse[0] = 0x80; sparse[23] = 1;
    v.push(sparse);
    let mut dense = vec![0xffu8; 32]; dense[0] = 0x7f;
    v.push(dense);
    for _ in 0..(if thorough { 40 } else { 3 }) { let mut d = rng.bytes(32); d[0] &= 0x7f; v.push(d); }
    // 64-bit words that are all ones / 2^63 / 0x77..78 stacked on each other: carries between the words of a signed-window or Booth recoding of the scalar
    for k in limb_pattern_scalars().into_iter().take(if thorough { 8 } else { 2 }) { if k[0] < 0xf0 { v.push(k); } }
    v
}
/// scalars whose 64-bit words are taken from {all ones, 2^63, 0x7777777777777778, 0, 1, arbitrary}: recodings that carry from word to word
pub fn limb_pattern_scalars() -> Vec<Vec<u8>> {
    let w = |a: u64, b: u64, c: u64, d: u64| -> Vec<u8> { [a.to_be_bytes(), b.to_be_bytes(), c.to_be_bytes(), d.to_be_bytes()].concat() };
    let (f, h, s) = (u64::MAX, 1u64 << 63, 0x7777_7777_7777_7778u64);
    vec![w(0x1a2b3c4d5e6f7081, f, 0x9e3779b97f4a7c15, 0x0123456789abcdef), w(0x0fff_ffff_ffff_ffff, h, f, s), w(0x0123, f, f, f), w(0x7fff_ffff_ffff_ffff, f, f, s),
         w(1, 0, f, h), w(0x0a, s, f, 0), w(0x3333, f, s, f), w(0x5555_5555_5555_5555, h, h, h), w(f, f, f, f), w(0, 0, 0, f), w(0, f, 0, s), w(0x8888_8888_8888_8888, 0x8888_8888_8888_8888, f, 0x8888_8888_8888_8888)]
}

pub fn drive_sign(t: &mut Tracer, tier: &str, seed: u64, plan: Option<String>) {
    let thorough = tier == "thorough";
    let mut rng = Rng(seed ^ 0x5203);
    let mut n = 0u64;
    let mut sess = || { n += 1; format!("sm2sig/{}", n) };
    // (a) Annex A example with the scripted nonce
    let annex = key_from(&hexb("3945208f7b2144b13f36e38ac6d39f95889393692860b51a42fb81ef4df7c5b8")).unwrap();
    let kn = b32(&hexb("59276e27d506861a16680f3ad9c02dccef3cc1fa3cdbe4ce6d54b80deac1bc21"));
    if let Some(sig) = sign_event(t, &sess(), &annex, "1234567812345678", None, b"message digest", vec![kn]) {
        verify_event(t, &sess(), "C03", &annex.pk65, "1234567812345678", None, b"message digest", &sig, "none");
    }
    // (a2) a private key IMPORTED from a PKCS#8 document whose optional publicKey field is another key's point (or the negated point): if the import succeeds the key
    //      is the scalar d of the document and signs as d -- Z_A is computed from [d]G, whatever the document carried along
    {
        let (k1, k2) = (key_from(&{ let mut d = rng.bytes(32); d[0] &= 0x7f; d }).unwrap(), key_from(&{ let mut d = rng.bytes(32); d[0] &= 0x7f; d }).unwrap());
        if let Ok(doc) = k1.sk.to_pkcs8_der() {
            let base = doc.as_bytes().to_vec();
            if base.len() == 138 {
                let mut neg = k1.pk65.clone(); let ny = be_sub(&hexb(P_HEX), &k1.pk65[33..65]); neg[33..65].copy_from_slice(&ny);
                for (i, other) in [k2.pk65.clone(), neg, k1.pk65.clone()].iter().enumerate() {
                    let mut d2 = base.clone(); d2[73..138].copy_from_slice(other);
                    if let Outcome::Ok(sk) = guard(|| Sm2PrivateKey::from_pkcs8_der(&d2)) {
                        let imported = Key { sk, d: k1.d.clone(), pk65: k1.pk65.clone() };
                        let mut kk = rng.bytes(32); kk[0] &= 0x7f;
                        if let Some(sig) = sign_event(t, &sess(), &imported, ["imported", "1234567812345678", "x"][i], None, b"key imported from a document", vec![b32(&kk)]) {
                            verify_event(t, &sess(), "C03", &k1.pk65, ["imported", "1234567812345678", "x"][i], None, b"key imported from a document", &sig, "none");
                        }
                    }
                }
            }
        }
    }
    // (b) edge and random keys x IDs x message lengths; free nonce (recorded by the hook) and fixed boundary nonces
    let keys = edge_keys(&mut rng, thorough);
    let long_id: String = std::iter::repeat('A').take(8191).collect();
    // (IDs of 53 / 54 bytes put the Z_A hash input, 2 + |ID| + 192 bytes, at SM3's padding boundary 55 / 56 mod 64)
    let ids: Vec<String> = vec!["1234567812345678".into(), "".into(), "x".into(), "ALICE123@YAHOO.COM".into(), long_id, "i".repeat(53), "j".repeat(54),
        "\u{7528}\u{6237}A@\u{793a}\u{4f8b}.cn".into(), "caf\u{e9}-\u{101}\u{201}".into(),
        " padded ".into(), "line\n".into(), "\ttab".into(), "nul\0".into(), "\0".into(), "MiXeD-Case".into()];      // edge white space, NUL, letter case: hashed as they are      // non-ASCII identities: Z_A hashes the UTF-8 BYTES (ENTL = their bit length)
    let g = Gen::new("mix", rng.below(1 << 20));
    // (23 / 24 put the digest input Z_A || M, 32 + |M| bytes, at SM3's padding boundary)
    let lens: Vec<usize> = if thorough { vec![0, 1, 23, 24, 31, 32, 33, 55, 56, 64, 87, 100, 1000, 4096] } else { vec![0, 1, 23, 24, 32, 100, 700] };
    let nhex = hexb(N_HEX);
    let mut one = [0u8; 32]; one[31] = 1;
    for (ki, d) in keys.iter().enumerate() {
        let key = match key_from(d) { Some(k) => k, None => continue };
        for (j, len) in lens.iter().enumerate() {
            if !thorough && (ki + j) % 2 == 1 { continue; }
            let id = &ids[(ki + j) % ids.len()];
            let m = g.msg(*len);
            // free nonce
            if let Some(sig) = sign_event(t, &sess(), &key, id, Some(&g), &m, vec![]) {
                verify_event(t, &sess(), "C03", &key.pk65, id, Some(&g), &m, &sig, "none");
            }
            // fixed nonces: 1, n-1, random
            let script = match (ki + j) % 3 { 0 => one, 1 => b32(&be_add_small(&nhex, -1)), _ => { let mut k = rng.bytes(32); k[0] &= 0x7f; b32(&k) } };
            if let Some(sig) = sign_event(t, &sess(), &key, id, Some(&g), &m, vec![script]) {
                verify_event(t, &sess(), "C03", &key.pk65, id, Some(&g), &m, &sig, "none");
            }
        }
    }
    // (c) spec-made signatures (TLC plan): the library must accept them
    for v in read_plan(&plan) {
        if v["kind"] == "specsig" && v["ok"] == "ok" {
            let uid = String::from_utf8(arr(&v["uid"])).unwrap();
            verify_event(t, &sess(), "C03", &arr(&v["pk"]), &uid, None, &arr(&v["msg"]), &arr(&v["sig"]), "none");
        }
    }
    // (c2) digests crafted by the specification so that the first scripted nonce hits a retry branch (r = 0, r + k = n, s = 0)
    for v in read_plan(&plan) {
        if v["kind"] == "signretry" {
            let key = match key_from(&arr(&v["d"])) { Some(k) => k, None => continue };
            let e = arr(&v["e"]);
            let mut k2 = rng.bytes(32); k2[0] &= 0x7f;
            let script = vec![b32(&arr(&v["k"])), b32(&k2)];
            let (sk, e2) = (key.sk.clone(), e.clone());
            let (o, ks) = hooked(move || sk.verif_sign_digest(&e2), script);
            let sig = o.ok().cloned().unwrap_or_default();
            t.emit(&sess(), "sm2.sign_digest", json!({"prop": "C03", "d": bytes(&key.d), "e": bytes(&e), "mode": "fixed", "fault": v["fault"], "ks": ks.iter().map(|k| bytes(k)).collect::<Vec<_>>(),
                "sig": bytes(&sig), "outcome": o.name(), "detail": o.detail()}));
        }
    }
    // (c3) conforming signatures constructed by the specification at the digest level (t = r + s with all-zero 64-bit limbs ...): must be accepted
    for v in read_plan(&plan) {
        if v["kind"] == "forge" && v["valid"] == true && (v["fault"] == "sparse-t" || v["fault"] == "edge-valid" || v["fault"] == "big-e" || v["fault"] == "gen-key") {
            let (r, s) = (arr(&v["r"]), arr(&v["s"]));
            if r[0] != 0 || s[0] != 0 { continue; }
            verify_digest_event(t, &sess(), &arr(&v["pk"]), &arr(&v["e"]), &[r[1..].to_vec(), s[1..].to_vec()].concat(), v["fault"].as_str().unwrap());
        }
    }
    // (d) OpenSSL-made signatures (committed corpus)
    let base = concat!(env!("CARGO_MANIFEST_DIR"), "/../corpus/");
    if let (Ok(a), Ok(text)) = (std::fs::read_to_string(format!("{}anchors.json", base)), std::fs::read_to_string(format!("{}sm2_sig_openssl.ndjson", base))) {
        let a: Value = serde_json::from_str(&a).unwrap();
        let pk = hexb(a["sm2_openssl_key"]["public_uncompressed"].as_str().unwrap());
        for line in text.lines() {
            let v: Value = serde_json::from_str(line).unwrap();
            let uid = String::from_utf8(hexb(v["id"].as_str().unwrap())).unwrap();
            let mut sig = hexb(v["r"].as_str().unwrap());
            sig.extend_from_slice(&hexb(v["s"].as_str().unwrap()));
            verify_event(t, &sess(), "C03", &pk, &uid, None, &hexb(v["msg"].as_str().unwrap()), &sig, "none");
        }
    }
}

fn verify_digest_event(t: &mut Tracer, sess: &str, pk65: &[u8], e: &[u8], sig: &[u8], fault: &str) {
    let out = match Sm2PublicKey::new(pk65) {
        Ok(pk) => guard(|| pk.verif_verify_digest(e, sig)),
        Err(e) => Outcome::Err(format!("pk: {:?}", e)),
    };
    t.emit(sess, "sm2.verify_digest", json!({"prop": "C04", "pk": bytes(pk65), "e": bytes(e), "sig": bytes(sig), "fault": fault,
        "outcome": out.name(), "detail": out.detail()}));
}

pub fn drive_verify(t: &mut Tracer, tier: &str, seed: u64, plan: Option<String>) {
    let thorough = tier == "thorough";
    let mut rng = Rng(seed ^ 0x5204);
    let mut n = 0u64;
    let mut sess = || { n += 1; format!("sm2ver/{}", n) };
    let nsig = if thorough { 24 } else { 3 };
    let nhex = hexb(N_HEX);
    let g = Gen::new("mix", rng.below(1 << 20));
    for i in 0..nsig {
        let mut d = rng.bytes(32); d[0] &= 0x7f;
        let key = match key_from(&d) { Some(k) => k, None => continue };
        let uid = if i % 2 == 0 { "1234567812345678".to_string() } else { format!("signer-{}", i) };
        let m = g.msg(10 + (i * 37) % 200);
        let sk = key.sk.clone();
        let (u2, m2) = (leak(&uid), m.clone());
        let sig = match guard_timed(20, move || sk.sign(Some(u2), &m2)) { Outcome::Ok(s) => s, _ => continue };
        let ve = |t: &mut Tracer, s: String, sig: &[u8], fault: &str| verify_event(t, &s, "C04", &key.pk65, &uid, Some(&g), &m, sig, fault);
        ve(t, sess(), &sig, "none");
        // every single-bit flip of r || s
        for bit in 0..512 {
            if !thorough && i > 0 && bit % 7 != 0 { continue; }
            let mut s2 = sig.clone();
            s2[bit / 8] ^= 0x80 >> (bit % 8);
            ve(t, sess(), &s2, "bitflip");
        }
        // component substitutions
        let (r, s) = (sig[..32].to_vec(), sig[32..].to_vec());
        let zero = vec![0u8; 32];
        let ff = vec![0xffu8; 32];
        let subs: Vec<Vec<u8>> = vec![zero.clone(), nhex.clone(), be_add_small(&nhex, 1), ff.clone(), be_add_small(&nhex, -1)];
        for x in &subs {
            ve(t, sess(), &[x.clone(), s.clone()].concat(), "r-subst");
            ve(t, sess(), &[r.clone(), x.clone()].concat(), "s-subst");
        }
        ve(t, sess(), &[s.clone(), r.clone()].concat(), "swapped");
        // s = n - r (r + s = n): n - r computed bytewise
        let mut nr = vec![0u8; 32];
        let mut borrow = 0i32;
        for k in (0..32).rev() { let v = nhex[k] as i32 - r[k] as i32 - borrow; nr[k] = v.rem_euclid(256) as u8; borrow = if v < 0 { 1 } else { 0 }; }
        ve(t, sess(), &[r.clone(), nr].concat(), "s=n-r");
        // every length 0..=130 (prefixes of sig || extra)
        let ext = [sig.clone(), rng.bytes(66)].concat();
        for len in 0..=130usize {
            if len == 64 { continue; }
            if !thorough && i > 0 && len % 5 != 0 && len != 63 && len != 65 { continue; }
            ve(t, sess(), &ext[..len], "length");
        }
        // altered message / ID / key
        let mut m3 = m.clone(); if m3.is_empty() { m3.push(1) } else { m3[0] ^= 1; }
        verify_event(t, &sess(), "C04", &key.pk65, &uid, None, &m3, &sig, "altered-msg");
        verify_event(t, &sess(), "C04", &key.pk65, &uid, None, &[m.clone(), vec![0]].concat(), &sig, "altered-msg");
        verify_event(t, &sess(), "C04", &key.pk65, &format!("{}x", uid), Some(&g), &m, &sig, "altered-id");
        // identities that differ only by edge white space, a trailing NUL, or letter case: different byte strings, so different Z_A
        for alt in [format!("{} ", uid), format!(" {}", uid), format!("{}\n", uid), format!("{}\t", uid), format!("{}\0", uid), uid.to_uppercase(), uid.trim().to_string()] {
            if alt != uid { verify_event(t, &sess(), "C04", &key.pk65, &alt, Some(&g), &m, &sig, "altered-id-edge"); }
        }
        // the empty identity and the default identity are DIFFERENT identities (ENTL = 0 vs 128 bits)
        if uid == "1234567812345678" { verify_event(t, &sess(), "C04", &key.pk65, "", Some(&g), &m, &sig, "altered-id"); }
        {
            let (sk2, m2) = (key.sk.clone(), m.clone());
            if let Outcome::Ok(sig_e) = guard_timed(20, move || sk2.sign(Some(""), &m2)) {
                verify_event(t, &sess(), "C04", &key.pk65, "1234567812345678", Some(&g), &m, &sig_e, "altered-id");
                let (pk2, m3, se) = (key.sk.public_key.clone(), m.clone(), sig_e.clone());
                let o = guard(|| pk2.verify(None, &m3, &se));
                t.emit(&sess(), "sm2.verify", { let mut f = json!({"prop": "C04", "pk": bytes(&key.pk65), "uid": bytes(b"1234567812345678"), "sig": bytes(&sig_e), "fault": "altered-id", "outcome": o.name(), "detail": o.detail()}); msg_fields(&mut f, Some(&g), &m); f });
            }
        }
        let mut d2 = rng.bytes(32); d2[0] &= 0x7f;
        if let Some(k2) = key_from(&d2) { verify_event(t, &sess(), "C04", &k2.pk65, &uid, Some(&g), &m, &sig, "altered-key"); }
        // random pairs
        for _ in 0..(if thorough { 20 } else { 4 }) { ve(t, sess(), &rng.bytes(64), "random"); }
    }
    // crafted digest-level cases from the TLC plan
    for v in read_plan(&plan) {
        if v["kind"] == "forge" {
            let (r, s) = (arr(&v["r"]), arr(&v["s"]));
            if r[0] != 0 || s[0] != 0 { continue; }     // must fit 32 bytes (the plan guarantees it; near-miss values >= 2^256 cannot occur)
            let sig = [r[1..].to_vec(), s[1..].to_vec()].concat();
            verify_digest_event(t, &sess(), &arr(&v["pk"]), &arr(&v["e"]), &sig, v["fault"].as_str().unwrap());
        }
    }
}

// ---------------------------------------------------------------- C05 / C06
fn model_of(order: &str) -> Sm2Model { if order == "c1c2c3" { Sm2Model::C1C2C3 } else { Sm2Model::C1C3C2 } }

fn encrypt_event(t: &mut Tracer, sess: &str, key: &Key, g: Option<&Gen>, msg: &[u8], order: &'static str, compressed: bool, script: Vec<[u8; 32]>) -> Option<Vec<u8>> {
    let pk = key.sk.public_key.clone();
    let m = msg.to_vec();
    let out = guard_timed(20, move || {
        verif::rng_script(script);
        let _ = verif::rng_take_log();
        let r = pk.encrypt(&m, compressed, model_of(order));
        let log = verif::rng_take_log();
        verif::rng_script(vec![]);
        r.map(|c| (c, log))
    });
    let (ct, log) = match out.ok() { Some((c, l)) => (c.clone(), l.clone()), None => (vec![], vec![]) };
    let ks: Vec<Value> = log.iter().filter(|e| e.accepted).map(|e| bytes(&e.candidate)).collect();
    let mut f = json!({"prop": "C05", "pk": bytes(&key.pk65), "order": order, "compressed": if compressed { 1 } else { 0 }, "ks": ks,
        "ct": bytes(&ct), "outcome": out.name(), "detail": out.detail()});
    msg_fields(&mut f, g, msg);
    t.emit(sess, "sm2.encrypt", f);
    if ct.is_empty() { None } else { Some(ct) }
}

fn decrypt_event(t: &mut Tracer, sess: &str, prop: &str, d: &[u8], ct: &[u8], order: &str, compressed: bool, fault: &str) {
    let out = match guard(|| Sm2PrivateKey::new(d)) {
        Outcome::Ok(sk) => { let (c, o) = (crate::gen::realign(ct), order.to_string()); guard_timed(20, move || sk.decrypt(c.get(), compressed, model_of(&o))) }
        Outcome::Err(e) => Outcome::Err(e), Outcome::Panic(p) => Outcome::Panic(p), Outcome::Timeout => Outcome::Timeout,
    };
    let o = out.ok().cloned().unwrap_or_default();
    t.emit(sess, "sm2.decrypt", json!({"prop": prop, "d": bytes(d), "ct": bytes(ct), "order": order, "compressed": if compressed { 1 } else { 0 },
        "fault": fault, "out": bytes(&o), "outcome": out.name(), "detail": out.detail()}));
}

pub fn drive_encrypt(t: &mut Tracer, tier: &str, seed: u64, plan: Option<String>) {
    let thorough = tier == "thorough";
    let mut rng = Rng(seed ^ 0x5205);
    let mut n = 0u64;
    let mut sess = || { n += 1; format!("sm2enc/{}", n) };
    let orders: [&'static str; 2] = ["c1c2c3", "c1c3c2"];
    // Annex example (fixed k, C1C3C2, uncompressed)
    let annex = key_from(&hexb("3945208f7b2144b13f36e38ac6d39f95889393692860b51a42fb81ef4df7c5b8")).unwrap();
    let kn = b32(&hexb("59276e27d506861a16680f3ad9c02dccef3cc1fa3cdbe4ce6d54b80deac1bc21"));
    if let Some(ct) = encrypt_event(t, &sess(), &annex, None, b"encryption standard", "c1c3c2", false, vec![kn]) {
        decrypt_event(t, &sess(), "C05", &annex.d, &ct, "c1c3c2", false, "own-ciphertext");
    }
    // message lengths x formats
    let lens: Vec<usize> = if thorough { (1..=300).collect() } else { vec![1, 2, 31, 32, 33, 55, 56, 63, 64, 65, 96, 119, 120, 127, 128, 255, 256, 300] };   // 55 / 56 / 119 / 120: the C3 input x2 || M || y2 at SM3's padding boundary
    let g = Gen::new("mix", rng.below(1 << 20));
    let keys = edge_keys(&mut rng, false);
    for (i, len) in lens.iter().enumerate() {
        let key = match key_from(&keys[i % keys.len()]) { Some(k) => k, None => continue };
        let m = g.msg(*len);
        for f in 0..4 {
            if !thorough && (i + f) % 2 == 1 { continue; }
            let (order, comp) = (orders[f % 2], f >= 2);
            let script = if (i + f) % 3 == 0 { let mut k = rng.bytes(32); k[0] &= 0x7f; vec![b32(&k)] } else { vec![] };
            if let Some(ct) = encrypt_event(t, &sess(), &key, Some(&g), &m, order, comp, script) {
                decrypt_event(t, &sess(), "C05", &key.d, &ct, order, comp, "own-ciphertext");
            }
        }
    }
    // leading-zero and all-zero messages, longer random messages
    let key = key_from(&keys[3]).unwrap();
    // the ends of the nonce range and its neighbours: k = 1, 2, n-2, n-1 (C1 = G, 2G, -2G, -G), both encodings
    for (i, k) in [be_add_small(&vec![0u8; 32], 1), be_add_small(&vec![0u8; 32], 2), be_add_small(&hexb(N_HEX), -2), be_add_small(&hexb(N_HEX), -1)].iter().enumerate() {
        for comp in [false, true] {
            if let Some(ct) = encrypt_event(t, &sess(), &key, None, b"nonce at the end of its range", orders[i % 2], comp, vec![b32(k)]) {
                decrypt_event(t, &sess(), "C05", &key.d, &ct, orders[i % 2], comp, "own-ciphertext");
            }
        }
    }
    for m in [vec![0u8; 1], vec![0u8; 32], vec![0u8; 45], vec![0, 0, 0, 7, 9], vec![0, 255]] {
        if let Some(ct) = encrypt_event(t, &sess(), &key, None, &m, "c1c3c2", false, vec![]) {
            decrypt_event(t, &sess(), "C05", &key.d, &ct, "c1c3c2", false, "own-ciphertext");
        }
    }
    for _ in 0..(if thorough { 40 } else { 3 }) {
        let len = 300 + rng.below(if thorough { 4000 } else { 700 }) as usize;
        let gg = Gen::new("mix", rng.below(1 << 20));
        let f = rng.below(4) as usize;
        if let Some(ct) = encrypt_event(t, &sess(), &key, Some(&gg), &gg.msg(len), orders[f % 2], f >= 2, vec![]) {
            decrypt_event(t, &sess(), "C05", &key.d, &ct, orders[f % 2], f >= 2, "own-ciphertext");
        }
    }
    // the top of the property's length range (2^16 bytes): raw and as the GM/T 0009 SEQUENCE (its length octets change form at 65536)
    {
        // (each such event costs the specification about a minute: 5 000 SM3 compressions; quick tier: one message, as the DER SEQUENCE only)
        let lens: Vec<usize> = if thorough { vec![65400, 65432, 65500, 65535, 65536] } else { vec![65536] };
        for (i, len) in lens.iter().enumerate() {
            let gg = Gen::new("mix", rng.below(1 << 20));
            let m = gg.msg(*len);
            let mut k = rng.bytes(32); k[0] &= 0x7f;
            if thorough {
                if let Some(ct) = encrypt_event(t, &sess(), &key, Some(&gg), &m, orders[i % 2], false, vec![b32(&k)]) {
                    decrypt_event(t, &sess(), "C05", &key.d, &ct, orders[i % 2], false, "own-ciphertext");
                }
            }
            asn1_enc_event_p(t, &sess(), "C05", &key, &m, vec![b32(&k)], "long", false, "c1c3c2");
        }
    }
    // a message longer than 255 KDF blocks (the 32-bit counter's second byte comes into play)
    {
        let gg = Gen::new("mix", rng.below(1 << 20));
        let len = 8161 + rng.below(if thorough { 20000 } else { 600 }) as usize;
        if let Some(ct) = encrypt_event(t, &sess(), &key, Some(&gg), &gg.msg(len), "c1c3c2", false, vec![]) {
            decrypt_event(t, &sess(), "C05", &key.d, &ct, "c1c3c2", false, "own-ciphertext");
        }
    }
    // weak "t is all zero" tests: nonces whose key stream t = KDF(x2||y2, |M|) is NOT all zero but folds to zero (XOR of the bytes, sum of the
    // bytes, first byte, last byte).  Found by search with the library's own primitives (input construction); the specification judges:
    // the ciphertext for that nonce must be produced (no spurious retry) and a ciphertext built for it must decrypt.
    {
        let key = key_from(&keys[3]).unwrap();
        let pkp = key.sk.public_key.value().clone();
        let pats: [(&str, fn(&[u8]) -> bool); 4] = [("xor", |t| t.iter().fold(0u8, |a, b| a ^ b) == 0), ("sum", |t| t.iter().fold(0u8, |a, b| a.wrapping_add(*b)) == 0),
            ("first", |t| t[0] == 0), ("last", |t| t[t.len() - 1] == 0)];
        for (pi, (_name, pat)) in pats.iter().enumerate() {
            let mlen = 2 + pi;
            let mut found = None;
            for i in 1..20000u64 {
                let k: U256 = [i * 7919 + pi as u64, 0x1234_5678_9abc_def0, 0x0fed_cba9_8765_4321 ^ i, 0x1357_9bdf_0246_8ace];
                let s = pkp.scalar_mul(&k).to_byte_be(false);
                let t = gm_sm2::util::kdf(&s[1..65], mlen);
                if pat(&t) && t.iter().any(|b| *b != 0) { found = Some((k, s, t)); break; }
            }
            if let Some((k, s, tt)) = found {
                let m: Vec<u8> = (0..mlen).map(|j| 0x41 + j as u8).collect();
                // (1) the library's encryption with this nonce scripted
                if let Some(ct) = encrypt_event(t, &sess(), &key, None, &m, "c1c3c2", false, vec![b32(&u256_be(&k))]) {
                    decrypt_event(t, &sess(), "C05", &key.d, &ct, "c1c3c2", false, "own-ciphertext");
                }
                // (2) a ciphertext for this nonce assembled from primitives (as an independent encryptor would send it)
                let c1 = g_mul(&k).to_byte_be(false);
                let c2: Vec<u8> = m.iter().zip(tt.iter()).map(|(a, b)| a ^ b).collect();
                let c3 = gm_sm3::sm3_hash(&[&s[1..33], &m[..], &s[33..65]].concat());
                let ct = [c1, c3.to_vec(), c2].concat();
                decrypt_event(t, &sess(), "C05", &key.d, &ct, "c1c3c2", false, "weak-zero");
            }
        }
    }
    // the key stream t is ALL zero (1-byte message): a conforming encryptor draws another nonce (A5), and a ciphertext assembled for that
    // nonce anyway is refused by decryption (B4)
    {
        let key = key_from(&keys[3]).unwrap();
        let pkp = key.sk.public_key.value().clone();
        let mut found = None;
        for i in 1..6000u64 {
            let k: U256 = [i * 104729 + 3, 0x0f1e_2d3c_4b5a_6978, 0x1122_3344_5566_7788 ^ i, 0x2468_ace0_1357_9bdf];
            let s = pkp.scalar_mul(&k).to_byte_be(false);
            if gm_sm2::util::kdf(&s[1..65], 1)[0] == 0 { found = Some((k, s)); break; }
        }
        if let Some((k, s)) = found {
            let m = vec![0x5au8];
            let k2 = { let mut x = rng.bytes(32); x[0] &= 0x7f; b32(&x) };
            if let Some(ct) = encrypt_event(t, &sess(), &key, None, &m, "c1c3c2", false, vec![b32(&u256_be(&k)), k2]) {
                decrypt_event(t, &sess(), "C05", &key.d, &ct, "c1c3c2", false, "own-ciphertext");
            }
            let c1 = g_mul(&k).to_byte_be(false);
            let c3 = gm_sm3::sm3_hash(&[&s[1..33], &m[..], &s[33..65]].concat());
            decrypt_event(t, &sess(), "C05", &key.d, &[c1, c3.to_vec(), m.clone()].concat(), "c1c3c2", false, "all-zero-t");
        }
    }
    // KDF unit events
    // beyond 255 KDF blocks (counter byte carry at 8160 bytes) as well
    let mut klens: Vec<usize> = if thorough { (1..=300).collect() } else { vec![1, 31, 32, 33, 63, 64, 65, 95, 96, 97, 128, 200, 256, 300] };
    klens.extend(if thorough { vec![8159, 8160, 8161, 8192, 8193, 12000, 16385, 20000] } else { vec![8160, 8161, 8225] });
    for klen in klens {
        let z = rng.bytes(64);
        let out = guard(|| Ok::<_, String>(gm_sm2::util::kdf(&z, klen)));
        let o = out.ok().cloned().unwrap_or_default();
        t.emit(&sess(), "sm2.kdf", json!({"prop": "C05", "z": bytes(&z), "klen": klen, "out": bytes(&o), "outcome": out.name(), "detail": out.detail()}));
    }
    // spec-made ciphertexts (TLC plan): the library must decrypt them -- in the raw framing and, as an independent encryptor such as
    // OpenSSL delivers them, as the GM/T 0009 DER SEQUENCE
    for v in read_plan(&plan) {
        if v["kind"] == "specct" && v["ok"] == "ok" {
            decrypt_event(t, &sess(), "C05", &arr(&v["d"]), &arr(&v["ct"]), v["order"].as_str().unwrap(), v["compressed"] == 1, "spec-made");
            if v["compressed"] == 0 { der_decrypt_event(t, &sess(), "C05", &arr(&v["d"]), &arr(&v["ct"]), v["order"].as_str().unwrap(), "interop"); }
        }
        // a nonce the specification searched for: its key stream for a one-byte message is 00, so step A5 goes back to A1 -- the ciphertext must be
        // exactly the one of the SECOND scripted nonce (nothing of the discarded attempt may leak into it)
        if v["kind"] == "encretry" && v["found"] == 1 {
            if let Some(key) = key_from(&arr(&v["d"])) {
                for (i, m) in [[0x5au8], [0x00u8]].iter().enumerate() {
                    let mut k2 = rng.bytes(32); k2[0] &= 0x7f;
                    if let Some(ct) = encrypt_event(t, &sess(), &key, None, m, orders[i % 2], i == 1, vec![b32(&arr(&v["kbad"])), b32(&k2)]) {
                        decrypt_event(t, &sess(), "C05", &key.d, &ct, orders[i % 2], i == 1, "own-ciphertext");
                    }
                }
            }
        }
        // ... and the specification's ciphertexts for VALID points that it solved for (tiny x, x = 0, x^2 / x^2 + a / y^2 on a reduction boundary of
        // the word arithmetic): ciphertexts an honest sender can produce, so they must decrypt (the invalid ones of the same plan belong to C06)
        let fault = v["fault"].as_str().unwrap_or("");
        if v["kind"] == "craft" && (fault.starts_with("valid") || fault.starts_with("comp-valid") || fault == "x=0-valid") {
            decrypt_event(t, &sess(), "C05", &arr(&v["d"]), &arr(&v["ct"]), v["order"].as_str().unwrap(), v["compressed"] == 1, fault);
        }
    }
    // ephemeral scalars whose C1 has leading zero bytes in x or y (the DER INTEGER is shorter than 32 bytes): encrypt under the script,
    // re-frame as DER, decrypt through the DER entry point
    let key = key_from(&keys[0]).unwrap();
    let mut ks: Vec<[u8; 32]> = vec![b32(&hexb("5e00711dcecea98cdf20e3820067019b0b56766bab3f7c379adb20d426ca8d0f")), b32(&hexb("7b3b4f0229243dd52ea81dc91439d4611b5ee9fce711bd355a0bf02924bffee8"))];
    for want_y in [false, true] { if let Some(k) = search_k(&mut rng, want_y, 1, 20000) { ks.push(k); } }
    for k in ks {
        if let Some(ct) = encrypt_event(t, &sess(), &key, None, b"short coordinate", "c1c3c2", false, vec![k]) {
            der_decrypt_event(t, &sess(), "C05", &key.d, &ct, "c1c3c2", "interop-short-coord");
        }
    }
}

fn tlv(tag: u8, v: &[u8]) -> Vec<u8> { let mut o = vec![tag]; if v.len() < 128 { o.push(v.len() as u8); } else if v.len() < 256 { o.push(0x81); o.push(v.len() as u8); } else { o.push(0x82); o.push((v.len() >> 8) as u8); o.push(v.len() as u8); } o.extend_from_slice(v); o }
fn der_int(v: &[u8]) -> Vec<u8> { let mut i = 0; while i + 1 < v.len() && v[i] == 0 { i += 1; } let mut b = v[i..].to_vec(); if b[0] >= 0x80 { b.insert(0, 0); } b }
/// re-frame a raw uncompressed ciphertext as SEQUENCE { INTEGER x, INTEGER y, OCTET STRING C3, OCTET STRING C2 } and decrypt it through decrypt_asn1
fn der_decrypt_event(t: &mut Tracer, sess: &str, prop: &str, d: &[u8], ct: &[u8], order: &str, fault: &str) {
    if ct.len() <= 97 { return; }
    let (c2, c3) = if order == "c1c2c3" { (ct[65..ct.len() - 32].to_vec(), ct[ct.len() - 32..].to_vec()) } else { (ct[97..].to_vec(), ct[65..97].to_vec()) };
    let der = tlv(0x30, &[tlv(2, &der_int(&ct[1..33])), tlv(2, &der_int(&ct[33..65])), tlv(4, &c3), tlv(4, &c2)].concat());
    let out = match guard(|| Sm2PrivateKey::new(d)) {
        Outcome::Ok(sk) => { let c = der.clone(); guard_timed(20, move || sk.decrypt_asn1(&c, false, Sm2Model::C1C3C2)) }
        Outcome::Err(e) => Outcome::Err(e), Outcome::Panic(p) => Outcome::Panic(p), Outcome::Timeout => Outcome::Timeout,
    };
    let o = out.ok().cloned().unwrap_or_default();
    t.emit(sess, "codec.asn1_dec", json!({"prop": prop, "d": bytes(d), "der": bytes(&der), "fault": fault, "out": bytes(&o), "outcome": out.name(), "detail": out.detail()}));
}

pub fn drive_decrypt_faults(t: &mut Tracer, tier: &str, seed: u64, plan: Option<String>) {
    let thorough = tier == "thorough";
    let mut rng = Rng(seed ^ 0x5206);
    let mut n = 0u64;
    let mut sess = || { n += 1; format!("sm2dec/{}", n) };
    let orders: [&'static str; 2] = ["c1c2c3", "c1c3c2"];
    let nct = if thorough { 12 } else { 2 };
    // (the last three ciphertexts use the scripted nonces 1, n-1 and 2: C1 = G, -G, 2G -- base points a fixed-base shortcut could key on)
    let special_k: Vec<Vec<u8>> = vec![be_add_small(&vec![0u8; 32], 1), be_add_small(&hexb(N_HEX), -1), be_add_small(&vec![0u8; 32], 2)];
    for i in 0..(nct + special_k.len()) {
        let mut d = rng.bytes(32); d[0] &= 0x7f;
        let key = match key_from(&d) { Some(k) => k, None => continue };
        let (order, comp) = (orders[i % 2], (i / 2) % 2 == 1);
        let len = 1 + rng.below(40) as usize;
        let m = rng.bytes(len);
        let pk = key.sk.public_key.clone();
        let m2 = m.clone();
        let script: Vec<[u8; 32]> = if i >= nct { vec![b32(&special_k[i - nct])] } else { vec![] };
        let ct = match hooked(move || pk.encrypt(&m2, comp, model_of(order)), script).0 { Outcome::Ok(c) => c, _ => continue };
        decrypt_event(t, &sess(), "C06", &key.d, &ct, order, comp, "untouched");
        // every single-bit flip
        for bit in 0..(ct.len() * 8) {
            let mut c2 = ct.clone();
            c2[bit / 8] ^= 0x80 >> (bit % 8);
            let c1len = if comp { 33 } else { 65 };
            let region = if bit / 8 == 0 { "flip-prefix" } else if bit / 8 < c1len { "flip-c1" } else { "flip-body" };
            decrypt_event(t, &sess(), "C06", &key.d, &c2, order, comp, region);
        }
        // every truncation length
        for len in 0..ct.len() {
            if !thorough && i > 0 && len % 4 != 0 { continue; }
            decrypt_event(t, &sess(), "C06", &key.d, &ct[..len], order, comp, "truncated");
        }
        // alterations of C3 that keep its XOR / byte sum (a folding comparison does not see them): byte swap, same bit in two bytes
        {
            let c1len = if comp { 33 } else { 65 };
            let c3at = if order == "c1c3c2" { c1len } else { ct.len() - 32 };
            for rep in 0..(if thorough { 16 } else { 4 }) {
                let mut c2 = ct.clone();
                let (i, mut j) = (rng.below(32) as usize, rng.below(32) as usize);
                if rep % 2 == 0 { while c2[c3at + j] == c2[c3at + i] { j = (j + 1) % 32; if j == i { break; } } c2.swap(c3at + i, c3at + j); }
                else { if j == i { j = (i + 1) % 32; } let b = 1u8 << rng.below(8); c2[c3at + i] ^= b; c2[c3at + j] ^= b; }
                if c2 != ct { decrypt_event(t, &sess(), "C06", &key.d, &c2, order, comp, "fold-c3"); }
            }
        }
        // the tag byte of C1 replaced by EVERY other value while the rest of the ciphertext stays as it is (a single bit flip reaches only 8 of them):
        // in particular 02 / 03 in front of an uncompressed C1 -- x is still there, a decoder that reads "compressed point, then something" accepts it --
        // and 04 in front of a compressed one
        for tag in 0..=255u8 {
            if tag == ct[0] || (!thorough && i > 0 && !(tag <= 8 || tag % 32 == 0)) { continue; }
            let mut c2 = ct.clone(); c2[0] = tag;
            decrypt_event(t, &sess(), "C06", &key.d, &c2, order, comp, "retag");
            if !comp && (tag == 2 || tag == 3) { let mut c3 = c2.clone(); for b in c3[33..65].iter_mut() { *b = rng.below(256) as u8; } decrypt_event(t, &sess(), "C06", &key.d, &c3, order, comp, "retag-junk-y"); }
        }
        // C1 replaced by -C1 (a valid curve point, another point): y -> p - y, resp. the other compression tag
        {
            let mut c2 = ct.clone();
            if comp { c2[0] ^= 1; } else { let ny = be_sub(&hexb(P_HEX), &ct[33..65]); c2[33..65].copy_from_slice(&ny); }
            decrypt_event(t, &sess(), "C06", &key.d, &c2, order, comp, "negate-c1");
        }
        // wrong format flags, extension, other key
        decrypt_event(t, &sess(), "C06", &key.d, &ct, order, !comp, "wrong-encoding-flag");
        decrypt_event(t, &sess(), "C06", &key.d, &ct, orders[(i + 1) % 2], comp, "wrong-order");
        decrypt_event(t, &sess(), "C06", &key.d, &[ct.clone(), vec![0]].concat(), order, comp, "extended");
        let mut d2 = rng.bytes(32); d2[0] &= 0x7f;
        decrypt_event(t, &sess(), "C06", &d2, &ct, order, comp, "other-key");
        // forgeries that need no key if a degenerate C1 passes the curve test: C1 = (0,0) (also (0,1), (1,0)) with the shared point taken as
        // (0,0) -- C2 = M xor KDF(0^64), C3 = SM3(0^32 || M || 0^32) -- in both raw orders and in the DER framing
        if !comp {
            for (fx, fy) in [(0u8, 0u8), (0, 1), (1, 0)] {
                let mut c1 = vec![0u8; 65]; c1[0] = 4; c1[32] = fx; c1[64] = fy;
                let fm = b"forged without a key".to_vec();
                let k = gm_sm2::util::kdf(&[0u8; 64], fm.len());
                let c2: Vec<u8> = fm.iter().zip(k.iter()).map(|(a, b)| a ^ b).collect();
                let c3 = gm_sm3::sm3_hash(&[&[0u8; 32][..], &fm[..], &[0u8; 32][..]].concat()).to_vec();
                let raw = if order == "c1c3c2" { [c1.clone(), c3.clone(), c2.clone()].concat() } else { [c1.clone(), c2.clone(), c3.clone()].concat() };
                decrypt_event(t, &sess(), "C06", &key.d, &raw, order, false, "c1-zero-forged");
                der_decrypt_event(t, &sess(), "C06", &key.d, &raw, order, "c1-zero-forged");
            }
        }
        // C1 replaced by random (off-curve) coordinates, by the zero point, by all-ones
        if !comp {
            for rep in 0..4 {
                let mut c2 = ct.clone();
                let r: Vec<u8> = match rep { 0 => rng.bytes(64), 1 => vec![0u8; 64], 2 => vec![0xffu8; 64], _ => { let mut v = ct[1..65].to_vec(); v[63] ^= 1; v } };
                c2[1..65].copy_from_slice(&r);
                decrypt_event(t, &sess(), "C06", &key.d, &c2, order, comp, "c1-replaced");
            }
        }
    }
    // crafted ciphertexts from the TLC plan (valid C3 for the point the library would compute): through the raw entry point and,
    // for the uncompressed ones, re-framed as the GM/T 0009 DER SEQUENCE through decrypt_asn1 (every decryption path must validate C1)
    let tlv = |tag: u8, v: &[u8]| -> Vec<u8> { let mut o = vec![tag]; if v.len() < 128 { o.push(v.len() as u8); } else if v.len() < 256 { o.push(0x81); o.push(v.len() as u8); } else { o.push(0x82); o.push((v.len() >> 8) as u8); o.push(v.len() as u8); } o.extend_from_slice(v); o };
    let der_int = |v: &[u8]| -> Vec<u8> { let mut i = 0; while i + 1 < v.len() && v[i] == 0 { i += 1; } let mut b = v[i..].to_vec(); if b[0] >= 0x80 { b.insert(0, 0); } b };
    for v in read_plan(&plan) {
        if v["kind"] == "craft" {
            let (ct, order, fault) = (arr(&v["ct"]), v["order"].as_str().unwrap().to_string(), v["fault"].as_str().unwrap().to_string());
            decrypt_event(t, &sess(), "C06", &arr(&v["d"]), &ct, &order, v["compressed"] == 1, &fault);
            if v["compressed"] == 0 && ct.len() > 97 {
                let (c2, c3) = if order == "c1c2c3" { (ct[65..ct.len() - 32].to_vec(), ct[ct.len() - 32..].to_vec()) } else { (ct[97..].to_vec(), ct[65..97].to_vec()) };
                let body = [tlv(2, &der_int(&ct[1..33])), tlv(2, &der_int(&ct[33..65])), tlv(4, &c3), tlv(4, &c2)].concat();
                let der = tlv(0x30, &body);
                let d = arr(&v["d"]);
                let out = match guard(|| Sm2PrivateKey::new(&d)) {
                    Outcome::Ok(sk) => { let c = der.clone(); guard_timed(20, move || sk.decrypt_asn1(&c, false, Sm2Model::C1C3C2)) }
                    Outcome::Err(e) => Outcome::Err(e), Outcome::Panic(p) => Outcome::Panic(p), Outcome::Timeout => Outcome::Timeout,
                };
                let o = out.ok().cloned().unwrap_or_default();
                t.emit(&sess(), "codec.asn1_dec", json!({"prop": "C06", "d": bytes(&d), "der": bytes(&der), "fault": format!("{}", fault), "out": bytes(&o), "outcome": out.name(), "detail": out.detail()}));
            }
        }
    }
}

// ---------------------------------------------------------------- C15 key agreement
use gm_sm2::exchange::Exchange;
use gm_sm2::p256_ecc::{g_mul, Point};
use gm_sm2::u256::U256;

pub fn u256_be(a: &U256) -> Vec<u8> { let mut v = vec![]; for i in (0..4).rev() { v.extend_from_slice(&a[i].to_be_bytes()); } v }
pub fn be_u256(b: &[u8]) -> U256 { let mut a = [0u64; 4]; for i in 0..4 { a[3 - i] = u64::from_be_bytes(b[i * 8..i * 8 + 8].try_into().unwrap()); } a }
pub fn pt_json(p: &Point) -> Value { json!({"x": bytes(&u256_be(&p.x)), "y": bytes(&u256_be(&p.y)), "z": bytes(&u256_be(&p.z))}) }
/// (lambda^2 X, lambda^3 Y, lambda Z): another representation of the same point (input construction through the hook wrappers)
pub fn rerandomize(p: &Point, lam: &U256) -> Point {
    let l2 = verif::fp_mont_mul(lam, lam);
    let l3 = verif::fp_mont_mul(&l2, lam);
    Point { x: verif::fp_mont_mul(&p.x, &l2), y: verif::fp_mont_mul(&p.y, &l3), z: verif::fp_mont_mul(&p.z, lam) }
}
fn tamper_point(p: &Point, kind: &str, rng: &mut Rng) -> Point {
    match kind {
        "other" => { let mut k = rng.bytes(32); k[0] &= 0x7f; g_mul(&be_u256(&k)) }
        "offcurve" => { let mut q = *p; q.y[0] ^= 1; q }
        "infinity" => Point::zero(),
        "bitflip" => { let mut q = *p; q.x[1] ^= 1 << 17; q }
        _ => { let mut l = rng.bytes(32); l[0] &= 0x7f; l[31] |= 1; rerandomize(p, &verif::fp_to_mont(&be_u256(&l))) }
    }
}
fn tamper_hash(h: &[u8; 32], kind: &str, rng: &mut Rng) -> [u8; 32] {
    // one alteration family per tamper kind, chosen so that weak comparisons are exposed as well as missing ones:
    // full replacement, a byte swap and a double bit flip (both keep the XOR / sum of the bytes), a single flip at a random position
    let mut o = *h;
    match kind {
        "other" => { o = b32(&rng.bytes(32)); }
        "offcurve" => { let (i, mut j) = (rng.below(32) as usize, rng.below(32) as usize); while o[j] == o[i] { j = (j + 1) % 32; if j == i { o[j] ^= 1; break; } } o.swap(i, j); }
        "infinity" => { let (i, j, b) = (rng.below(16) as usize, 16 + rng.below(16) as usize, 1u8 << rng.below(8)); o[i] ^= b; o[j] ^= b; }
        "rerand" => {}
        _ => { let i = rng.below(256) as usize; o[i / 8] ^= 0x80 >> (i % 8); }
    }
    o
}
fn hooked<T: Send + 'static>(f: impl FnOnce() -> gm_sm2::error::Sm2Result<T> + Send + 'static, script: Vec<[u8; 32]>) -> (Outcome<T>, Vec<Vec<u8>>) {
    // the accepted draws are reported whatever the outcome of the call (a step that fails after drawing its scalar is still judged from that scalar)
    let out = guard_timed(20, move || {
        verif::rng_script(script);
        let _ = verif::rng_take_log();
        let r = crate::trace::guard(f);
        let log = verif::rng_take_log();
        verif::rng_script(vec![]);
        Ok::<_, String>((r, log))
    });
    match out {
        Outcome::Ok((r, log)) => (r, log.iter().filter(|e| e.accepted).map(|e| e.candidate.to_vec()).collect()),
        Outcome::Err(e) => (Outcome::Err(e), vec![]), Outcome::Panic(e) => (Outcome::Panic(e), vec![]), Outcome::Timeout => (Outcome::Timeout, vec![]),
    }
}

struct KxRun { t_ra: bool, t_rb: bool, t_sb: bool, t_sa: bool, kind: String, klen: usize, ida: String, idb: String, ra_script: Vec<[u8; 32]>, rb_script: Vec<[u8; 32]>, da: Vec<u8>, db: Vec<u8>, forge: Option<(Vec<u8>, Vec<u8>, Vec<u8>)>, none_mask: u8 }

fn kx_run(t: &mut Tracer, sess: &str, run: &KxRun, rng: &mut Rng) {
    use std::sync::{Arc, Mutex};
    // none_mask bit 7 (128): the two parties are built by the public helper build_ex_pair (it draws both key pairs itself -- here from the scripted candidates
    // da, db; the keys actually drawn are read back from the sampler log) instead of Exchange::new
    let mut pair: Option<(Exchange, Exchange)> = None;
    let (mut da_used, mut db_used) = (run.da.clone(), run.db.clone());
    if run.none_mask & 128 != 0 {
        let (i1, i2, klen) = (leak(&run.ida), leak(&run.idb), run.klen);
        let (o, ks) = hooked(move || gm_sm2::exchange::build_ex_pair(klen, i1, i2), vec![b32(&run.da), b32(&run.db)]);
        match o { Outcome::Ok(p) if ks.len() == 2 => { da_used = ks[0].clone(); db_used = ks[1].clone(); pair = Some(p); } _ => return }
    }
    let (ka, kb) = match (key_from(&da_used), key_from(&db_used)) { (Some(a), Some(b)) => (a, b), _ => return };
    // none_mask: bit 0 = A passes None for its own ID, 1 = A passes None for the peer's ID, 2 = B own, 3 = B peer (only where that ID IS the default
    // ID "1234567812345678": None must mean exactly that ID, for either role)
    let dflt = "1234567812345678";
    let opt = |id: &'static str, bit: u8| if run.none_mask & (1 << bit) != 0 && id == dflt { None } else { Some(id) };
    let (ida_s, idb_s) = (leak(&run.ida), leak(&run.idb));
    let mk = |me: &Key, id: Option<&'static str>, other: &Key, oid: Option<&'static str>| Exchange::new(run.klen, id, &me.sk.public_key, &me.sk, oid, &other.sk.public_key);
    let (a, b) = match pair {
        Some((a, b)) => (Arc::new(Mutex::new(a)), Arc::new(Mutex::new(b))),
        None => match (mk(&ka, opt(ida_s, 0), &kb, opt(idb_s, 1)), mk(&kb, opt(idb_s, 2), &ka, opt(ida_s, 3))) { (Ok(a), Ok(b)) => (Arc::new(Mutex::new(a)), Arc::new(Mutex::new(b))), _ => return },
    };
    let common = json!({"prop": "C15", "pkA": bytes(&ka.pk65), "pkB": bytes(&kb.pk65), "idA": bytes(run.ida.as_bytes()), "idB": bytes(run.idb.as_bytes()), "klen": run.klen});
    let with = |extra: Value| { let mut m = common.clone(); for (k, v) in extra.as_object().unwrap() { m[k] = v.clone(); } m };
    let tam = |flag: bool| if flag || run.none_mask & 16 != 0 { run.kind.clone() } else { "none".to_string() };
    // none_mask bit 6 (64): the SAME two Exchange objects run the protocol again (and a third time) after the first run: every run draws fresh
    // ephemeral scalars and must stand on its own (state left behind by an earlier run must not leak into the next)
    let runs = if run.none_mask & 64 != 0 { 3 } else { 1 };
    for _run_no in 0..runs {
    let rerun = _run_no > 0;
    // step 1
    let a1 = a.clone();
    let (o1, ks1) = hooked(move || a1.lock().unwrap().exchange_1(), run.ra_script.clone());
    let ra = match o1.ok() { Some(p) => *p, None => { t.emit(sess, "kx.step1", with(json!({"r": [], "ra_out": pt_json(&Point::zero()), "outcome": o1.name(), "detail": o1.detail()}))); return; } };
    let r_a = ks1.last().cloned().unwrap_or_default();
    t.emit(sess, "kx.step1", with(json!({"r": bytes(&r_a), "ra_out": pt_json(&ra), "outcome": "ok", "detail": ""})));
    let ra_recv = if run.t_ra { tamper_point(&ra, &run.kind, rng) } else { ra };
    // step 2
    let b2 = b.clone();
    let (o2, ks2) = hooked(move || b2.lock().unwrap().exchange_2(&ra_recv), run.rb_script.clone());
    let r_b = ks2.last().cloned().unwrap_or_default();
    let key_b = b.lock().unwrap().verif_state().0.unwrap_or_default();
    let (rb, sb) = match o2.ok() { Some((p, s)) => (*p, *s), None => (Point::zero(), [0u8; 32]) };
    t.emit(sess, "kx.step2", with(json!({"d": bytes(&kb.d), "r": bytes(&r_b), "ra_in": pt_json(&ra_recv), "rb_out": pt_json(&rb), "sb": bytes(&sb), "key": bytes(&key_b),
        "tamper": if rerun { "rerun".to_string() } else { tam(run.t_ra) }, "outcome": o2.name(), "detail": o2.detail()})));
    if o2.ok().is_none() { return; }
    let mut rb_recv = if run.t_rb { tamper_point(&rb, &run.kind, rng) } else { rb };
    let mut sb_recv = if run.t_sb { tamper_hash(&sb, &run.kind, rng) } else { sb };
    // the malicious responder of the plan: an off-curve R_B with the S_B that matches it (computed by the specification)
    if let Some((x, y, s)) = &run.forge {
        rb_recv = Point { x: verif::fp_to_mont(&be_u256(x)), y: verif::fp_to_mont(&be_u256(y)), z: verif::fp_to_mont(&[1, 0, 0, 0]) };
        sb_recv = b32(s);
    }
    // step 3
    let a3 = a.clone();
    let (o3, _) = hooked(move || a3.lock().unwrap().exchange_3(&rb_recv, sb_recv), vec![]);
    let key_a = a.lock().unwrap().verif_state().0.unwrap_or_default();
    let sa = o3.ok().cloned().unwrap_or([0u8; 32]);
    let t3 = if rerun { "rerun".to_string() } else if run.forge.is_some() { "offcurve-forged".to_string() } else if run.t_rb || run.t_sb { run.kind.clone() } else if run.t_ra { format!("after-{}", run.kind) } else { "none".into() };
    t.emit(sess, "kx.step3", with(json!({"d": bytes(&ka.d), "r": bytes(&r_a), "rb_in": pt_json(&rb_recv), "sb_in": bytes(&sb_recv), "sa": bytes(&sa), "key": bytes(&key_a),
        "tamper": t3, "outcome": o3.name(), "detail": o3.detail()})));
    // step 4: the adversary delivers SA (possibly altered), or junk if A sent nothing
    let sa_recv = if o3.ok().is_none() { b32(&rng.bytes(32)) } else if run.t_sa { tamper_hash(&sa, &run.kind, rng) } else { sa };
    let b4 = b.clone();
    let (o4, _) = hooked(move || b4.lock().unwrap().exchange_4(sa_recv, &ra_recv), vec![]);
    let acc = o4.ok().cloned().unwrap_or(false);
    let t4 = if rerun { "rerun".to_string() } else if run.forge.is_some() && o3.ok().is_some() { "after-offcurve-forged".to_string() } else if o3.ok().is_none() { "injected".to_string() } else if run.t_sa { run.kind.clone() } else if run.t_ra || run.t_rb || run.t_sb { format!("after-{}", run.kind) } else { "none".into() };
    t.emit(sess, "kx.step4", with(json!({"d": bytes(&kb.d), "r": bytes(&r_b), "ra_in": pt_json(&ra_recv), "sa_in": bytes(&sa_recv), "accepted": if acc { 1 } else { 0 },
        "tamper": t4, "outcome": o4.name(), "detail": o4.detail()})));
    }
}

pub fn drive_kex(t: &mut Tracer, tier: &str, seed: u64, plan: Option<String>) {
    let thorough = tier == "thorough";
    let mut rng = Rng(seed ^ 0x5215);
    let mut n = 0u64;
    let mut sess = || { n += 1; format!("sm2kx/{}", n) };
    let rk = |rng: &mut Rng| { let mut d = rng.bytes(32); d[0] &= 0x7f; d };
    // Annex example: scripted rA, rB, klen 16, both IDs "1234567812345678"
    let annex = KxRun { t_ra: false, t_rb: false, t_sb: false, t_sa: false, kind: "none".into(), klen: 16, ida: "1234567812345678".into(), idb: "1234567812345678".into(),
        ra_script: vec![b32(&hexb("d4de15474db74d06491c440d305e012400990f3e390c7e87153c12db2ea60bb3"))],
        rb_script: vec![b32(&hexb("7e07124814b309489125eaed101113164ebf0f3458c5bd88335c1f9d596243d6"))],
        da: hexb("81eb26e941bb5af16df116495f90695272ae2cd63d6c4ae1678418be48230029"), db: hexb("785129917d45a9ea5437a59356b82338eaadda6ceb199088f14ae10defa229b5"), forge: None, none_mask: 0 };
    kx_run(t, &sess(), &annex, &mut rng);
    // honest runs: klen 1..=200 (sampled in quick), random and edge keys, free ephemeral scalars
    let klens: Vec<usize> = if thorough { (1..=200).collect() } else { vec![1, 16, 31, 32, 33, 64, 100, 200] };
    for (i, klen) in klens.iter().enumerate() {
        let run = KxRun { t_ra: false, t_rb: false, t_sb: false, t_sa: false, kind: "none".into(), klen: *klen, ida: format!("alice{}", i), idb: if i % 3 == 0 { "1234567812345678".into() } else { format!("bob-{}", i) },
            ra_script: vec![], rb_script: vec![], da: rk(&mut rng), db: rk(&mut rng), forge: None, none_mask: 0 };
        kx_run(t, &sess(), &run, &mut rng);
    }
    // the same pair of Exchange objects used for three consecutive runs (honest, and with a tampered run in the middle of the plan below)
    for klen in [16usize, 48] {
        let run = KxRun { t_ra: false, t_rb: false, t_sb: false, t_sa: false, kind: "none".into(), klen, ida: "alice-again".into(), idb: "bob-again".into(),
            ra_script: vec![], rb_script: vec![], da: rk(&mut rng), db: rk(&mut rng), forge: None, none_mask: 64 };
        kx_run(t, &sess(), &run, &mut rng);
    }
    // identities with edge white space / NUL / mixed case, through Exchange::new and through the helper build_ex_pair (bit 7)
    for (ida, idb, mask) in [(" alice ", "bob\n", 0u8), ("alice\0", "\tbob", 0), ("ALICE", "alice", 0), (" alice ", "bob\n", 128), ("alice123@qq.com ", "bob", 128), ("plain-a", "plain-b", 128)] {
        let run = KxRun { t_ra: false, t_rb: false, t_sb: false, t_sa: false, kind: "none".into(), klen: 20, ida: ida.into(), idb: idb.into(), ra_script: vec![], rb_script: vec![],
            da: rk(&mut rng), db: rk(&mut rng), forge: None, none_mask: mask };
        kx_run(t, &sess(), &run, &mut rng);
    }
    // non-ASCII identities (multi-byte UTF-8): Z_A / Z_B hash the identity's bytes
    for (ida, idb) in [("\u{7528}\u{6237}A", "bob"), ("alice", "\u{101}\u{201}-b"), ("a\u{0101}", "a\u{0201}")] {
        let run = KxRun { t_ra: false, t_rb: false, t_sb: false, t_sa: false, kind: "none".into(), klen: 20, ida: ida.into(), idb: idb.into(), ra_script: vec![], rb_script: vec![],
            da: rk(&mut rng), db: rk(&mut rng), forge: None, none_mask: 0 };
        kx_run(t, &sess(), &run, &mut rng);
    }
    // default IDs given as None by either party, for its own or for the peer's ID (the other party may spell the default ID out)
    for (ida, idb, mask) in [("alice", "1234567812345678", 2u8), ("alice", "1234567812345678", 4), ("alice", "1234567812345678", 6), ("1234567812345678", "bob", 1), ("1234567812345678", "bob", 8),
                             ("1234567812345678", "bob", 9), ("1234567812345678", "1234567812345678", 15), ("1234567812345678", "1234567812345678", 5)] {
        let run = KxRun { t_ra: false, t_rb: false, t_sb: false, t_sa: false, kind: "none".into(), klen: 24, ida: ida.into(), idb: idb.into(), ra_script: vec![], rb_script: vec![],
            da: rk(&mut rng), db: rk(&mut rng), forge: None, none_mask: mask };
        kx_run(t, &sess(), &run, &mut rng);
    }
    // every tamper subset x kind from the TLC plan
    for v in read_plan(&plan).iter().filter(|v| v["kind"] == "forge" && v["usable"] == 1) {
        let run = KxRun { t_ra: false, t_rb: false, t_sb: false, t_sa: false, kind: "none".into(), klen: 16, ida: "1234567812345678".into(), idb: "1234567812345678".into(),
            ra_script: vec![b32(&arr(&v["ra"]))], rb_script: vec![], da: arr(&v["da"]), db: arr(&v["db"]), forge: Some((arr(&v["rbx"]), arr(&v["rby"]), arr(&v["sb"]))), none_mask: 0 };
        kx_run(t, &sess(), &run, &mut rng);
    }
    // an unlucky honest initiator (key and ephemeral scalar crafted by the specification so that V is the point at infinity): B must fail
    for v in read_plan(&plan).iter().filter(|v| v["kind"] == "vzero" && v["check"] == 1) {
        let run = KxRun { t_ra: false, t_rb: false, t_sb: false, t_sa: false, kind: "vzero".into(), klen: 16, ida: "alice".into(), idb: "bob".into(),
            ra_script: vec![b32(&arr(&v["ra"]))], rb_script: vec![], da: arr(&v["da"]), db: arr(&v["db"]), forge: None, none_mask: 16 };
        kx_run(t, &sess(), &run, &mut rng);
    }
    // an unlucky honest responder (static key crafted by the specification for the scripted ephemeral scalar so that t_B = 0): V = O, B must fail
    for v in read_plan(&plan).iter().filter(|v| v["kind"] == "tzero" && v["check"] == 1) {
        let run = KxRun { t_ra: false, t_rb: false, t_sb: false, t_sa: false, kind: "tzero".into(), klen: 16, ida: "alice".into(), idb: "bob".into(),
            ra_script: vec![], rb_script: vec![b32(&arr(&v["rb"]))], da: arr(&v["da"]), db: arr(&v["db"]), forge: None, none_mask: 16 };
        kx_run(t, &sess(), &run, &mut rng);
    }
    // an honest run whose one-byte key is 00 (the responder's scalar searched by the specification): it must succeed like any other
    for v in read_plan(&plan).iter().filter(|v| v["kind"] == "kzero" && v["check"] == 1) {
        let run = KxRun { t_ra: false, t_rb: false, t_sb: false, t_sa: false, kind: "kzero".into(), klen: 1, ida: "alice".into(), idb: "bob".into(),
            ra_script: vec![b32(&arr(&v["ra"]))], rb_script: vec![b32(&arr(&v["rb"]))], da: arr(&v["da"]), db: arr(&v["db"]), forge: None, none_mask: 16 };
        kx_run(t, &sess(), &run, &mut rng);
    }
    for (i, v) in read_plan(&plan).iter().filter(|v| v["kind"] != "forge" && v["kind"] != "vzero" && v["kind"] != "tzero" && v["kind"] != "kzero").enumerate() {
        let reps = if thorough { 3 } else { 1 };
        for _ in 0..reps {
            let run = KxRun { t_ra: v["ra"] == 1, t_rb: v["rb"] == 1, t_sb: v["sb"] == 1, t_sa: v["sa"] == 1, kind: v["kind"].as_str().unwrap().into(), klen: 16 + (i % 40),
                ida: "initiator".into(), idb: "responder".into(), ra_script: vec![], rb_script: vec![], da: rk(&mut rng), db: rk(&mut rng), forge: None, none_mask: 0 };
            kx_run(t, &sess(), &run, &mut rng);
        }
    }
}

// ---------------------------------------------------------------- C14 RNG (SM2 part; SM9 part in sm9.rs)
fn draws_json(log: &[verif::RngEvent]) -> Value {
    Value::Array(log.iter().map(|e| json!({"c": bytes(&e.candidate), "a": if e.accepted { 1 } else { 0 }})).collect())
}
/// run `f` under the hook with an optional injection script; returns (outcome, hook log)
fn with_log<T: Send + 'static>(script: Vec<[u8; 32]>, f: impl FnOnce() -> gm_sm2::error::Sm2Result<T> + Send + 'static) -> (Outcome<T>, Vec<verif::RngEvent>) {
    let out = guard_timed(20, move || {
        verif::rng_script(script);
        let _ = verif::rng_take_log();
        let r = f();
        let log = verif::rng_take_log();
        verif::rng_script(vec![]);
        Ok::<_, String>((r, log))
    });
    match out {
        Outcome::Ok((Ok(v), log)) => (Outcome::Ok(v), log),
        Outcome::Ok((Err(e), log)) => (Outcome::Err(format!("{:?}", e)), log),
        Outcome::Err(e) => (Outcome::Err(e), vec![]), Outcome::Panic(e) => (Outcome::Panic(e), vec![]), Outcome::Timeout => (Outcome::Timeout, vec![]),
    }
}
pub fn injection_script(order_hex: &str, p_hex: &str, rng: &mut Rng, which: usize) -> Vec<[u8; 32]> {
    let n = hexb(order_hex);
    let p = hexb(p_hex);
    let mut all: Vec<Vec<u8>> = vec![vec![0u8; 32], n.clone(), be_add_small(&n, 1), be_add_small(&n, 2), be_add_small(&p, -2), be_add_small(&p, -1), p.clone(), vec![0xffu8; 32],
        be_add_small(&n, (rng.below(1 << 20) + 3) as i64),
        // candidates on which a limb-wise / lexicographic comparison disagrees with the numeric one: >= order but with a small low limb
        { let mut v = vec![0xffu8; 32]; for b in v[24..32].iter_mut() { *b = 0; } v[31] = 5; v }];
    // candidates >= order that a comparison SKIPPING one 64-bit limb takes for smaller: the order with limb j increased and every lower limb zero
    for j in 0..4usize {
        let mut v = n.clone();
        let hi = 8 * (3 - j);                       // big-endian byte range of limb j (j = 3 most significant)
        if v[hi + 7] == 0xff { continue; }
        v[hi + 7] += 1;
        for b in v[hi + 8..].iter_mut() { *b = 0; }
        all.push(v);
        // ... and with the lower limbs just below the order's (all ones would exceed them): lower limbs = order's lower limbs minus one
        // ... and with the lowest byte 1 / the lower limbs just below the order's (gm-sm9's sampler also refuses candidates whose low limb is zero)
        if j > 0 { let mut w = n.clone(); w[hi + 7] += 1; for b in w[hi + 8..].iter_mut() { *b = 0; } w[31] = 1; all.push(w); }
        let mut w = n.clone(); w[hi + 7] += 1; let lo = be_add_small(&w, -2); if lo.as_slice() >= n.as_slice() { all.push(lo); }
    }
    // EVERY candidate is offered in every scripted operation (rotated, so that each of them comes first somewhere); then a good value ends the operation
    let k = which % all.len();
    let mut s: Vec<[u8; 32]> = all[k..].iter().chain(all[..k].iter()).map(|c| b32(c)).collect();
    let mut good = rng.bytes(32); good[0] &= 0x7f;
    s.push(b32(&good));
    s
}

pub fn rng_ops_sm2(t: &mut Tracer, sess: &str, proc_id: u32, count: usize, inject: bool, rng: &mut Rng, real: &mut u64) {
    let key = key_from(&{ let mut d = rng.bytes(32); d[0] &= 0x7f; d }).unwrap();
    for i in 0..count {
        let script = if inject { injection_script(N_HEX, P_HEX, rng, i) } else { vec![] };
        let scripted = if inject { 1 } else { 0 };
        let kind = ["keygen", "sign", "encrypt", "kx1", "kx2"][i % 5];
        let mut f = json!({"prop": "C14", "lib": "sm2", "kind": kind, "proc": proc_id, "scripted": scripted, "chk": "none"});
        let check_pt = i % 25 < 5;     // [k]G comparisons are expensive in the specification: sampled
        match kind {
            "keygen" => {
                let (o, log) = with_log(script, || gm_sm2::key::gen_keypair());
                f["draws"] = draws_json(&log); f["outcome"] = json!(o.name());
                if let (Some((pk, _)), true) = (o.ok(), check_pt) { f["chk"] = json!("pt"); f["pt"] = bytes(&pk.to_bytes(false)); }
            }
            "sign" => {
                let sk = key.sk.clone();
                let m = rng.bytes(20);
                let (o, log) = with_log(script, move || sk.sign(None, &m).map(|s| (s, m)));
                f["draws"] = draws_json(&log); f["outcome"] = json!(o.name());
                if let Some((sig, m)) = o.ok() {
                    // digest-level recovery needs e; the spec recovers k = s(1+d) + r d from (d, r, s) alone
                    f["chk"] = json!("sig"); f["d"] = bytes(&key.d); f["sig"] = bytes(sig); f["msg"] = bytes(m);
                }
            }
            "encrypt" => {
                let pk = key.sk.public_key.clone();
                let m = rng.bytes(5);
                let (o, log) = with_log(script, move || pk.encrypt(&m, false, Sm2Model::C1C3C2));
                f["draws"] = draws_json(&log); f["outcome"] = json!(o.name());
                if let (Some(ct), true) = (o.ok(), check_pt) { f["chk"] = json!("pt"); f["pt"] = bytes(&ct[..65]); }
            }
            _ => {
                let k2 = key_from(&{ let mut d = rng.bytes(32); d[0] &= 0x7f; d }).unwrap();
                let mut ex = Exchange::new(16, None, &key.sk.public_key, &key.sk, None, &k2.sk.public_key).unwrap();
                let step2 = kind == "kx2";
                let g5 = g_mul(&[5, 0, 0, 0]);
                let (o, log) = with_log(script, move || if step2 { ex.exchange_2(&g5).map(|(p, _)| p) } else { ex.exchange_1() });
                f["draws"] = draws_json(&log); f["outcome"] = json!(o.name());
                if let (Some(p), true) = (o.ok(), check_pt) { f["chk"] = json!("pt"); f["pt"] = bytes(&p.to_byte_be(false)); }
            }
        }
        if !inject && f["outcome"] == "ok" { *real += 1; }
        t.emit(sess, "rng.op", f);
    }
}

// ---------------------------------------------------------------- C19 encodings
use pkcs8::{DecodePrivateKey, DecodePublicKey, EncodePrivateKey, EncodePublicKey, LineEnding};

fn codec_encode_event(t: &mut Tracer, sess: &str, d: &[u8]) -> Option<Value> {
    let dd = d.to_vec();
    let out = guard_timed(20, move || -> Result<Value, String> {
        let sk = Sm2PrivateKey::new(&dd).map_err(|e| format!("{:?}", e))?;
        let pk = sk.public_key.clone();
        let spki = pk.to_public_key_der().map_err(|e| format!("{:?}", e))?;
        let spki_pem = pk.to_public_key_pem(LineEnding::LF).map_err(|e| format!("{:?}", e))?;
        let p8 = sk.to_pkcs8_der().map_err(|e| format!("{:?}", e))?;
        let p8_pem = sk.to_pkcs8_pem(LineEnding::LF).map_err(|e| format!("{:?}", e))?;
        Ok(json!({"pkc": bytes(&pk.to_bytes(true)), "pku": bytes(&pk.to_bytes(false)), "hexc": bytes(pk.to_hex_string(true).as_bytes()), "hexu": bytes(pk.to_hex_string(false).as_bytes()),
            "skb": bytes(&sk.to_bytes_be()), "skhex": bytes(sk.to_hex_string().as_bytes()), "spki_der": bytes(spki.as_bytes()), "spki_pem": bytes(spki_pem.as_bytes()),
            "p8_der": bytes(p8.as_bytes()), "p8_pem": bytes(p8_pem.as_bytes())}))
    });
    let mut f = json!({"prop": "C19", "d": bytes(d), "outcome": out.name(), "detail": out.detail()});
    let res = out.ok().cloned();
    if let Some(v) = &res { for (k, x) in v.as_object().unwrap() { f[k] = x.clone(); } }
    else { for k in ["pkc", "pku", "hexc", "hexu", "skb", "skhex", "spki_der", "spki_pem", "p8_der", "p8_pem"] { f[k] = json!([]); } }
    t.emit(sess, "codec.encode", f);
    res
}

fn b64(d: &[u8]) -> String {
    const T: &[u8; 64] = b"ABCDEFGHIJKLMNOPQRSTUVWXYZabcdefghijklmnopqrstuvwxyz0123456789+/";
    let mut o = String::new();
    for c in d.chunks(3) {
        let v = (c[0] as u32) << 16 | (*c.get(1).unwrap_or(&0) as u32) << 8 | *c.get(2).unwrap_or(&0) as u32;
        o.push(T[(v >> 18) as usize & 63] as char); o.push(T[(v >> 12) as usize & 63] as char);
        o.push(if c.len() > 1 { T[(v >> 6) as usize & 63] as char } else { '=' }); o.push(if c.len() > 2 { T[v as usize & 63] as char } else { '=' });
    }
    o
}
fn codec_decode_event(t: &mut Tracer, sess: &str, kind: &'static str, input: &[u8], fault: &str, canon: bool) { codec_decode_event_der(t, sess, kind, input, fault, canon, &[]) }
/// `der`: for a PEM text assembled by the driver, the DER it was made from (the specification re-encodes it and, if the text is that PEM, judges the document by its DER templates)
fn codec_decode_event_der(t: &mut Tracer, sess: &str, kind: &'static str, input: &[u8], fault: &str, canon: bool, der: &[u8]) {
    let inp = input.to_vec();
    let out: Outcome<Vec<u8>> = guard_timed(20, move || -> Result<Vec<u8>, String> {
        let e = |x: &dyn std::fmt::Debug| format!("{:?}", x);
        match kind {
            "pk_bytes" => Sm2PublicKey::new(&inp).map(|p| p.to_bytes(false)).map_err(|x| e(&x)),
            "pk_hex" => Sm2PublicKey::from_hex_string(std::str::from_utf8(&inp).map_err(|x| e(&x))?).map(|p| p.to_bytes(false)).map_err(|x| e(&x)),
            "sk_bytes" => Sm2PrivateKey::new(&inp).map(|s| s.to_bytes_be()).map_err(|x| e(&x)),
            "sk_hex" => Sm2PrivateKey::from_hex_string(std::str::from_utf8(&inp).map_err(|x| e(&x))?).map(|s| s.to_bytes_be()).map_err(|x| e(&x)),
            "spki_der" => Sm2PublicKey::from_public_key_der(&inp).map(|p| p.to_bytes(false)).map_err(|x| e(&x)),
            "spki_pem" => Sm2PublicKey::from_public_key_pem(std::str::from_utf8(&inp).map_err(|x| e(&x))?).map(|p| p.to_bytes(false)).map_err(|x| e(&x)),
            // the FromStr path (`"...".parse::<Sm2PublicKey>()`): judged exactly like spki_pem
            "spki_pem_str" => std::str::from_utf8(&inp).map_err(|x| e(&x))?.parse::<Sm2PublicKey>().map(|p| p.to_bytes(false)).map_err(|x| e(&x)),
            "pkcs8_der" => Sm2PrivateKey::from_pkcs8_der(&inp).map(|s| s.to_bytes_be()).map_err(|x| e(&x)),
            _ => Sm2PrivateKey::from_pkcs8_pem(std::str::from_utf8(&inp).map_err(|x| e(&x))?).map(|s| s.to_bytes_be()).map_err(|x| e(&x)),
        }
    });
    let o = out.ok().cloned().unwrap_or_default();
    t.emit(sess, "codec.decode", json!({"prop": "C19", "kind": kind, "input": bytes(input), "fault": fault, "canon": if canon { 1 } else { 0 }, "der": bytes(der),
        "out": bytes(&o), "outcome": out.name(), "detail": out.detail()}));
}

fn asn1_enc_event(t: &mut Tracer, sess: &str, key: &Key, msg: &[u8], script: Vec<[u8; 32]>, shape: &str, compressed: bool, order: &'static str) -> Option<Vec<u8>> {
    asn1_enc_event_p(t, sess, "C19", key, msg, script, shape, compressed, order)
}
fn asn1_enc_event_p(t: &mut Tracer, sess: &str, prop: &str, key: &Key, msg: &[u8], script: Vec<[u8; 32]>, shape: &str, compressed: bool, order: &'static str) -> Option<Vec<u8>> {
    let pk = key.sk.public_key.clone();
    let m = msg.to_vec();
    let (out, ks) = hooked(move || pk.encrypt_asn1(&m, compressed, model_of(order)), script);
    let der = out.ok().cloned().unwrap_or_default();
    let mut f = json!({"prop": prop, "pk": bytes(&key.pk65), "ks": ks.iter().map(|k| bytes(k)).collect::<Vec<_>>(), "der": bytes(&der), "shape": shape,
        "outcome": out.name(), "detail": out.detail()});
    msg_fields(&mut f, None, msg);
    t.emit(sess, "codec.asn1_enc", f);
    if der.is_empty() { None } else { Some(der) }
}
fn asn1_dec_event(t: &mut Tracer, sess: &str, d: &[u8], der: &[u8], fault: &str) {
    let out = match guard(|| Sm2PrivateKey::new(d)) {
        Outcome::Ok(sk) => { let c = der.to_vec(); guard_timed(20, move || sk.decrypt_asn1(&c, false, Sm2Model::C1C3C2)) }
        Outcome::Err(e) => Outcome::Err(e), Outcome::Panic(p) => Outcome::Panic(p), Outcome::Timeout => Outcome::Timeout,
    };
    let o = out.ok().cloned().unwrap_or_default();
    t.emit(sess, "codec.asn1_dec", json!({"prop": "C19", "d": bytes(d), "der": bytes(der), "fault": fault, "out": bytes(&o), "outcome": out.name(), "detail": out.detail()}));
}

/// search an ephemeral scalar whose C1 = [k]G has `zeros` leading zero bytes in x (or y), or a first byte >= 0x80
pub fn search_k(rng: &mut Rng, want_y: bool, zeros: usize, limit: usize) -> Option<[u8; 32]> {
    for _ in 0..limit {
        let mut k = rng.bytes(32); k[0] &= 0x7f;
        let p = g_mul(&be_u256(&k)).to_byte_be(false);
        let c = if want_y { &p[33..65] } else { &p[1..33] };
        if c[..zeros].iter().all(|b| *b == 0) { return Some(b32(&k)); }
    }
    None
}

pub fn drive_codec(t: &mut Tracer, tier: &str, seed: u64) {
    let thorough = tier == "thorough";
    let mut rng = Rng(seed ^ 0x5219);
    let mut n = 0u64;
    let mut sess = || { n += 1; format!("sm2codec/{}", n) };
    // keys: edge, random, and keys searched for leading-zero public coordinates / both parities
    let mut keys = edge_keys(&mut rng, thorough);
    for want_y in [false, true] { if let Some(k) = search_k(&mut rng, want_y, 1, 5000) { keys.push(k.to_vec()); } }
    let mut lz = rng.bytes(32); lz[0] = 0; lz[1] = 0; keys.push(lz);
    for (ki, d) in keys.iter().enumerate() {
        if !thorough && ki >= 6 && ki + 3 < keys.len() { continue; }
        let enc = match codec_encode_event(t, &sess(), d) { Some(v) => v, None => continue };
        // decode every form back
        for (kind, field) in [("pk_bytes", "pkc"), ("pk_bytes", "pku"), ("pk_hex", "hexc"), ("pk_hex", "hexu"), ("sk_bytes", "skb"), ("sk_hex", "skhex"),
                              ("spki_der", "spki_der"), ("spki_pem", "spki_pem"), ("pkcs8_der", "p8_der"), ("pkcs8_pem", "p8_pem")] {
            codec_decode_event(t, &sess(), kind, &arr(&enc[field]), "roundtrip", true);
        }
        // malformed inputs: wrong lengths, off-curve, coordinates >= p, unknown prefix
        let pku = arr(&enc["pku"]);
        let pkc = arr(&enc["pkc"]);
        for cut in [0usize, 1, 32, 33, 34, 64, 66] {
            let mut v = pku.clone(); v.resize(cut.max(1).min(66), 0); if cut == 0 { v.clear(); }
            codec_decode_event(t, &sess(), "pk_bytes", &v, "wrong-length", false);
        }
        let mut off = pku.clone(); off[64] ^= 1;
        codec_decode_event(t, &sess(), "pk_bytes", &off, "off-curve", false);
        codec_decode_event(t, &sess(), "pk_hex", hex::encode(&off).as_bytes(), "off-curve", false);
        let mut pre = pku.clone(); pre[0] = 5;
        codec_decode_event(t, &sess(), "pk_bytes", &pre, "bad-prefix", false);
        let mut cflip = pkc.clone(); cflip[0] ^= 1;          // other parity: still a valid encoding of -P
        codec_decode_event(t, &sess(), "pk_bytes", &cflip, "other-parity", false);
        let mut ff = vec![4u8]; ff.extend_from_slice(&[0xffu8; 64]);
        codec_decode_event(t, &sess(), "pk_bytes", &ff, "coords>=p", false);
        codec_decode_event(t, &sess(), "pk_hex", b"zz", "bad-hex", false);
        codec_decode_event(t, &sess(), "pk_hex", b"04abc", "bad-hex", false);
        // the bare X || Y form (64 bytes: a valid uncompressed key without its 04 tag) is not a SEC1 encoding: bytes, hex, and as the BIT STRING of an SPKI
        {
            let bare = pku[1..].to_vec();
            codec_decode_event(t, &sess(), "pk_bytes", &bare, "untagged", false);
            codec_decode_event(t, &sess(), "pk_hex", hex::encode(&bare).as_bytes(), "untagged", false);
            let spki_bare = [hexb("3058301306072a8648ce3d020106082a811ccf5501822d034100"), bare.clone()].concat();
            codec_decode_event(t, &sess(), "spki_der", &spki_bare, "untagged", false);
        }
        // a VALID encoding followed by one stray hex digit (an odd number of digits is not hex): every decoder that takes text
        for extra in ["0", "f"] {
            codec_decode_event(t, &sess(), "pk_hex", format!("{}{}", hex::encode(&pku), extra).as_bytes(), "odd-digits", false);
            codec_decode_event(t, &sess(), "pk_hex", format!("{}{}", hex::encode(&pkc), extra).as_bytes(), "odd-digits", false);
            codec_decode_event(t, &sess(), "sk_hex", format!("{}{}", hex::encode(&arr(&enc["skb"])), extra).as_bytes(), "odd-digits", false);
        }
        codec_decode_event(t, &sess(), "pk_hex", hex::encode(&pku).to_uppercase().as_bytes(), "uppercase", false);
        codec_decode_event(t, &sess(), "sk_hex", hex::encode(&arr(&enc["skb"])).to_uppercase().as_bytes(), "uppercase", false);
        let mut spki = arr(&enc["spki_der"]);
        let l = spki.len(); spki[l - 1] ^= 1;
        codec_decode_event(t, &sess(), "spki_der", &spki, "off-curve", false);
        for cut in [0usize, 10, 26, 90] { codec_decode_event(t, &sess(), "spki_der", &arr(&enc["spki_der"])[..cut], "truncated", false); }
        for cut in [0usize, 10, 36, 100, 137] { codec_decode_event(t, &sess(), "pkcs8_der", &arr(&enc["p8_der"])[..cut], "truncated", false); }
        for len in [0usize, 1, 31, 33, 64] { codec_decode_event(t, &sess(), "sk_bytes", &rng.bytes(len), "wrong-length", false); }
        // the other framings OpenSSL writes for the same key: public key in COMPRESSED form inside SPKI and inside the PKCS#8 ECPrivateKey
        // (-conv_form compressed), and an ECPrivateKey without the optional publicKey field -- assembled here byte by byte, recognised and
        // judged by the specification's templates (SpkiHeadC, Pkcs8HeadC / Pkcs8MidC, Pkcs8HeadN)
        {
            let alg: Vec<u8> = hexb("020100301306072a8648ce3d020106082a811ccf5501822d");
            let spki_c = [hexb("3039301306072a8648ce3d020106082a811ccf5501822d032200"), pkc.clone()].concat();
            let p8_c = [hexb("3067"), alg.clone(), hexb("044d304b0201010420"), arr(&enc["skb"]), hexb("a124032200"), pkc.clone()].concat();
            let p8_n = [hexb("3041"), alg.clone(), hexb("0427302502010104" ), vec![0x20u8], arr(&enc["skb"])].concat();
            codec_decode_event(t, &sess(), "spki_der", &spki_c, "compressed-pub", false);
            codec_decode_event(t, &sess(), "pkcs8_der", &p8_c, "compressed-pub", false);
            codec_decode_event(t, &sess(), "pkcs8_der", &p8_n, "no-pub", false);
            let pem = |label: &str, der: &[u8]| { let b = b64(der); let mut s = format!("-----BEGIN {}-----\n", label); for c in b.as_bytes().chunks(64) { s.push_str(std::str::from_utf8(c).unwrap()); s.push('\n'); } s.push_str(&format!("-----END {}-----\n", label)); s };
            // text-level variants of the library's own canonical documents: CRLF line endings (what a Windows tool or `LineEnding::CRLF` writes), through the
            // PEM entry points and through FromStr
            let (spki_d, p8_d) = (arr(&enc["spki_der"]), arr(&enc["p8_der"]));
            let crlf = |s: String| s.replace("\n", "\r\n");
            codec_decode_event_der(t, &sess(), "spki_pem", crlf(pem("PUBLIC KEY", &spki_d)).as_bytes(), "crlf", false, &spki_d);
            codec_decode_event_der(t, &sess(), "spki_pem_str", crlf(pem("PUBLIC KEY", &spki_d)).as_bytes(), "crlf", false, &spki_d);
            codec_decode_event_der(t, &sess(), "spki_pem_str", pem("PUBLIC KEY", &spki_d).as_bytes(), "lf", false, &spki_d);
            codec_decode_event_der(t, &sess(), "pkcs8_pem", crlf(pem("PRIVATE KEY", &p8_d)).as_bytes(), "crlf", false, &p8_d);
            codec_decode_event_der(t, &sess(), "pkcs8_pem", pem("PRIVATE KEY", &p8_c).as_bytes(), "compressed-pub", false, &p8_c);
            codec_decode_event_der(t, &sess(), "spki_pem", pem("PUBLIC KEY", &spki_c).as_bytes(), "compressed-pub", false, &spki_c);
        }
    }
    // OpenSSL-made documents (committed corpus)
    let base = concat!(env!("CARGO_MANIFEST_DIR"), "/../corpus/");
    let mut corpus_d: Vec<u8> = vec![];
    if let Ok(text) = std::fs::read_to_string(format!("{}sm2_pem_bytes.ndjson", base)) {
        let v: Value = serde_json::from_str(text.lines().next().unwrap()).unwrap();
        corpus_d = arr(&v["d"]);
        codec_decode_event(t, &sess(), "spki_der", &arr(&v["spki_der"]), "openssl", true);
        codec_decode_event(t, &sess(), "spki_pem", &arr(&v["spki_pem"]), "openssl", true);
        codec_decode_event(t, &sess(), "pkcs8_der", &arr(&v["pkcs8_der"]), "openssl", true);
        codec_decode_event(t, &sess(), "pkcs8_pem", &arr(&v["pkcs8_pem"]), "openssl", true);
    }
    if let Ok(text) = std::fs::read_to_string(format!("{}sm2_enc_openssl_der.ndjson", base)) {
        for line in text.lines() {
            let v: Value = serde_json::from_str(line).unwrap();
            asn1_dec_event(t, &sess(), &corpus_d, &arr(&v["der"]), "openssl");
        }
    }
    // ASN.1 ciphertexts: ephemeral scalars searched so that C1.x / C1.y start with 00, 00 00, or a byte >= 0x80 (DER INTEGER shaping)
    let key = key_from(&keys[3]).unwrap();
    let mut shapes: Vec<(String, Option<[u8; 32]>)> = vec![("random".into(), None)];
    for z in 1..=(if thorough { 2 } else { 1 }) {
        shapes.push((format!("x-lead0x{}", z), search_k(&mut rng, false, z, 400000)));
        shapes.push((format!("y-lead0x{}", z), search_k(&mut rng, true, z, 400000)));
    }
    // one leading zero byte followed by a byte >= 0x80 (the DER INTEGER needs its sign octet although a byte was dropped) and by a byte < 0x80
    for (want_y, hi) in [(false, true), (false, false), (true, true), (true, false)] {
        let mut found = None;
        for _ in 0..400000 {
            let mut k = rng.bytes(32); k[0] &= 0x7f;
            let p = g_mul(&be_u256(&k)).to_byte_be(false);
            let c = if want_y { &p[33..65] } else { &p[1..33] };
            if c[0] == 0 && c[1] != 0 && (c[1] >= 0x80) == hi { found = Some(b32(&k)); break; }
        }
        shapes.push((format!("{}-lead0-next{}", if want_y { "y" } else { "x" }, if hi { "hi" } else { "lo" }), found));
    }
    // pre-computed scalars (found once with `gmverif findk`): [k]G has two leading zero bytes in x resp. y; re-checked here before use
    for (name, khex, want_y) in [("x-lead0x2", "5e00711dcecea98cdf20e3820067019b0b56766bab3f7c379adb20d426ca8d0f", false), ("y-lead0x2", "7b3b4f0229243dd52ea81dc91439d4611b5ee9fce711bd355a0bf02924bffee8", true)] {
        let k = hexb(khex);
        let p = g_mul(&be_u256(&k)).to_byte_be(false);
        let c = if want_y { &p[33..65] } else { &p[1..33] };
        if c[0] == 0 && c[1] == 0 && !shapes.iter().any(|(n, v)| n == name && v.is_some()) { shapes.push((format!("{}", name), Some(b32(&k)))); }
    }
    for (shape, k) in shapes {
        let reps = if k.is_none() { if thorough { 40 } else { 6 } } else { 1 };
        for r in 0..reps {
            let mlen = 1 + rng.below(if r % 2 == 0 { 40 } else { 300 }) as usize;
            let m = rng.bytes(mlen);
            let script = k.map(|x| vec![x]).unwrap_or_default();
            if shape != "random" && k.is_none() { continue; }
            if let Some(der) = asn1_enc_event(t, &sess(), &key, &m, script, &shape, false, "c1c3c2") {
                asn1_dec_event(t, &sess(), &key.d, &der, "own");
                if r == 0 {
                    for cut in [0usize, 1, 2, 10, der.len() / 2, der.len() - 1] { asn1_dec_event(t, &sess(), &key.d, &der[..cut], "truncated"); }
                    let mut c = der.clone(); let l = c.len(); c[l - 1] ^= 1;
                    asn1_dec_event(t, &sess(), &key.d, &c, "flipped");
                    asn1_dec_event(t, &sess(), &key.d, &rng.bytes(40), "garbage");
                }
            }
        }
    }
    // the DER form does not depend on the raw-format flags
    let m = rng.bytes(20);
    for len in if thorough { vec![65425usize, 65432, 65536, 70001] } else { vec![65537usize] } {
        let long = rng.bytes(len);
        let mut k = rng.bytes(32); k[0] &= 0x7f;
        if let Some(der) = asn1_enc_event(t, &sess(), &key, &long, vec![b32(&k)], "long", false, "c1c3c2") { asn1_dec_event(t, &sess(), &key.d, &der, "long"); }
    }
    asn1_enc_event(t, &sess(), &key, &m, vec![], "alt-flags", true, "c1c3c2");
    asn1_enc_event(t, &sess(), &key, &m, vec![], "alt-flags", false, "c1c2c3");
}

/// operand pairs (a, b, op) with a, b < m such that the RAW 256-bit result (a - b mod 2^256 for "sub", a + b mod 2^256 for "add") has every 64-bit
/// limb taken from {0, 1, 2^32-1, 2^32, 2^64-1}: b is random, a is solved for; `stride` thins the 625 patterns
pub fn limb_pattern_pairs(rng: &mut Rng, modulus_hex: &str, stride: usize) -> Vec<(Vec<u8>, Vec<u8>, &'static str)> {
    let m = hexb(modulus_hex);
    let vals: [u64; 5] = [0, 1, 0xffff_ffff, 1 << 32, u64::MAX];
    let add256 = |x: &[u8], y: &[u8]| -> Vec<u8> { let mut o = vec![0u8; 32]; let mut c = 0u16; for i in (0..32).rev() { let s = x[i] as u16 + y[i] as u16 + c; o[i] = s as u8; c = s >> 8; } o };
    let sub256 = |x: &[u8], y: &[u8]| -> Vec<u8> { let mut o = vec![0u8; 32]; let mut br = 0i16; for i in (0..32).rev() { let d = x[i] as i16 - y[i] as i16 - br; if d < 0 { o[i] = (d + 256) as u8; br = 1; } else { o[i] = d as u8; br = 0; } } o };
    let mut out = vec![];
    let mut n = 0usize;
    for l3 in vals { for l2 in vals { for l1 in vals { for l0 in vals {
        n += 1;
        if n % stride != 0 { continue; }
        let d: Vec<u8> = [l3, l2, l1, l0].iter().flat_map(|x| x.to_be_bytes()).collect();
        // a few b per pattern: random canonical values, one near the modulus, one small
        for which in 0..2 {
            let mut b = rng.bytes(32); if which == 1 { b = be_add_small(&m, -(1 + rng.below(1000) as i64)); }
            if b.as_slice() >= m.as_slice() { b[0] = 0; }
            let a = add256(&b, &d);                                   // a - b = d (mod 2^256)
            if a.as_slice() < m.as_slice() { out.push((a, b.clone(), "sub")); }
            let a2 = sub256(&d, &b);                                  // a2 + b = d (mod 2^256)
            if a2.as_slice() < m.as_slice() { out.push((a2, b, "add")); }
        }
    } } } }
    out
}

// ---------------------------------------------------------------- C11 group law / field arithmetic
fn ec_event(t: &mut Tracer, sess: &str, op: &str, mut f: Value, out: Outcome<Point>) {
    f["prop"] = json!("C11");
    f["out"] = match out.ok() { Some(p) => pt_json(p), None => pt_json(&Point::zero()) };
    f["outcome"] = json!(out.name()); f["detail"] = json!(out.detail());
    t.emit(sess, op, f);
}
fn gp<T>(f: impl FnOnce() -> T) -> Outcome<T> { crate::trace::guard_plain(f) }

fn boundary_values(modulus_hex: &str, rng: &mut Rng, nrand: usize) -> Vec<(Vec<u8>, &'static str)> {
    let m = hexb(modulus_hex);
    let mut v: Vec<(Vec<u8>, &'static str)> = vec![];
    for d in 0..=4i64 { v.push((be_add_small(&vec![0u8; 32], d), "small")); }
    for d in 1..=4i64 { v.push((be_add_small(&m, -d), "near-modulus")); }
    // 2^256 - m +- 4
    let mut neg = vec![0u8; 32];
    let mut borrow = 0i32;
    for k in (0..32).rev() { let x = 0i32 - m[k] as i32 - borrow; neg[k] = x.rem_euclid(256) as u8; borrow = if x < 0 { 1 } else { 0 }; }
    for d in -4..=4i64 { v.push((be_add_small(&neg, d), "near-2^256-m")); }
    // boundary limbs
    let limbs: [u64; 5] = [0, 1, 1 << 32, 1 << 63, u64::MAX];
    for a in 0..5 { for b in 0..5 {
        let x: U256 = [limbs[a], limbs[b], limbs[(a + b) % 5], limbs[(a * 2 + b) % 5] >> 1];
        v.push((u256_be(&x), "boundary-limbs"));
    } }
    for _ in 0..nrand { let mut x = rng.bytes(32); x[0] &= 0x7f; v.push((x, "random")); }
    // keep canonical operands only (the property speaks about canonical operands)
    v.into_iter().filter(|(x, _)| x.as_slice() < m.as_slice()).collect()
}

pub fn drive_ec(t: &mut Tracer, tier: &str, seed: u64, plan: Option<String>) {
    let thorough = tier == "thorough";
    let mut rng = Rng(seed ^ 0x5211);
    let mut n = 0u64;
    let mut sess = || { n += 1; format!("sm2ec/{}", n) };
    let nhex = hexb(N_HEX);
    let rk = |rng: &mut Rng| { let mut d = rng.bytes(32); d[0] &= 0x7f; be_u256(&d) };
    let lam = |rng: &mut Rng| { let mut l = rng.bytes(32); l[0] &= 0x7f; l[31] |= 1; verif::fp_to_mont(&be_u256(&l)) };
    // ---- points: affine G, Jacobian multiples, re-randomised forms ----
    let g = g_mul(&[1, 0, 0, 0]);
    let mut pts: Vec<Point> = vec![g, g_mul(&[2, 0, 0, 0]), g_mul(&[3, 0, 0, 0])];
    for _ in 0..(if thorough { 12 } else { 3 }) { pts.push(g_mul(&rk(&mut rng))); }
    let inf = Point::zero();
    for (i, p) in pts.clone().iter().enumerate() {
        let p2 = rerandomize(p, &lam(&mut rng));
        let np = p.neg();
        let np2 = rerandomize(&np, &lam(&mut rng));
        let q = pts[(i + 1) % pts.len()];
        let cases: Vec<(Point, Point)> = vec![(*p, *p), (*p, p2), (p2, *p), (*p, np), (*p, np2), (np2, *p), (inf, *p), (*p, inf), (inf, inf), (*p, q), (p2, rerandomize(&q, &lam(&mut rng)))];
        for (a, b) in cases {
            ec_event(t, &sess(), "ec.add", json!({"p": pt_json(&a), "q": pt_json(&b)}), gp(|| a.point_add(&b)));
        }
        for a in [*p, p2, inf] {
            ec_event(t, &sess(), "ec.dbl", json!({"p": pt_json(&a)}), gp(|| a.point_dbl()));
            ec_event(t, &sess(), "ec.neg", json!({"p": pt_json(&a)}), gp(|| a.neg()));
        }
        ec_event(t, &sess(), "ec.affine", json!({"p": pt_json(&p2)}), gp(|| p2.to_affine_point()));
        // validity predicates on valid and invalid representations
        let mut off = p2; off.y[0] ^= 1;
        let mut off2 = *p; off2.x[3] ^= 1 << 40;
        for a in [*p, p2, inf, off, off2] {
            let o = gp(|| a.is_valid());
            t.emit(&sess(), "ec.valid", json!({"prop": "C11", "p": pt_json(&a), "valid": if o.ok() == Some(&true) { 1 } else { 0 }, "outcome": o.name(), "detail": o.detail()}));
        }
    }
    // ---- the point at infinity in OTHER representations than Point::zero(): what P + (-P), [n]G, [n]P leave behind, and (t^2, t^3, 0) --
    //      as operands of every operation (an identity test that compares with the canonical form misses them) ----
    {
        let (p, q) = (pts[1], pts[3 % pts.len()]);
        let t3 = verif::fp_to_mont(&[3, 0, 0, 0]);
        let infs: Vec<Point> = vec![p.point_add(&p.neg()), g_mul(&be_u256(&nhex)), q.scalar_mul(&be_u256(&nhex)),
            Point { x: verif::fp_mont_mul(&t3, &t3), y: verif::fp_mont_mul(&verif::fp_mont_mul(&t3, &t3), &t3), z: [0, 0, 0, 0] }, Point::zero().neg()];
        for (i, o) in infs.iter().enumerate() {
            let o2 = infs[(i + 1) % infs.len()];
            for (a, b) in [(*o, q), (q, *o), (*o, o2), (*o, Point::zero()), (Point::zero(), *o), (*o, rerandomize(&q, &lam(&mut rng)))] {
                ec_event(t, &sess(), "ec.add", json!({"p": pt_json(&a), "q": pt_json(&b)}), gp(|| a.point_add(&b)));
            }
            ec_event(t, &sess(), "ec.dbl", json!({"p": pt_json(o)}), gp(|| o.point_dbl()));
            ec_event(t, &sess(), "ec.neg", json!({"p": pt_json(o)}), gp(|| o.neg()));
            let k = be_add_small(&vec![0u8; 32], 7 + i as i64); let ku = be_u256(&k);
            ec_event(t, &sess(), "ec.smul", json!({"p": pt_json(o), "k": bytes(&k)}), gp(|| o.scalar_mul(&ku)));
            let v = gp(|| o.is_valid());
            t.emit(&sess(), "ec.valid", json!({"prop": "C11", "p": pt_json(o), "valid": if v.ok() == Some(&true) { 1 } else { 0 }, "outcome": v.name(), "detail": v.detail()}));
        }
    }
    // ---- representations with SPECIAL stored Z limbs (the plain integer 1 -- not the Montgomery one --, 2, single-limb values, p-1 ...):
    //      shortcuts keyed on the representation of Z ("already affine", "Z is one") must not misfire on them ----
    let pm1 = be_u256(&be_add_small(&hexb(P_HEX), -1));
    for (i, zl) in [[1u64, 0, 0, 0], [2, 0, 0, 0], [0, 1, 0, 0], [0, 0, 1, 0], [0, 0, 0, 1], [0, 0, 0, 1 << 63], pm1, verif::fp_to_mont(&pm1), verif::fp_to_mont(&[2, 0, 0, 0])].iter().enumerate() {
        let p = pts[i % pts.len()];
        let p3 = rerandomize(&p.to_affine_point(), zl);
        ec_event(t, &sess(), "ec.affine", json!({"p": pt_json(&p3)}), gp(|| p3.to_affine_point()));
        ec_event(t, &sess(), "ec.add", json!({"p": pt_json(&p3), "q": pt_json(&p)}), gp(|| p3.point_add(&p)));
        ec_event(t, &sess(), "ec.add", json!({"p": pt_json(&g), "q": pt_json(&p3)}), gp(|| g.point_add(&p3)));
        ec_event(t, &sess(), "ec.dbl", json!({"p": pt_json(&p3)}), gp(|| p3.point_dbl()));
        let o = gp(|| p3.is_valid());
        t.emit(&sess(), "ec.valid", json!({"prop": "C11", "p": pt_json(&p3), "valid": if o.ok() == Some(&true) { 1 } else { 0 }, "outcome": o.name(), "detail": o.detail()}));
        let k = be_add_small(&vec![0u8; 32], 5 + i as i64); let ku = be_u256(&k);
        ec_event(t, &sess(), "ec.smul", json!({"p": pt_json(&p3), "k": bytes(&k)}), gp(|| p3.scalar_mul(&ku)));
    }
    // ---- scalar multiplication: special and random scalars, affine and Jacobian base points ----
    let mut scalars: Vec<Vec<u8>> = vec![vec![0u8; 32], be_add_small(&vec![0u8; 32], 1), be_add_small(&vec![0u8; 32], 2), be_add_small(&nhex, -1), nhex.clone(), vec![0xffu8; 32]];
    for d in 1..=40i64 { if thorough || d % 4 == 2 || d == 1 { scalars.push(be_add_small(&nhex, d)); } }
    for _ in 0..(if thorough { 40 } else { 6 }) { scalars.push(rng.bytes(32)); }
    for w in 0..4 { scalars.push(crate::suites::sm9::sparse_scalar(&mut rng, w)); }       // zero 64-bit limbs / zero nibbles
    for k in limb_pattern_scalars() { scalars.push(k); }
    for (i, k) in scalars.iter().enumerate() {
        let base = if i % 2 == 0 { pts[i % pts.len()].to_affine_point() } else { pts[i % pts.len()] };
        let ku = be_u256(k);
        ec_event(t, &sess(), "ec.smul", json!({"p": pt_json(&base), "k": bytes(k)}), gp(|| base.scalar_mul(&ku)));
        let gb = g.to_affine_point();
        ec_event(t, &sess(), "ec.smul", json!({"p": pt_json(&gb), "k": bytes(k)}), gp(|| gb.scalar_mul(&ku)));
        ec_event(t, &sess(), "ec.gmul", json!({"k": bytes(k)}), gp(|| g_mul(&ku)));
    }
    // the AFFINE validity predicate (reads x and y only), incl. the two curve points with x = 0 -- (0, +-sqrt b): b is a square modulo p -- and
    // an off-curve point with x = 0
    {
        let b_mont = verif::fp_to_mont(&be_u256(&hexb("28e9fa9e9d9f5e344d5a9e4bcf6509a7f39789f515ab8f92ddbcbd414d940e93")));
        let one = verif::fp_to_mont(&[1, 0, 0, 0]);
        let mut cands: Vec<Point> = vec![pts[0].to_affine_point(), pts[2 % pts.len()].to_affine_point(), { let mut q = pts[1].to_affine_point(); q.y[1] ^= 4; q }];
        if let Outcome::Ok(yb) = crate::trace::guard(|| verif::fp_sqrt(&b_mont)) {
            cands.push(Point { x: [0, 0, 0, 0], y: yb, z: one });
            cands.push(Point { x: [0, 0, 0, 0], y: verif::fp_neg(&yb), z: one });
            cands.push(Point { x: [0, 0, 0, 0], y: verif::fp_double(&yb), z: one });
        }
        for a in cands {
            let o = gp(|| a.is_valid_affine_point());
            t.emit(&sess(), "ec.valid_affine", json!({"prop": "C11", "p": pt_json(&a), "valid": if o.ok() == Some(&true) { 1 } else { 0 }, "outcome": o.name(), "detail": o.detail()}));
            let o2 = gp(|| a.is_valid());
            t.emit(&sess(), "ec.valid", json!({"prop": "C11", "p": pt_json(&a), "valid": if o2.ok() == Some(&true) { 1 } else { 0 }, "outcome": o2.name(), "detail": o2.detail()}));
        }
    }
    // the generator and its NEGATIVE as ordinary (affine and Jacobian) base points of the variable-base multiplication: a fixed-base shortcut keyed on
    // the base must compare the whole point
    {
        let (gp1, gn) = (g.to_affine_point(), g.neg().to_affine_point());
        let gnj = rerandomize(&gn, &lam(&mut rng));
        for k in [be_add_small(&vec![0u8; 32], 1), be_add_small(&vec![0u8; 32], 2), be_add_small(&nhex, -1), rng.bytes(32), scalars[7 % scalars.len()].clone()] {
            let ku = be_u256(&k);
            for b in [gp1, gn, gnj] { ec_event(t, &sess(), "ec.smul", json!({"p": pt_json(&b), "k": bytes(&k)}), gp(|| b.scalar_mul(&ku))); }
        }
    }
    // every single-byte scalar b * 256^i through the fixed-base multiplication (quick: a stride)
    for i in 0..32usize {
        for b in 1..=255u32 {
            if !thorough && (b as usize * 7 + i) % 23 != 0 { continue; }
            let mut k = vec![0u8; 32]; k[31 - i] = b as u8;
            let ku = be_u256(&k);
            ec_event(t, &sess(), "ec.gmul", json!({"k": bytes(&k)}), gp(|| g_mul(&ku)));
        }
    }
    // ---- field arithmetic modulo p (stored representatives) and modulo n ----
    let vals = boundary_values(P_HEX, &mut rng, if thorough { 30 } else { 6 });
    for (i, (a, ca)) in vals.iter().enumerate() {
        let au = be_u256(a);
        for f in ["neg", "dbl", "tpl", "to_mont", "from_mont", "inv", "sqrt", "sqr"] {      // (fp_div2 is dead code, known wrong, bound to no property: not driven)
            if !thorough && f == "inv" && i % 3 != 0 { continue; }
            if f == "sqrt" {
                let o = crate::trace::guard(|| verif::fp_sqrt(&au));
                let ob = o.ok().map(|x| u256_be(x)).unwrap_or(vec![0u8; 32]);
                t.emit(&sess(), "fp.op", json!({"prop": "C11", "f": f, "cls": ca, "a": bytes(a), "b": bytes(&[0u8; 32]), "out": bytes(&ob), "outcome": o.name(), "detail": o.detail()}));
                continue;
            }
            let o = gp(|| match f { "neg" => verif::fp_neg(&au), "dbl" => verif::fp_double(&au), "tpl" => verif::fp_triple(&au), "to_mont" => verif::fp_to_mont(&au),
                                     "from_mont" => verif::fp_from_mont(&au), "sqr" => verif::fp_sqr(&au), _ => verif::fp_inv(&au) });
            let ob = o.ok().map(|x| u256_be(x)).unwrap_or(vec![0u8; 32]);
            t.emit(&sess(), "fp.op", json!({"prop": "C11", "f": f, "cls": ca, "a": bytes(a), "b": bytes(&[0u8; 32]), "out": bytes(&ob), "outcome": o.name(), "detail": o.detail()}));
        }
        for (j, (b, cb)) in vals.iter().enumerate() {
            if !thorough && (i * 5 + j) % 7 != 0 { continue; }
            let bu = be_u256(b);
            for f in ["add", "sub", "mul", "tmul"] {
                let o = gp(|| match f { "add" => verif::fp_add(&au, &bu), "sub" => verif::fp_sub(&au, &bu), "tmul" => verif::fp_mul(&au, &bu), _ => verif::fp_mont_mul(&au, &bu) });
                let ob = o.ok().map(|x| u256_be(x)).unwrap_or(vec![0u8; 32]);
                let cls = if *ca == "random" && *cb == "random" { "random" } else if *ca == "random" { cb } else { ca };
                t.emit(&sess(), "fp.op", json!({"prop": "C11", "f": f, "cls": cls, "a": bytes(a), "b": bytes(b), "out": bytes(&ob), "outcome": o.name(), "detail": o.detail()}));
            }
        }
    }
    // the trait-level product with operands whose STORED form is 1, 2 or p-1 (not the Montgomery one): shortcuts keyed on "multiplying by one"
    for (a, ca) in vals.iter() {
        for sb in [be_add_small(&vec![0u8; 32], 1), be_add_small(&vec![0u8; 32], 2), be_add_small(&hexb(P_HEX), -1)] {
            for swap in [false, true] {
                let (x, y) = if swap { (sb.clone(), a.clone()) } else { (a.clone(), sb.clone()) };
                let (xu, yu) = (be_u256(&x), be_u256(&y));
                let o = gp(|| verif::fp_mul(&xu, &yu));
                let ob = o.ok().map(|v| u256_be(v)).unwrap_or(vec![0u8; 32]);
                t.emit(&sess(), "fp.op", json!({"prop": "C11", "f": "tmul", "cls": format!("{}.stored-special", ca), "a": bytes(&x), "b": bytes(&y), "out": bytes(&ob), "outcome": o.name(), "detail": o.detail()}));
            }
        }
    }
    // operands whose STORED form has its low 64-bit words zero (k * 2^64, k * 2^128, k * 2^192): the low half of the 512-bit product, and of the
    // Montgomery correction term, is zero -- the carry out of the low half is NOT implied by "both operands non-zero"
    {
        let sp = |hi: [u64; 4]| -> Vec<u8> { u256_be(&hi) };
        let sparse: Vec<Vec<u8>> = vec![sp([0, 0, 0x1234_5678_9abc_def1, 0x0fed_cba9]), sp([0, 0, 1, 0]), sp([0, 0, 0, 1]), sp([0, 0, 0, 0x8000_0000_0000_0000]), sp([0, 1, 0, 0]), sp([0, 0, u64::MAX, 0x7fff_ffff]),
                                        sp([0, 0x8000_0000_0000_0000, 0, 0]), sp([0, 0, 0x8000_0000_0000_0000, 0]), sp([0, 0, 0, 0xffff_fffe_0000_0000])];
        for (i, a) in sparse.iter().enumerate() {
            for (j, b) in sparse.iter().enumerate() {
                if !thorough && (i + 2 * j) % 3 != 0 { continue; }
                let (au, bu) = (be_u256(a), be_u256(b));
                for f in ["mul", "tmul"] {
                    let o = gp(|| if f == "mul" { verif::fp_mont_mul(&au, &bu) } else { verif::fp_mul(&au, &bu) });
                    let ob = o.ok().map(|x| u256_be(x)).unwrap_or(vec![0u8; 32]);
                    t.emit(&sess(), "fp.op", json!({"prop": "C11", "f": f, "cls": "low-words-zero", "a": bytes(a), "b": bytes(b), "out": bytes(&ob), "outcome": o.name(), "detail": o.detail()}));
                }
            }
            let au = be_u256(a);
            let o = gp(|| verif::fp_sqr(&au));
            let ob = o.ok().map(|x| u256_be(x)).unwrap_or(vec![0u8; 32]);
            t.emit(&sess(), "fp.op", json!({"prop": "C11", "f": "sqr", "cls": "low-words-zero", "a": bytes(a), "b": bytes(&[0u8; 32]), "out": bytes(&ob), "outcome": o.name(), "detail": o.detail()}));
        }
        // the same shapes modulo n
        for (i, a) in sparse.iter().enumerate() {
            let b = &sparse[(i * 5 + 2) % sparse.len()];
            let (au, bu) = (be_u256(a), be_u256(b));
            let o = gp(|| verif::fn_mul(&au, &bu));
            let ob = o.ok().map(|x| u256_be(x)).unwrap_or(vec![0u8; 32]);
            t.emit(&sess(), "fn.op", json!({"prop": "C11", "f": "mul", "cls": "low-words-zero", "a": bytes(a), "b": bytes(b), "out": bytes(&ob), "outcome": o.name(), "detail": o.detail()}));
        }
    }
    // exponentiation modulo p with exponents that contain EVERY window digit (the library itself only uses p - 2 and (p + 1) / 4)
    {
        let mut exps: Vec<Vec<u8>> = vec![be_add_small(&vec![0u8; 32], 9), hexb("0123456789abcdef0123456789abcdef0123456789abcdeffedcba9876543210"), vec![0x99u8; 32], vec![0xffu8; 32], be_add_small(&vec![0u8; 32], 0)];
        for _ in 0..(if thorough { 12 } else { 3 }) { exps.push(rng.bytes(32)); }
        for (i, e) in exps.iter().enumerate() {
            let (a, _) = &vals[(i * 3 + 1) % vals.len()];
            let (au, eu) = (be_u256(a), be_u256(e));
            let o = gp(|| verif::fp_pow(&au, &eu));
            let ob = o.ok().map(|x| u256_be(x)).unwrap_or(vec![0u8; 32]);
            t.emit(&sess(), "fp.op", json!({"prop": "C11", "f": "pow", "cls": "all-digits", "a": bytes(a), "b": bytes(e), "out": bytes(&ob), "outcome": o.name(), "detail": o.detail()}));
        }
    }
    let nvals = boundary_values(N_HEX, &mut rng, if thorough { 30 } else { 6 });
    for (i, (a, ca)) in nvals.iter().enumerate() {
        let au = be_u256(a);
        for (j, (b, cb)) in nvals.iter().enumerate() {
            if !thorough && (i * 3 + j) % 7 != 0 { continue; }
            let bu = be_u256(b);
            for f in ["add", "sub", "mul"] {
                let o = gp(|| match f { "add" => verif::fn_add(&au, &bu), "sub" => verif::fn_sub(&au, &bu), _ => verif::fn_mul(&au, &bu) });
                let ob = o.ok().map(|x| u256_be(x)).unwrap_or(vec![0u8; 32]);
                let cls = if *ca == "random" { cb } else { ca };
                t.emit(&sess(), "fn.op", json!({"prop": "C11", "f": f, "cls": cls, "a": bytes(a), "b": bytes(b), "out": bytes(&ob), "outcome": o.name(), "detail": o.detail()}));
            }
        }
        if i % 4 == 0 {
            // inversion as used by signing: a^(n-2)
            let e = be_add_small(&nhex, -2);
            let o = gp(|| verif::fn_pow(&au, &be_u256(&e)));
            let ob = o.ok().map(|x| u256_be(x)).unwrap_or(vec![0u8; 32]);
            t.emit(&sess(), "fn.op", json!({"prop": "C11", "f": "pow", "cls": ca, "a": bytes(a), "b": bytes(&e), "out": bytes(&ob), "outcome": o.name(), "detail": o.detail()}));
        }
    }
    // ---- operands computed by the specification (PlanField) so that a Montgomery product lands in [m, 2^256): the rare branch of the final correction ----
    for v in read_plan(&plan) {
        if v["kind"] == "samey" {
            // two DIFFERENT curve points with the same y (the specification solved x^2 + x1 x + x1^2 + a = 0): a sum that decides
            // "same point" from one coordinate only doubles here
            let mk = |x: &[u8], y: &[u8]| Point { x: verif::fp_to_mont(&be_u256(x)), y: verif::fp_to_mont(&be_u256(y)), z: verif::fp_to_mont(&[1, 0, 0, 0]) };
            let (p1, p2) = (mk(&arr(&v["x1"]), &arr(&v["y"])), mk(&arr(&v["x2"]), &arr(&v["y"])));
            let (j1, j2) = (rerandomize(&p1, &lam(&mut rng)), rerandomize(&p2, &lam(&mut rng)));
            for (a, b) in [(p1, p2), (p2, p1), (j1, p2), (p1, j2), (j1, j2), (p1, p2.neg()), (j2.neg(), j1)] {
                ec_event(t, &sess(), "ec.add", json!({"p": pt_json(&a), "q": pt_json(&b)}), gp(|| a.point_add(&b)));
            }
            continue;
        }
        let (a, b, f) = (arr(&v["a"]), arr(&v["b"]), v["f"].as_str().unwrap_or("").to_string());
        let (au, bu) = (be_u256(&a), be_u256(&b));
        if v["kind"] == "fp" {
            let o = gp(|| match f.as_str() { "mul" => verif::fp_mont_mul(&au, &bu), "add" => verif::fp_add(&au, &bu), "to_mont" => verif::fp_to_mont(&au), _ => verif::fp_from_mont(&au) });
            let ob = o.ok().map(|x| u256_be(x)).unwrap_or(vec![0u8; 32]);
            t.emit(&sess(), "fp.op", json!({"prop": "C11", "f": f, "cls": "planned-window", "a": bytes(&a), "b": bytes(&b), "out": bytes(&ob), "outcome": o.name(), "detail": o.detail()}));
        } else if v["kind"] == "fn" {
            let o = gp(|| if f == "add" { verif::fn_add(&au, &bu) } else { verif::fn_mul(&au, &bu) });
            let ob = o.ok().map(|x| u256_be(x)).unwrap_or(vec![0u8; 32]);
            t.emit(&sess(), "fn.op", json!({"prop": "C11", "f": f, "cls": "planned-window", "a": bytes(&a), "b": bytes(&b), "out": bytes(&ob), "outcome": o.name(), "detail": o.detail()}));
        }
    }
    // ---- raw sums / differences with patterned limbs (carry / borrow chains of the modular corrections), modulo p and modulo n ----
    for (mhex, is_p) in [(P_HEX, true), (N_HEX, false)] {
        for (a, b, f) in limb_pattern_pairs(&mut rng, mhex, if thorough { 1 } else { 2 }) {
            let (au, bu) = (be_u256(&a), be_u256(&b));
            let o = gp(|| match (is_p, f) { (true, "add") => verif::fp_add(&au, &bu), (true, _) => verif::fp_sub(&au, &bu), (false, "add") => verif::fn_add(&au, &bu), _ => verif::fn_sub(&au, &bu) });
            let ob = o.ok().map(|x| u256_be(x)).unwrap_or(vec![0u8; 32]);
            t.emit(&sess(), if is_p { "fp.op" } else { "fn.op" }, json!({"prop": "C11", "f": f, "cls": "limb-pattern", "a": bytes(&a), "b": bytes(&b), "out": bytes(&ob), "outcome": o.name(), "detail": o.detail()}));
        }
    }
    // ---- the fixed-base table: all 32 x 255 entries, one session (exhaustive in both tiers) ----
    let ts = "sm2ec/table".to_string();
    for row in 0..32usize {
        for b in 1..=255usize {
            let x = verif::table_entry(row, 2 * b - 2);
            let y = verif::table_entry(row, 2 * b - 1);
            t.emit(&ts, "ec.table", json!({"prop": "C11", "row": row, "b": b, "x": bytes(&u256_be(&x)), "y": bytes(&u256_be(&y))}));
        }
    }
}
