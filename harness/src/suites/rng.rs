//! C14 driver: thousands of randomized operations under the RNG hooks, in two processes, plus injection scripts.
use crate::gen::Rng;
use crate::trace::Tracer;
use serde_json::{json, Value};

pub fn drive(t: &mut Tracer, tier: &str, seed: u64, child: bool) {
    let thorough = tier == "thorough";
    let mut rng = Rng(seed ^ if child { 0xc14c } else { 0xc14 });
    let sess = "rng/all";
    let mut real = 0u64;
    let count = if thorough { 8000 } else { 700 };
    let proc_id = if child { 2 } else { 1 };
    crate::suites::sm2::rng_ops_sm2(t, sess, proc_id, count, false, &mut rng, &mut real);
    crate::suites::sm9::rng_ops_sm9(t, sess, proc_id, if thorough { 600 } else { 208 }, false, &mut rng, &mut real);
    if child {
        return;
    }
    // out-of-range candidates offered through the hook: Accept must not fire on them
    crate::suites::sm2::rng_ops_sm2(t, sess, 1, if thorough { 90 } else { 30 }, true, &mut rng, &mut real);
    crate::suites::sm9::rng_ops_sm9(t, sess, 1, if thorough { 40 } else { 14 }, true, &mut rng, &mut real);
    // second process: a generator that is not freshly seeded repeats across processes
    let exe = std::env::current_exe().unwrap();
    let tmp = format!("{}.child", t.path);
    let st = std::process::Command::new(exe).args(["drive", "rngchild", "--tier", tier, "--seed", &seed.to_string(), "--out", &tmp]).status().expect("child");
    assert!(st.success());
    let text = std::fs::read_to_string(&tmp).unwrap();
    let _ = std::fs::remove_file(&tmp);
    for line in text.lines() {
        let mut v: Value = serde_json::from_str(line).unwrap();
        let o = v.as_object_mut().unwrap();
        o.remove("id"); o.remove("sess"); o.remove("op");
        if v["scripted"] == 0 && v["outcome"] == "ok" { real += 1; }
        t.emit(sess, "rng.op", v);
    }
    t.emit(sess, "rng.summary", json!({"prop": "C14", "count": real}));
}
