//! Trace recording: one JSON object per line.  The harness only drives and records; every
//! judgement is made by the TLA+ trace specifications.
use serde_json::{json, Map, Value};
use std::fs::File;
use std::io::{BufWriter, Write};
use std::panic::{catch_unwind, AssertUnwindSafe};
use std::sync::mpsc;
use std::time::Duration;

pub struct Tracer {
    out: BufWriter<File>,
    next_id: u64,
    pub count: u64,
    pub only: Option<String>,
    pub path: String,
}

pub fn bytes(b: &[u8]) -> Value {
    Value::Array(b.iter().map(|x| json!(*x)).collect())
}
pub fn words16(w: &[u32]) -> Value {
    // 32-bit words as [hi16, lo16] pairs (TLC integers are 32-bit signed)
    Value::Array(w.iter().map(|x| json!([x >> 16, x & 0xffff])).collect())
}
pub fn word16(x: u32) -> Value {
    json!([x >> 16, x & 0xffff])
}

impl Tracer {
    pub fn new(path: &str) -> Tracer {
        Tracer { out: BufWriter::new(File::create(path).expect("create trace")), next_id: 1, count: 0, only: None, path: path.to_string() }
    }
    /// Emit one event; `fields` must be a JSON object. `id`, `sess`, `op` are added.
    pub fn emit(&mut self, sess: &str, op: &str, fields: Value) -> u64 {
        let id = self.next_id;
        self.next_id += 1;
        if let Some(o) = &self.only {
            if o != sess {
                return id;
            }
        }
        self.count += 1;
        let mut m = Map::new();
        m.insert("id".into(), json!(id));
        m.insert("sess".into(), json!(sess));
        m.insert("op".into(), json!(op));
        if let Value::Object(o) = fields {
            for (k, v) in o {
                m.insert(k, v);
            }
        }
        serde_json::to_writer(&mut self.out, &Value::Object(m)).unwrap();
        self.out.write_all(b"\n").unwrap();
        id
    }
    pub fn flush(&mut self) {
        self.out.flush().unwrap();
    }
}

#[derive(Debug, Clone, PartialEq)]
pub enum Outcome<T> {
    Ok(T),
    Err(String),
    Panic(String),
    Timeout,
}
impl<T> Outcome<T> {
    pub fn name(&self) -> &'static str {
        match self {
            Outcome::Ok(_) => "ok",
            Outcome::Err(_) => "err",
            Outcome::Panic(_) => "panic",
            Outcome::Timeout => "timeout",
        }
    }
    pub fn detail(&self) -> String {
        match self {
            Outcome::Ok(_) => String::new(),
            Outcome::Err(s) | Outcome::Panic(s) => s.chars().take(120).collect(),
            Outcome::Timeout => "watchdog".into(),
        }
    }
    pub fn ok(&self) -> Option<&T> {
        if let Outcome::Ok(v) = self { Some(v) } else { None }
    }
}

pub fn silence_panics() {
    std::panic::set_hook(Box::new(|_| {}));
}

fn panic_msg(p: Box<dyn std::any::Any + Send>) -> String {
    if let Some(s) = p.downcast_ref::<&str>() {
        s.to_string()
    } else if let Some(s) = p.downcast_ref::<String>() {
        s.clone()
    } else {
        "panic".into()
    }
}

/// Run a fallible library call under panic capture (same thread).
pub fn guard<T, E: std::fmt::Debug>(f: impl FnOnce() -> Result<T, E>) -> Outcome<T> {
    match catch_unwind(AssertUnwindSafe(f)) {
        Ok(Ok(v)) => Outcome::Ok(v),
        Ok(Err(e)) => Outcome::Err(format!("{:?}", e)),
        Err(p) => Outcome::Panic(panic_msg(p)),
    }
}
/// Run an infallible library call under panic capture (same thread).
pub fn guard_plain<T>(f: impl FnOnce() -> T) -> Outcome<T> {
    match catch_unwind(AssertUnwindSafe(f)) {
        Ok(v) => Outcome::Ok(v),
        Err(p) => Outcome::Panic(panic_msg(p)),
    }
}
/// Run a call on THE worker thread under panic capture and a watchdog.  All calls share one long-lived worker thread (so that state a
/// library keeps per thread -- scratch buffers, caches -- is carried from call to call exactly as in a long-running program); a call
/// that does not return within `secs` is recorded as `Timeout`, the stuck worker is abandoned and a fresh one serves the next call.
type Job = Box<dyn FnOnce() + Send + 'static>;
static WORKER: std::sync::Mutex<Option<mpsc::Sender<Job>>> = std::sync::Mutex::new(None);
fn spawn_worker() -> mpsc::Sender<Job> {
    let (tx, rx) = mpsc::channel::<Job>();
    let _ = std::thread::Builder::new().stack_size(64 << 20).spawn(move || {
        for job in rx {
            job();
        }
    });
    tx
}
pub fn guard_timed<T: Send + 'static, E: std::fmt::Debug + Send + 'static>(
    secs: u64,
    f: impl FnOnce() -> Result<T, E> + Send + 'static,
) -> Outcome<T> {
    let (tx, rx) = mpsc::channel();
    let mut job: Job = Box::new(move || {
        let r = guard(f);
        let _ = tx.send(r);
    });
    let mut w = WORKER.lock().unwrap();
    for _ in 0..2 {
        if w.is_none() {
            *w = Some(spawn_worker());
        }
        match w.as_ref().unwrap().send(job) {
            Ok(()) => break,
            Err(e) => {
                job = e.0;
                *w = None;
            }
        }
    }
    match rx.recv_timeout(Duration::from_secs(secs)) {
        Ok(r) => r,
        Err(_) => {
            *w = None;
            Outcome::Timeout
        }
    }
}
