//! Message generators -- must agree byte for byte with spec/Gen.tla.
use serde_json::{json, Value};

#[derive(Clone, Debug)]
pub struct Gen {
    pub k: &'static str,
    pub seed: u64,
}
pub fn gen_byte(k: &str, seed: u64, i: u64) -> u8 {
    match k {
        "zero" => 0,
        "ff" => 255,
        "inc" => ((seed + i) % 256) as u8,
        "bit" => {
            if i == seed / 8 { 1u8 << (7 - (seed % 8)) } else { 0 }
        }
        "mix" => {
            let j = (i + seed) % 46337;
            (((j * j) / 7 + j * 3 + i / 46337 + seed / 46337) % 256) as u8
        }
        _ => panic!("unknown generator"),
    }
}
impl Gen {
    pub fn new(k: &'static str, seed: u64) -> Gen { Gen { k, seed } }
    pub fn msg(&self, len: usize) -> Vec<u8> {
        (0..len as u64).map(|i| gen_byte(self.k, self.seed, i)).collect()
    }
    pub fn json(&self) -> Value { json!({"k": self.k, "seed": self.seed}) }
}
pub fn raw_json() -> Value { json!({"k": "raw", "seed": 0}) }

/// Small deterministic PRNG for driver choices (SplitMix64) -- everything derives from VERIF_SEED.
pub struct Rng(pub u64);
impl Rng {
    pub fn next(&mut self) -> u64 {
        self.0 = self.0.wrapping_add(0x9E3779B97F4A7C15);
        let mut z = self.0;
        z = (z ^ (z >> 30)).wrapping_mul(0xBF58476D1CE4E5B9);
        z = (z ^ (z >> 27)).wrapping_mul(0x94D049BB133111EB);
        z ^ (z >> 31)
    }
    pub fn below(&mut self, n: u64) -> u64 { self.next() % n }
    pub fn bytes(&mut self, n: usize) -> Vec<u8> { (0..n).map(|_| (self.next() >> 32) as u8).collect() }
}

/// A copy of `data` placed so that its first byte sits at address = `want` (mod 16).  Every byte-slice argument handed to the library goes
/// through `realign`, which cycles `want` through 0..16 from call to call: results must not depend on where a slice happens to lie in memory
/// (word-at-a-time fast paths, `align_to`), and a Vec straight from the allocator is always 16-byte aligned.
pub struct Placed { buf: Vec<u8>, start: usize, len: usize }
impl Placed {
    pub fn new(data: &[u8], want: usize) -> Placed {
        let mut buf = vec![0xA5u8; data.len() + 32];
        let base = buf.as_ptr() as usize;
        let start = (16 + want - (base % 16)) % 16;
        buf[start..start + data.len()].copy_from_slice(data);
        Placed { buf, start, len: data.len() }
    }
    pub fn get(&self) -> &[u8] { &self.buf[self.start..self.start + self.len] }
}
static ALIGN_CTR: std::sync::atomic::AtomicUsize = std::sync::atomic::AtomicUsize::new(0);
pub fn realign(data: &[u8]) -> Placed {
    let n = ALIGN_CTR.fetch_add(1, std::sync::atomic::Ordering::Relaxed);
    // mostly odd offsets, every residue in turn; offset 0 is what a plain Vec gives anyway
    Placed::new(data, [1usize, 0, 3, 8, 5, 2, 7, 4, 9, 15, 11, 6, 13, 10, 12, 14][n % 16])
}
