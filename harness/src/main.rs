//! gmverif -- drives the real gm-rs library and records ndjson traces for the TLA+ trace
//! specifications in /verif/spec.  It never judges.
mod gen;
mod suites;
mod trace;

fn arg(args: &[String], name: &str) -> Option<String> {
    args.iter().position(|a| a == name).and_then(|i| args.get(i + 1).cloned())
}

fn main() {
    let args: Vec<String> = std::env::args().collect();
    if args.len() >= 2 && args[1] == "craftz" {
        // one-off helper: show which ZUC add31-boundary (key, IV) pairs the search finds
        let mut rng = gen::Rng(5);
        for pos in 1..=6usize { for target in [0x7fff_ffffu64, 0x8000_0000, 0x8000_0001] {
            let r = suites::zuc::craft_add31(&mut rng, pos, target);
            println!("pos {} target {:x}: {}", pos, target, r.map(|(k, v)| format!("{} {}", hex::encode(k), hex::encode(v))).unwrap_or("none".into()));
        } }
        return;
    }
    if args.len() >= 3 && args[1] == "findk" {
        // one-off helper: search ephemeral scalars whose [k]G has `zeros` leading zero bytes in x / y (used to pre-compute driver constants)
        let zeros: usize = args[2].parse().unwrap();
        let mut rng = gen::Rng(args.get(3).and_then(|s| s.parse().ok()).unwrap_or(7));
        for want_y in [false, true] {
            if let Some(k) = suites::sm2::search_k(&mut rng, want_y, zeros, 40_000_000) { println!("{} {}", if want_y { "y" } else { "x" }, hex::encode(k)); }
        }
        return;
    }
    if args.len() < 3 || args[1] != "drive" {
        eprintln!("usage: gmverif drive <suite> --tier quick|thorough --seed N --out FILE [--plan FILE]");
        std::process::exit(2);
    }
    let suite = args[2].clone();
    let tier = arg(&args, "--tier").unwrap_or_else(|| "quick".into());
    let seed: u64 = arg(&args, "--seed").and_then(|s| s.parse().ok()).unwrap_or(1);
    let out = arg(&args, "--out").expect("--out");
    let plan = arg(&args, "--plan");
    trace::silence_panics();
    let mut t = trace::Tracer::new(&out);
    t.only = arg(&args, "--only-sess");
    // a panic that escapes a suite (a library call the driver did not wrap) must not look like a tool failure: it is recorded as an event of
    // its own, which every trace specification reports as a deviation (unknown operation) with the panic message
    let run = std::panic::catch_unwind(std::panic::AssertUnwindSafe(|| {
    match suite.as_str() {
        "sm3" => suites::sm3::drive(&mut t, &tier, seed),
        "zuc" => suites::zuc::drive_stream(&mut t, &tier, seed, plan),
        "eea" => suites::zuc::drive_eea(&mut t, &tier, seed),
        "sm2sig" => suites::sm2::drive_sign(&mut t, &tier, seed, plan),
        "sm2ver" => suites::sm2::drive_verify(&mut t, &tier, seed, plan),
        "sm2enc" => suites::sm2::drive_encrypt(&mut t, &tier, seed, plan),
        "sm2dec" => suites::sm2::drive_decrypt_faults(&mut t, &tier, seed, plan),
        "sm2kex" => suites::sm2::drive_kex(&mut t, &tier, seed, plan),
        "rng" => suites::rng::drive(&mut t, &tier, seed, false),
        "rngchild" => suites::rng::drive(&mut t, &tier, seed, true),
        "sm2codec" => suites::sm2::drive_codec(&mut t, &tier, seed),
        "sm2ec" => suites::sm2::drive_ec(&mut t, &tier, seed, plan),
        "sm9hash" => suites::sm9::drive_hash(&mut t, &tier, seed, plan),
        "sm9sig" => suites::sm9::drive_sign(&mut t, &tier, seed, plan),
        "sm9enc" => suites::sm9::drive_encrypt(&mut t, &tier, seed, plan),
        "sm9kex" => suites::sm9::drive_kex(&mut t, &tier, seed),
        "sm9pair" => suites::sm9::drive_pairing(&mut t, &tier, seed),
        "sm9arith" => suites::sm9::drive_arith(&mut t, &tier, seed),
        "api" => suites::api::drive(&mut t, &tier, seed),
        "sm4blk" => suites::sm4::drive_block(&mut t, &tier, seed, plan),
        "sm4mode" => suites::sm4::drive_modes(&mut t, &tier, seed),
        _ => {
            eprintln!("unknown suite {}", suite);
            std::process::exit(2);
        }
    }
    }));
    if let Err(p) = run {
        let msg = if let Some(s) = p.downcast_ref::<&str>() { s.to_string() } else if let Some(s) = p.downcast_ref::<String>() { s.clone() } else { "panic".to_string() };
        t.emit("driver/panic", "driver.unguarded-panic", serde_json::json!({"prop": "C20", "outcome": "panic", "fault": "driver", "len": 0, "detail": msg.chars().take(200).collect::<String>()}));
    }
    t.flush();
    eprintln!("gmverif: suite {} tier {} seed {}: {} events", suite, tier, seed, t.count);
}
