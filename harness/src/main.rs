//! gmverif -- drives the real gm-rs library and records ndjson traces for the TLA+ trace
//! specifications in /verif/spec.  It never judges.
mod gen;
mod suites;
mod trace;

fn arg(args: &[String], name: &str) -> Option<String> {
    args.iter().position(|a| a == name).and_then(|i| args.get(i + 1).cloned())
}

fn main() {
    let args: Vec<String> = std::env::args().collect();
    if args.len() >= 2 && args[1] == "craftz" {
        // one-off helper: show which ZUC add31-boundary (key, IV) pairs the search finds
        let mut rng = gen::Rng(5);
        for pos in 1..=6usize { for target in [0x7fff_ffffu64, 0x8000_0000, 0x8000_0001] {
            let r = suites::zuc::craft_add31(&mut rng, pos, target);
            println!("pos {} target {:x}: {}", pos, target, r.map(|(k, v)| format!("{} {}", hex::encode(k), hex::encode(v))).unwrap_or("none".into()));
        } }
        return;
    }
    if args.len() >= 2 && args[1] == "findzuc" {
        // one-off helper (results are committed as constants in suites/zuc.rs and RE-CLASSIFIED by the specification on every run): (key, IV) pairs for
        // which some round within the first 2000 keystream words starts with R1 = 0 or R2 = 0 (2^-32 per round each).  The library with its
        // gm_rs_verif state accessor is used as the search predicate only.
        let found = std::sync::Arc::new(std::sync::Mutex::new(Vec::<String>::new()));
        let mut hs = vec![];
        for th in 0..16u64 {
            let found = found.clone();
            hs.push(std::thread::spawn(move || {
                let mut rng = gen::Rng(0x2c0000 + th);
                loop {
                    if found.lock().unwrap().len() >= 10 { return; }
                    let (key, iv) = (rng.bytes(16), rng.bytes(16));
                    let mut z = gm_zuc::ZUC::new(&key, &iv);
                    for step in 0..2000u32 {
                        let (_, r1, r2) = z.verif_state();
                        let (cells, _, _) = z.verif_state();
                        let x1 = ((cells[11] & 0xffff) << 16) | (cells[9] >> 15);
                        let x2 = ((cells[7] & 0xffff) << 16) | (cells[5] >> 15);
                        let (w1, w2) = (r1.wrapping_add(x1), r2 ^ x2);
                        let (uu, vv) = ((w1 << 16) | (w2 >> 16), (w2 << 16) | (w1 >> 16));
                        if uu == 0 || vv == 0 {
                            let mut f = found.lock().unwrap();
                            f.push(format!("(\"{}\", \"{}\", {}, \"{}\")", hex::encode(&key), hex::encode(&iv), step, if uu == 0 { "sbox-u" } else { "sbox-v" }));
                            eprintln!("{}", f.last().unwrap());
                        }
                        if r1 == 0 || r2 == 0 {
                            let mut f = found.lock().unwrap();
                            f.push(format!("(\"{}\", \"{}\", {}, \"{}\")", hex::encode(&key), hex::encode(&iv), step, if r2 == 0 { "r2" } else { "r1" }));
                            eprintln!("{}", f.last().unwrap());
                        }
                        let _ = z.generate_keystream(1);
                    }
                }
            }));
        }
        for h in hs { let _ = h.join(); }
        for l in found.lock().unwrap().iter() { println!("{}", l); }
        return;
    }
    if args.len() >= 2 && args[1] == "findsm3" {
        // one-off helper (results are committed as constants in suites/sm3.rs and RE-CLASSIFIED by the specification on every run): 64-byte first
        // blocks for which, at the start of some round j >= 16 of the first compression, two of the registers fed to FF (A, B, C) or to GG (E, F, G)
        // coincide, or a message word W_j / W'_j is zero.  Straight transcription of GB/T 32905 used as a search predicate only.
        fn p0(x: u32) -> u32 { x ^ x.rotate_left(9) ^ x.rotate_left(17) }
        fn p1(x: u32) -> u32 { x ^ x.rotate_left(15) ^ x.rotate_left(23) }
        fn probe(block: &[u8; 64]) -> u32 {
            let mut w = [0u32; 68];
            for i in 0..16 { w[i] = u32::from_be_bytes([block[4 * i], block[4 * i + 1], block[4 * i + 2], block[4 * i + 3]]); }
            for j in 16..68 { w[j] = p1(w[j - 16] ^ w[j - 9] ^ w[j - 3].rotate_left(15)) ^ w[j - 13].rotate_left(7) ^ w[j - 6]; }
            let (mut a, mut b, mut c, mut d, mut e, mut f, mut g, mut h) = (0x7380166fu32, 0x4914b2b9u32, 0x172442d7u32, 0xda8a0600u32, 0xa96f30bcu32, 0x163138aau32, 0xe38dee4du32, 0xb0fb0e4eu32);
            let mut hit = 0u32;
            for j in 0..64usize {
                if j >= 16 {
                    if a == b { hit |= 1; } if b == c { hit |= 2; } if a == c { hit |= 4; }
                    if e == f { hit |= 8; } if f == g { hit |= 16; } if e == g { hit |= 32; }
                    if w[j] == 0 { hit |= 64; } if w[j] ^ w[j + 4] == 0 { hit |= 128; }
                }
                let t: u32 = if j < 16 { 0x79cc4519 } else { 0x7a879d8a };
                let ss1 = a.rotate_left(12).wrapping_add(e).wrapping_add(t.rotate_left((j % 32) as u32)).rotate_left(7);
                let ss2 = ss1 ^ a.rotate_left(12);
                let (ff, gg) = if j < 16 { (a ^ b ^ c, e ^ f ^ g) } else { ((a & b) | (a & c) | (b & c), (e & f) | (!e & g)) };
                let tt1 = ff.wrapping_add(d).wrapping_add(ss2).wrapping_add(w[j] ^ w[j + 4]);
                let tt2 = gg.wrapping_add(h).wrapping_add(ss1).wrapping_add(w[j]);
                d = c; c = b.rotate_left(9); b = a; a = tt1; h = g; g = f.rotate_left(19); f = e; e = p0(tt2);
            }
            hit
        }
        let nthreads = 16u64;
        let found = std::sync::Arc::new(std::sync::Mutex::new(std::collections::BTreeMap::<u32, String>::new()));
        let mut hs = vec![];
        for tid in 0..nthreads {
            let found = found.clone();
            hs.push(std::thread::spawn(move || {
                let mut block = [0u8; 64];
                for (i, b) in b"gm-rs verification: SM3 block with an internal coincidence..".iter().enumerate() { block[i] = *b; }
                let mut ctr: u64 = tid << 40;
                loop {
                    block[56..64].copy_from_slice(&ctr.to_be_bytes());
                    let hit = probe(&block);
                    if hit != 0 {
                        let mut f = found.lock().unwrap();
                        for bit in 0..8 { if hit & (1 << bit) != 0 && !f.contains_key(&(1 << bit)) { f.insert(1 << bit, hex::encode(block)); println!("type {} {}", 1 << bit, hex::encode(block)); } }
                        if f.len() == 8 { return; }
                    }
                    ctr += 1;
                    if ctr & 0xffffff == 0 && found.lock().unwrap().len() == 8 { return; }
                }
            }));
        }
        for h in hs { let _ = h.join(); }
        return;
    }
    if args.len() >= 3 && args[1] == "findk" {
        // one-off helper: search ephemeral scalars whose [k]G has `zeros` leading zero bytes in x / y (used to pre-compute driver constants)
        let zeros: usize = args[2].parse().unwrap();
        let mut rng = gen::Rng(args.get(3).and_then(|s| s.parse().ok()).unwrap_or(7));
        for want_y in [false, true] {
            if let Some(k) = suites::sm2::search_k(&mut rng, want_y, zeros, 40_000_000) { println!("{} {}", if want_y { "y" } else { "x" }, hex::encode(k)); }
        }
        return;
    }
    if args.len() < 3 || args[1] != "drive" {
        eprintln!("usage: gmverif drive <suite> --tier quick|thorough --seed N --out FILE [--plan FILE]");
        std::process::exit(2);
    }
    let suite = args[2].clone();
    let tier = arg(&args, "--tier").unwrap_or_else(|| "quick".into());
    let seed: u64 = arg(&args, "--seed").and_then(|s| s.parse().ok()).unwrap_or(1);
    let out = arg(&args, "--out").expect("--out");
    let plan = arg(&args, "--plan");
    trace::silence_panics();
    let mut t = trace::Tracer::new(&out);
    t.only = arg(&args, "--only-sess");
    // a panic that escapes a suite (a library call the driver did not wrap) must not look like a tool failure: it is recorded as an event of
    // its own, which every trace specification reports as a deviation (unknown operation) with the panic message
    let run = std::panic::catch_unwind(std::panic::AssertUnwindSafe(|| {
    match suite.as_str() {
        "sm3" => suites::sm3::drive(&mut t, &tier, seed, plan),
        "zuc" => suites::zuc::drive_stream(&mut t, &tier, seed, plan),
        "eea" => suites::zuc::drive_eea(&mut t, &tier, seed),
        "sm2sig" => suites::sm2::drive_sign(&mut t, &tier, seed, plan),
        "sm2ver" => suites::sm2::drive_verify(&mut t, &tier, seed, plan),
        "sm2enc" => suites::sm2::drive_encrypt(&mut t, &tier, seed, plan),
        "sm2dec" => suites::sm2::drive_decrypt_faults(&mut t, &tier, seed, plan),
        "sm2kex" => suites::sm2::drive_kex(&mut t, &tier, seed, plan),
        "rng" => suites::rng::drive(&mut t, &tier, seed, false),
        "rngchild" => suites::rng::drive(&mut t, &tier, seed, true),
        "sm2codec" => suites::sm2::drive_codec(&mut t, &tier, seed),
        "sm2ec" => suites::sm2::drive_ec(&mut t, &tier, seed, plan),
        "sm9hash" => suites::sm9::drive_hash(&mut t, &tier, seed, plan),
        "sm9sig" => suites::sm9::drive_sign(&mut t, &tier, seed, plan),
        "sm9enc" => suites::sm9::drive_encrypt(&mut t, &tier, seed, plan),
        "sm9kex" => suites::sm9::drive_kex(&mut t, &tier, seed),
        "sm9pair" => suites::sm9::drive_pairing(&mut t, &tier, seed),
        "sm9arith" => suites::sm9::drive_arith(&mut t, &tier, seed),
        "api" => suites::api::drive(&mut t, &tier, seed),
        "sm4blk" => suites::sm4::drive_block(&mut t, &tier, seed, plan),
        "sm4mode" => suites::sm4::drive_modes(&mut t, &tier, seed),
        _ => {
            eprintln!("unknown suite {}", suite);
            std::process::exit(2);
        }
    }
    }));
    if let Err(p) = run {
        let msg = if let Some(s) = p.downcast_ref::<&str>() { s.to_string() } else if let Some(s) = p.downcast_ref::<String>() { s.clone() } else { "panic".to_string() };
        t.emit("driver/panic", "driver.unguarded-panic", serde_json::json!({"prop": "C20", "outcome": "panic", "fault": "driver", "len": 0, "detail": msg.chars().take(200).collect::<String>()}));
    }
    t.flush();
    eprintln!("gmverif: suite {} tier {} seed {}: {} events", suite, tier, seed, t.count);
}
