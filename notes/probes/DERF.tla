---------------------------- MODULE DERF ----------------------------
(* DER codec for the GM/T 0009 SM2 ciphertext  SEQUENCE { x INTEGER, y INTEGER, hash OCTET STRING, ct OCTET STRING } *)
EXTENDS Naturals, Sequences, TLC, Json, IOUtils
\* ---- encoding ----
LenBytes(n) == IF n < 128 THEN <<n>> ELSE IF n < 256 THEN <<129, n>> ELSE <<130, n \div 256, n % 256>>      \* n < 65536
TLV(tag, v) == <<tag>> \o LenBytes(Len(v)) \o v
RECURSIVE Strip(_)
Strip(b) == IF Len(b) > 1 /\ b[1] = 0 THEN Strip(Tail(b)) ELSE b                       \* minimal magnitude
IntBody(b32) == IF Strip(b32)[1] >= 128 THEN <<0>> \o Strip(b32) ELSE Strip(b32)         \* sign octet for a non-negative value
EncInt(b32) == TLV(2, IntBody(b32))
EncOct(b) == TLV(4, b)
EncCipher(x, y, hash, ct) == TLV(48, EncInt(x) \o EncInt(y) \o EncOct(hash) \o EncOct(ct))
\* ---- decoding: returns <<"ok", value, rest>> or <<"err">> ----
DecLen(b) == IF Len(b) = 0 THEN <<"err">>
             ELSE IF b[1] < 128 THEN <<"ok", b[1], Tail(b)>>
             ELSE IF b[1] = 129 /\ Len(b) >= 2 /\ b[2] >= 128 THEN <<"ok", b[2], SubSeq(b, 3, Len(b))>>
             ELSE IF b[1] = 130 /\ Len(b) >= 3 /\ b[2] > 0 THEN <<"ok", b[2]*256 + b[3], SubSeq(b, 4, Len(b))>>
             ELSE <<"err">>
DecTLV2(l) == IF l[1] = "err" \/ l[2] > Len(l[3]) THEN <<"err">> ELSE <<"ok", SubSeq(l[3], 1, l[2]), SubSeq(l[3], l[2]+1, Len(l[3]))>>
DecTLV(tag, b) == IF Len(b) < 2 \/ b[1] # tag THEN <<"err">> ELSE DecTLV2(DecLen(Tail(b)))
\* INTEGER must be minimal and non-negative, at most 32 magnitude bytes -> left-pad to 32
Pad32(m) == [i \in 1..32 |-> IF i <= 32 - Len(m) THEN 0 ELSE m[i - (32 - Len(m))]]
IntOk(v) == Len(v) >= 1 /\ v[1] < 128 /\ (Len(v) = 1 \/ v[1] # 0 \/ v[2] >= 128) /\ Len(Strip(v)) <= 32
DecInt2(t) == IF t[1] = "err" \/ ~IntOk(t[2]) THEN <<"err">> ELSE <<"ok", Pad32(Strip(t[2])), t[3]>>
DecInt(b) == DecInt2(DecTLV(2, b))
DecC4(x, y, h, c) == IF c[1] = "err" \/ c[3] # <<>> \/ Len(h) # 32 THEN <<"err">> ELSE <<"ok", x, y, h, c[2]>>
DecC3(x, y, h) == IF h[1] = "err" THEN <<"err">> ELSE DecC4(x, y, h[2], DecTLV(4, h[3]))
DecC2(x, y) == IF y[1] = "err" THEN <<"err">> ELSE DecC3(x, y[2], DecTLV(4, y[3]))
DecC1(x) == IF x[1] = "err" THEN <<"err">> ELSE DecC2(x[2], DecInt(x[3]))
DecC0(s) == IF s[1] = "err" \/ s[3] # <<>> THEN <<"err">> ELSE DecC1(DecInt(s[2]))
DecCipher(b) == DecC0(DecTLV(48, b))
\* ---- round trips on small exhaustive universes ----
ASSUME \A a \in 0..255, b \in 0..255 : DecInt(EncInt(Pad32(<<a, b>>))) = <<"ok", Pad32(<<a,b>>), <<>>>>
ASSUME DecInt(<<2, 2, 0, 5>>) = <<"err">>          \* non-minimal
ASSUME DecInt(<<2, 1, 128>>) = <<"err">>           \* negative
\* ---- OpenSSL-made ciphertexts: decode, re-encode, compare ----
Vec == ndJsonDeserialize(IOEnv.TRACE)
ReEnc(d) == IF d[1] = "err" THEN <<>> ELSE EncCipher(d[2], d[3], d[4], d[5])
VARIABLES pos, last
TInit == pos \in 1..Len(Vec) /\ last = <<>>
Judge(v, d) == <<pos, d[1], IF d[1] = "ok" THEN Len(d[5]) = v.mlen ELSE FALSE, ReEnc(d) = v.der>>
TNext == last = <<>> /\ pos' = pos /\ last' = Judge(Vec[pos], DecCipher(Vec[pos].der))
Report == last # <<>> => PrintT(<<"V">> \o last)
=====================================================================
