CONSTANTS n = 7 INF_OK = TRUE
INIT Init
NEXT Next
INVARIANTS Honest HonestDegenerate AcceptA AcceptB Agree OffCurve 
CHECK_DEADLOCK FALSE
