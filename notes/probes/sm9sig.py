import hashlib
from sm9ref import *
def sm3(b): return hashlib.new('sm3', b).digest()
def g2mul(k,Q):
    R=None
    for bit in bin(k)[2:]:
        if R is not None: R,_=tdbl(R)
        if bit=='1': R = Q if R is None else tadd(R,Q)[0]
    return R
def g1add(P,Q):
    if P is None: return Q
    if Q is None: return P
    if P[0]==Q[0]:
        if (P[1]+Q[1])%p==0: return None
        l=3*P[0]*P[0]*pow(2*P[1],-1,p)%p
    else: l=(Q[1]-P[1])*pow(Q[0]-P[0],-1,p)%p
    x3=(l*l-P[0]-Q[0])%p; return (x3,(l*(P[0]-x3)-P[1])%p)
def g1mul(k,P):
    R=None
    for bit in bin(k)[2:]:
        R=g1add(R,R)
        if bit=='1': R=g1add(R,P)
    return R
def H(prefix,z):
    ha=sm3(bytes([prefix])+z+b'\x00\x00\x00\x01')+sm3(bytes([prefix])+z+b'\x00\x00\x00\x02')
    return int.from_bytes(ha[:40],'big')%(N-1)+1
def f12bytes(e):
    # library order: c2,c1,c0 ; Fp4: c1,c0 ; Fp2: c1,c0 ; exponent = 6k+3j+i
    out=b''
    for i in (2,1,0):
        for j in (1,0):
            for k in (1,0):
                out+=e[6*k+3*j+i].to_bytes(32,'big')
    return out
ks=0x000130E78459D78545CB54C587E02CF480CE0B66340F319F348A1D5B1F2DC5F4
Ppub=g2mul(ks,(P2x,P2y))
print("Ppub x1:",hex(Ppub[0][1])[:20],"(std Annex: 9F64080B3084F733...)")
gg=pairing(P1,Ppub)
r=0x00033C8616B06704813203DFD00965022ED15975C662337AED648835DC4B1CBE
w=f12pow(gg,r)
M=b"Chinese IBS standard"
h=H(2,M+f12bytes(w))
print("h =",hex(h)); print("exp 0x823c4b21e4bd2dfe1ed92c606653e996668563152fc33f55d7bfbb9bd9705adb")
h1=H(1,b"Alice"+b'\x01'); t2=ks*pow(h1+ks,-1,N)%N
ds=g1mul(t2,P1); print("ds.x",hex(ds[0]),"(repo test: A5702F05CF13...)")
l=(r-h)%N; S=g1mul(l,ds); print("S.x",hex(S[0]), "(Annex: 73BF96923CE58B6A...)")
print("g first coeff (w^11):", hex(gg[11]))
