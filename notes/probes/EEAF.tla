---------------------------- MODULE EEAF ----------------------------
EXTENDS Naturals, Sequences, Bitwise, TLC, ZUCTab, Json
M31 == 2147483647
M16 == 65536
\* ---- arithmetic modulo 2^31-1 on representatives 0..M31 (M31 ~ 0), overflow-free ----
Add31(a, b) == IF a >= M31 - b THEN a - (M31 - b) ELSE a + b
Rot31(a, k) == ((a % (2^(31-k))) * (2^k)) + (a \div (2^(31-k)))
\* ---- 32-bit words as <<hi16, lo16>> ----
Xor2(a, b) == <<a[1] ^^ b[1], a[2] ^^ b[2]>>
AddLo(hi, lo) == <<(hi + (lo \div M16)) % M16, lo % M16>>
Add2(a, b) == AddLo(a[1] + b[1], a[2] + b[2])
RotP(a, p, q) == << ((a[1] * p) % M16) + (a[2] \div q), ((a[2] * p) % M16) + (a[1] \div q) >>
RotS(a, r) == IF r = 0 THEN a ELSE RotP(a, 2^r, 2^(16-r))
Rotl(a, r) == IF r < 16 THEN RotS(a, r) ELSE RotS(<<a[2], a[1]>>, r - 16)
Xor5(a,b,c,d,e) == Xor2(Xor2(Xor2(a,b),Xor2(c,d)),e)
L1(x) == Xor5(x, Rotl(x,2), Rotl(x,10), Rotl(x,18), Rotl(x,24))
L2(x) == Xor5(x, Rotl(x,8), Rotl(x,14), Rotl(x,22), Rotl(x,30))
SB(x) == << S0[(x[1] \div 256) + 1] * 256 + S1[(x[1] % 256) + 1], S0[(x[2] \div 256) + 1] * 256 + S1[(x[2] % 256) + 1] >>
\* ---- state: [s |-> 16-tuple, r1, r2] ----
X0(s) == << s[16] \div 32768, s[15] % M16 >>
X1(s) == << s[12] % M16, s[10] \div 32768 >>
X2(s) == << s[8] % M16, s[6] \div 32768 >>
X3(s) == << s[3] % M16, s[1] \div 32768 >>
FW(st) == Add2(Xor2(X0(st.s), st.r1), st.r2)
FStep2(st, w1, w2) == [st EXCEPT !.r1 = SB(L1(<<w1[2], w2[1]>>)), !.r2 = SB(L2(<<w2[2], w1[1]>>))]
FStep(st) == FStep2(st, Add2(st.r1, X1(st.s)), Xor2(st.r2, X2(st.s)))
Feedback(s) == Add31(Add31(Add31(Add31(Add31(s[1], Rot31(s[1], 8)), Rot31(s[5], 20)), Rot31(s[11], 21)), Rot31(s[14], 17)), Rot31(s[16], 15))
Fix0(v) == IF v = 0 THEN M31 ELSE v
Shift(s, v) == <<s[2],s[3],s[4],s[5],s[6],s[7],s[8],s[9],s[10],s[11],s[12],s[13],s[14],s[15],s[16], v>>
LFSRInit(st, u) == [st EXCEPT !.s = Shift(st.s, Fix0(Add31(Feedback(st.s), u) % M31))]
LFSRWork(st) == [st EXCEPT !.s = Shift(st.s, Fix0(Feedback(st.s) % M31))]
W31(w) == w[1] * 32768 + (w[2] \div 2)
InitRound(st) == LFSRInit(FStep(st), W31(FW(st)))
Load(k, iv) == [s |-> [i \in 1..16 |-> k[i] * 8388608 + DK[i] * 256 + iv[i]], r1 |-> <<0,0>>, r2 |-> <<0,0>>]
RECURSIVE Iter(_, _)
Iter(st, n) == IF n = 0 THEN st ELSE Iter(InitRound(st), n - 1)
Start(k, iv) == LFSRWork(FStep(Iter(TLCEval(Load(k, iv)), 32)))
\* one keystream word: returns <<word, next state>>
Out(st) == << Xor2(FW(st), X3(st.s)), LFSRWork(FStep(st)) >>
RECURSIVE Stream(_, _, _)
StreamStep(o, n, acc) == Stream(o[2], n - 1, Append(acc, o[1]))
Stream(st, n, acc) == IF n = 0 THEN acc ELSE StreamStep(Out(st), n, acc)
KeyStream(k, iv, n) == Stream(Start(k, iv), n, <<>>)
Zero16 == [i \in 1..16 |-> 0]
FF16 == [i \in 1..16 |-> 255]
K3 == <<\h3d,\h4c,\h4b,\he9,\h6a,\h82,\hfd,\hae,\hb5,\h8f,\h64,\h1d,\hb1,\h7b,\h45,\h5b>>
IV3 == <<\h84,\h31,\h9a,\ha8,\hde,\h69,\h15,\hca,\h1f,\h6b,\hda,\h6b,\hfb,\hd8,\hc7,\h66>>
ASSUME KeyStream(Zero16, Zero16, 2) = << <<\h27be,\hde74>>, <<\h0180,\h82da>> >>
ASSUME KeyStream(FF16, FF16, 2) = << <<\h0657,\hcfa0>>, <<\h7096,\h398b>> >>
ASSUME KeyStream(K3, IV3, 2) = << <<\h14f1,\hc272>>, <<\h3279,\hc419>> >>
\* ---- 128-EEA3 / 128-EIA3 (3GPP TS 35.221), words as <<hi16,lo16>> ----
B4(c) == << c[1] \div 256, c[1] % 256, c[2] \div 256, c[2] % 256 >>      \* COUNT as a word -> 4 bytes
EeaIV(count, bearer, dir) == B4(count) \o << (bearer * 8 + dir * 4) % 256, 0, 0, 0 >> \o B4(count) \o << (bearer * 8 + dir * 4) % 256, 0, 0, 0 >>
EiaIV(count, bearer, dir) == << (B4(count)[1]), B4(count)[2], B4(count)[3], B4(count)[4], (bearer * 8) % 256, 0, 0, 0,
                               B4(count)[1] ^^ (dir * 128), B4(count)[2], B4(count)[3], B4(count)[4], (bearer * 8) % 256, 0, dir * 128, 0 >>
NW(len) == (len + 31) \div 32
\* mask keeping the first r bits (1..31) of a 32-bit word
MaskHi(w, r) == IF r >= 16 THEN << w[1], (w[2] \div (2^(32-r))) * (2^(32-r)) >> ELSE << (w[1] \div (2^(16-r))) * (2^(16-r)), 0 >>
EeaWord(m, k, i, n, len) == IF i = n /\ len % 32 # 0 THEN MaskHi(Xor2(m[i], k[i]), len % 32) ELSE Xor2(m[i], k[i])
EeaK(msg, ks, len) == [i \in 1..NW(len) |-> EeaWord(msg, ks, i, NW(len), len)]
Eea(key, count, bearer, dir, len, msg) == EeaK(msg, KeyStream(key, EeaIV(count, bearer, dir), NW(len)), len)
\* EIA3: z_i = 32 bits of the keystream starting at bit i (0-based)
BitOf(m, i) == LET w == m[(i \div 32) + 1] r == i % 32 IN IF r < 16 THEN (w[1] \div (2^(15-r))) % 2 ELSE (w[2] \div (2^(31-r))) % 2
\* shift-left of a 64-bit pair of words by r (0..31), take the upper 32 bits
Shl16(x, r) == (x * (2^r)) % M16
\* upper 32 bits of (a || b) << r  == (a << r) | (b >> (32 - r))
ShlW(a, r) == IF r = 0 THEN a ELSE IF r < 16 THEN << Shl16(a[1], r) + (a[2] \div (2^(16-r))), Shl16(a[2], r) >>
              ELSE IF r = 16 THEN << a[2], 0 >> ELSE << Shl16(a[2], r-16), 0 >>
ShrW(b, s) == IF s >= 32 THEN <<0,0>> ELSE IF s = 0 THEN b ELSE IF s < 16 THEN << b[1] \div (2^s), ((b[1] % (2^s)) * (2^(16-s))) + (b[2] \div (2^s)) >>
              ELSE IF s = 16 THEN << 0, b[1] >> ELSE << 0, b[1] \div (2^(s-16)) >>
Or2(a, b) == << a[1] | b[1], a[2] | b[2] >>
ZAt2(a, b, r) == IF r = 0 THEN a ELSE Or2(ShlW(a, r), ShrW(b, 32 - r))
ZAt(ks, i) == ZAt2(ks[(i \div 32) + 1], IF (i % 32) = 0 THEN <<0,0>> ELSE ks[(i \div 32) + 2], i % 32)
RECURSIVE EiaAccG(_,_,_,_,_)
RECURSIVE EiaAcc(_,_,_,_,_)
EiaAcc(m, ks, i, to, t) == IF i > to THEN t ELSE EiaAcc(m, ks, i+1, to, IF BitOf(m, i) = 1 THEN Xor2(t, ZAt(ks, i)) ELSE t)
EiaAccG(m, ks, g, len, t) == IF g*64 >= len THEN t ELSE EiaAccG(m, ks, g+1, len, EiaAcc(m, ks, g*64, IF g*64+63 < len-1 THEN g*64+63 ELSE len-1, t))
EiaK(m, ks, len) == Xor2(Xor2(EiaAccG(m, ks, 0, len, <<0,0>>), ZAt(ks, len)), ks[NW(len) + 2])
Eia(key, count, bearer, dir, len, msg) == EiaK(msg, KeyStream(key, EiaIV(count, bearer, dir), NW(len) + 2), len)
\* ---- official vectors (3GPP test sets; the first two are the repository's tests) ----
CK1 == <<\h17,\h3d,\h14,\hba,\h50,\h03,\h73,\h1d,\h7a,\h60,\h04,\h94,\h70,\hf0,\h0a,\h29>>
M1 == << <<\h6cf6,\h5340>>, <<\h7355,\h52ab>>, <<\h0c97,\h52fa>>, <<\h6f90,\h25fe>>, <<\h0bd6,\h75d9>>, <<\h0058,\h75b2>>, <<0,0>> >>
C1 == << <<\ha6c8,\h5fc6>>, <<\h6afb,\h8533>>, <<\haafc,\h2518>>, <<\hdfe7,\h8494>>, <<\h0ee1,\he4b0>>, <<\h3023,\h8cc8>>, <<0,0>> >>
ASSUME Eea(CK1, <<\h6603,\h5492>>, 15, 0, 193, M1) = C1
IK2 == <<\hc9,\he6,\hce,\hc4,\h60,\h7c,\h72,\hdb,\h00,\h0a,\hef,\ha8,\h83,\h85,\hab,\h0a>>
M2 == << <<\h983b,\h41d4>>, <<\h7d78,\h0c9e>>, <<\h1ad1,\h1d7e>>, <<\hb703,\h91b1>>, <<\hde0b,\h35da>>, <<\h2dc6,\h2f83>>, <<\he7b7,\h8d63>>,
         <<\h06ca,\h0ea0>>, <<\h7e94,\h1b7b>>, <<\he913,\h48f9>>, <<\hfcb1,\h70e2>>, <<\h217f,\hecd9>>, <<\h7f9f,\h68ad>>, <<\hb16e,\h5d7d>>,
         <<\h21e5,\h69d2>>, <<\h80ed,\h775c>>, <<\hebde,\h3f40>>, <<\h93c5,\h3881>>, <<0,0>> >>
ASSUME Eia(IK2, <<\ha940,\h59da>>, 10, 1, 577, M2) = <<\hfae8,\hff0b>>
ASSUME Eia(Zero16, <<0,0>>, 0, 0, 1, << <<0,0>> >>) = <<\hc8a9,\h595e>>             \* EIA3 test set 1
VARIABLE st
Init == st = 0
Next == st' = st
=====================================================================
