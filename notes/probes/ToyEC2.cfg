CONSTANTS P = 23  B = 15  FIXED = TRUE NIB = 2
INIT Init
NEXT Next
INVARIANTS MulCorrect
CHECK_DEADLOCK FALSE
