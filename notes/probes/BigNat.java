import java.math.BigInteger;
import tlc2.value.impl.*;
public class BigNat {
  static final int LB = 24;
  static final BigInteger MASK = BigInteger.ONE.shiftLeft(LB).subtract(BigInteger.ONE);
  static BigInteger toBig(Value v) {
    TupleValue t = (TupleValue) v.toTuple();
    BigInteger r = BigInteger.ZERO;
    for (int i = t.elems.length - 1; i >= 0; i--) r = r.shiftLeft(LB).or(BigInteger.valueOf(((IntValue) t.elems[i]).val));
    return r;
  }
  static Value fromBig(BigInteger b) {
    int n = (b.bitLength() + LB - 1) / LB;
    Value[] e = new Value[n];
    for (int i = 0; i < n; i++) { e[i] = IntValue.gen(b.and(MASK).intValue()); b = b.shiftRight(LB); }
    return new TupleValue(e);
  }
  public static Value BMulMod(Value a, Value b, Value m) { return fromBig(toBig(a).multiply(toBig(b)).mod(toBig(m))); }
  public static Value BAddMod(Value a, Value b, Value m) { return fromBig(toBig(a).add(toBig(b)).mod(toBig(m))); }
  public static Value BSubMod(Value a, Value b, Value m) { return fromBig(toBig(a).subtract(toBig(b)).mod(toBig(m))); }
  public static Value BPowMod(Value a, Value e, Value m) { return fromBig(toBig(a).modPow(toBig(e), toBig(m))); }
  public static Value BBit(Value a, Value i) { return toBig(a).testBit(((IntValue) i).val) ? IntValue.gen(1) : IntValue.gen(0); }
  public static Value BBitLen(Value a) { return IntValue.gen(toBig(a).bitLength()); }
  public static Value BFromHex(Value s) { return fromBig(new BigInteger(((StringValue) s).val.toString(), 16)); }
  public static Value BToHex(Value a) { return new StringValue(toBig(a).toString(16)); }
}
