---------------------------- MODULE F12 ----------------------------
EXTENDS Naturals, Sequences, BigNat, TLC
P == BFromHex("B640000002A3A6F1D603AB4FF58EC74521F2934B1A7AEEDBE56F9B27E351457D")
Mul(a,b) == BMulMod(a,b,P)
Add(a,b) == BAddMod(a,b,P)
Sub(a,b) == BSubMod(a,b,P)
Zero == <<>>
\* Fp12 element: 12-tuple of Fp coefficients of w^0..w^11, w^12 = -2
RECURSIVE SumTo(_,_,_,_)
SumTo(a, b, k, i) == \* sum_{i'=i..} a[i'] b[k-i'] over 0-based, indices 1-based in tuples
   IF i > 11 THEN Zero ELSE
   LET j == k - i IN
   IF j < 0 \/ j > 11 THEN SumTo(a,b,k,i+1) ELSE Add(Mul(a[i+1], b[j+1]), SumTo(a,b,k,i+1))
Conv(a,b) == [k \in 0..22 |-> SumTo(a,b,k,0)]
F12Mul(a,b) == LET c == Conv(a,b) IN
   [k \in 1..12 |-> IF k <= 11 THEN Sub(c[k-1], Add(c[k+11], c[k+11])) ELSE c[11]]
X0 == [k \in 1..12 |-> BFromHex("123456789ABCDEF0123456789ABCDEF0123456789ABCDEF0123456789ABCDE0" )]
VARIABLE n, acc
Init == n = 0 /\ acc = X0
Next == n < 3000 /\ n' = n + 1 /\ acc' = F12Mul(acc, acc)
=====================================================================
