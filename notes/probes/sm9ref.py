# textbook SM9 R-ate pairing over Fp[w]/(w^12+2); written from the standard's definitions (design-phase probe)
p=0xB640000002A3A6F1D603AB4FF58EC74521F2934B1A7AEEDBE56F9B27E351457D
N=0xB640000002A3A6F1D603AB4FF58EC74449F2934B18EA8BEEE56EE19CD69ECF25
t=0x600000000058F98A
assert p==36*t**4+36*t**3+24*t**2+6*t+1 and N==36*t**4+36*t**3+18*t**2+6*t+1
P1=(0x93DE051D62BF718FF5ED0704487D01D6E1E4086909DC3280E8C4E4817C66DDDD,0x21FE8DDA4F21E607631065125C395BBC1C1C00CBFA6024350C464CD70A3EA616)
# Fp2 element (a0,a1) = a0 + a1*u, u^2=-2
P2x=(0x3722755292130B08D2AAB97FD34EC120EE265948D19C17ABF9B7213BAF82D65B,0x85AEF3D078640C98597B6027B441A01FF1DD2C190F5E93C454806C11D8806141)
P2y=(0xA7CF28D519BE3DA65F3170153D278FF247EFBA98A71A08116215BBA5C999A7C7,0x17509B092E845C1266BA0D262CBEE6ED0736A96FA347C8BD856DC76B84EBEB96)
def f2mul(a,b): return ((a[0]*b[0]-2*a[1]*b[1])%p,(a[0]*b[1]+a[1]*b[0])%p)
def f2add(a,b): return ((a[0]+b[0])%p,(a[1]+b[1])%p)
def f2sub(a,b): return ((a[0]-b[0])%p,(a[1]-b[1])%p)
def f2inv(a):
    d=pow(a[0]*a[0]+2*a[1]*a[1],-1,p); return (a[0]*d%p,(-a[1]*d)%p)
assert (P1[1]**2-P1[0]**3-5)%p==0
lhs=f2mul(P2y,P2y); rhs=f2add(f2mul(f2mul(P2x,P2x),P2x),(0,5))
print("P2 on y^2=x^3+5u:",lhs==rhs)
# Fp12 poly basis: list of 12 coeffs of w^i, w^12=-2 ; u=w^6
def f12mul(a,b):
    c=[0]*23
    for i,x in enumerate(a):
        if x:
            for j,y in enumerate(b):
                c[i+j]+=x*y
    return [(c[k]-2*(c[k+12] if k+12<23 else 0))%p for k in range(12)]
def f12one(): return [1]+[0]*11
def f12pow(a,e):
    r=f12one()
    for bit in bin(e)[2:]:
        r=f12mul(r,r)
        if bit=='1': r=f12mul(r,a)
    return r
def emb2(a,k): # a in Fp2 times w^k
    c=[0]*24
    c[k]+=a[0]; c[k+6]+=a[1]
    return [(c[i]-2*c[i+12])%p for i in range(12)]
def f12add(a,b): return [(x+y)%p for x,y in zip(a,b)]
# twist ops (affine) on E': y^2=x^3+5u
def tdbl(T):
    x,y=T; l=f2mul(f2mul((3,0),f2mul(x,x)),f2inv(f2mul((2,0),y)))
    x3=f2sub(f2mul(l,l),f2add(x,x)); y3=f2sub(f2mul(l,f2sub(x,x3)),y); return (x3,y3),l
def tadd(T,Q):
    (x1,y1),(x2,y2)=T,Q
    l=f2mul(f2sub(y2,y1),f2inv(f2sub(x2,x1)))
    x3=f2sub(f2sub(f2mul(l,l),x1),x2); y3=f2sub(f2mul(l,f2sub(x1,x3)),y1); return (x3,y3),l
def line(T,l,P): # l*w^3 form: yP*w^3 - l*xP*w^2 + (l*xT - yT)
    xT,yT=T; xP,yP=P
    r=emb2((yP,0),3)
    r=f12add(r,emb2(f2mul(l,((-xP)%p,0)),2))
    r=f12add(r,emb2(f2sub(f2mul(l,xT),yT),0))
    return r
g=pow(-2,(p-1)//12,p)  # w^p = g*w
def frob2pt(Q,k): # pi^k on twist coordinates: psi^-1 . frob . psi
    x,y=Q
    def conj(a): return (a[0],(-a[1])%p)
    # x*w^-2 -> frob: conj(x)* w^-2 * g^-2 ; so x' = conj(x)*g^-2 (as Fp scalar) ; y' = conj(y)*g^-3
    for _ in range(k):
        gi=pow(g,-1,p)
        x=(conj(x)[0]*gi*gi%p, conj(x)[1]*gi*gi%p)
        y=(conj(y)[0]*gi*gi*gi%p, conj(y)[1]*gi*gi*gi%p)
    return (x,y)
def tneg(Q): return (Q[0],((-Q[1][0])%p,(-Q[1][1])%p))
def pairing(P,Q):
    a=6*t+2
    f=f12one(); T=Q
    for bit in bin(a)[3:]:
        T2,l=tdbl(T); f=f12mul(f12mul(f,f),line(T,l,P)); T=T2
        if bit=='1':
            T2,l=tadd(T,Q); f=f12mul(f,line(T,l,P)); T=T2
    Q1=frob2pt(Q,1); Q2=tneg(frob2pt(Q,2))
    T2,l=tadd(T,Q1); f=f12mul(f,line(T,l,P)); T=T2
    T2,l=tadd(T,Q2); f=f12mul(f,line(T,l,P)); T=T2
    return f12pow(f,(p**12-1)//N)
if __name__=="__main__":
    import time; t0=time.time()
    e=pairing(P1,(P2x,P2y)); print("pairing time",time.time()-t0)
    print("e!=1:", e!=f12one(), " e^N==1:", f12pow(e,N)==f12one())
    # bilinearity with scalar 2 on P: e(2P,Q)=e^2
    def g1dbl(P):
        x,y=P; l=3*x*x*pow(2*y,-1,p)%p; x3=(l*l-2*x)%p; return (x3,(l*(x-x3)-y)%p)
    e2=pairing(g1dbl(P1),(P2x,P2y)); print("bilinear:", e2==f12mul(e,e))
    print([hex(c) for c in e][:3])
