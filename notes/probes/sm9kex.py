from sm9enc import *
ke=0x0002E65B0762D042F51F0D23542B13ED8CFA2E9A0E7206361E013A283905E31F
Ppube=g1mul(ke,P1); IDA=b"Alice"; IDB=b"Bob"
rA=0x00005879DD1D51E175946F23B1B41E93BA31C584AE59A426EC1046A4D03B06C8
rB=0x00018B98C44BEF9F8537FB7D071B2C928B3BC65BD3D69E1EEE213564905634FE
def ext(ID):
    h=H(1,ID+b'\x02'); t2=ke*pow(h+ke,-1,N)%N; return g2mul(t2,(P2x,P2y))
deA,deB=ext(IDA),ext(IDB)
QB=g1add(g1mul(H(1,IDB+b'\x02'),P1),Ppube); RA=g1mul(rA,QB)
QA=g1add(g1mul(H(1,IDA+b'\x02'),P1),Ppube); RB=g1mul(rB,QA)
pb=lambda P:P[0].to_bytes(32,'big')+P[1].to_bytes(32,'big')
# B
g1=pairing(RA,deB); g2=f12pow(pairing(Ppube,(P2x,P2y)),rB); g3=f12pow(g1,rB)
SKB=kdf(IDA+IDB+pb(RA)+pb(RB)+f12bytes(g1)+f12bytes(g2)+f12bytes(g3),16)
# A
g1a=f12pow(pairing(Ppube,(P2x,P2y)),rA); g2a=pairing(RB,deA); g3a=f12pow(g2a,rA)
SKA=kdf(IDA+IDB+pb(RA)+pb(RB)+f12bytes(g1a)+f12bytes(g2a)+f12bytes(g3a),16)
print("RA.x",hex(RA[0])); print("SKA",SKA.hex(),"SKB",SKB.hex(),"(Annex C5C13A8F59A97CDEAE64F16A2272A9E7)")
