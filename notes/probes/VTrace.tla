---------------------------- MODULE VTrace ----------------------------
EXTENDS SM3H, BigNat2, Json, IOUtils
Hx(s) == BFromBE(s)
PP == Hx(<<\hFF,\hFF,\hFF,\hFE,\hFF,\hFF,\hFF,\hFF,\hFF,\hFF,\hFF,\hFF,\hFF,\hFF,\hFF,\hFF,\hFF,\hFF,\hFF,\hFF,\h00,\h00,\h00,\h00,\hFF,\hFF,\hFF,\hFF,\hFF,\hFF,\hFF,\hFF>>)
NN == Hx(<<\hFF,\hFF,\hFF,\hFE,\hFF,\hFF,\hFF,\hFF,\hFF,\hFF,\hFF,\hFF,\hFF,\hFF,\hFF,\hFF,\h72,\h03,\hDF,\h6B,\h21,\hC6,\h05,\h2B,\h53,\hBB,\hF4,\h09,\h39,\hD5,\h41,\h23>>)
ABytes == <<\hFF,\hFF,\hFF,\hFE,\hFF,\hFF,\hFF,\hFF,\hFF,\hFF,\hFF,\hFF,\hFF,\hFF,\hFF,\hFF,\hFF,\hFF,\hFF,\hFF,\h00,\h00,\h00,\h00,\hFF,\hFF,\hFF,\hFF,\hFF,\hFF,\hFF,\hFC>>
BBytes == <<\h28,\hE9,\hFA,\h9E,\h9D,\h9F,\h5E,\h34,\h4D,\h5A,\h9E,\h4B,\hCF,\h65,\h09,\hA7,\hF3,\h97,\h89,\hF5,\h15,\hAB,\h8F,\h92,\hDD,\hBC,\hBD,\h41,\h4D,\h94,\h0E,\h93>>
GXBytes == <<\h32,\hC4,\hAE,\h2C,\h1F,\h19,\h81,\h19,\h5F,\h99,\h04,\h46,\h6A,\h39,\hC9,\h94,\h8F,\hE3,\h0B,\hBF,\hF2,\h66,\h0B,\hE1,\h71,\h5A,\h45,\h89,\h33,\h4C,\h74,\hC7>>
GYBytes == <<\hBC,\h37,\h36,\hA2,\hF4,\hF6,\h77,\h9C,\h59,\hBD,\hCE,\hE3,\h6B,\h69,\h21,\h53,\hD0,\hA9,\h87,\h7C,\hC6,\h2A,\h47,\h40,\h02,\hDF,\h32,\hE5,\h21,\h39,\hF0,\hA0>>
AA == Hx(ABytes)
PM2 == BSubMod(PP, <<2>>, <<1,0,0,0,0,0,0,0,0,0,0,0,0,0,0,0,0,0,0,0,0,0,0,0,0,0,0,0,0,0,0,0,0>>)
Inf == <<"inf">>
Mul(a,b) == BMulMod(a,b,PP)
Add(a,b) == BAddMod(a,b,PP)
Sub(a,b) == BSubMod(a,b,PP)
Inv(a) == BPowMod(a, PM2, PP)
DblL(p, lam, x3) == <<x3, Sub(Mul(lam, Sub(p[1], x3)), p[2])>>
DblM(p, lam) == DblL(p, lam, Sub(Sub(Mul(lam,lam), p[1]), p[1]))
Dbl(p) == IF p = Inf \/ p[2] = <<>> THEN Inf ELSE DblM(p, Mul(Add(Mul(<<3>>, Mul(p[1],p[1])), AA), Inv(Mul(<<2>>, p[2]))))
AddM(p, q, lam) == DblL(p, lam, Sub(Sub(Mul(lam,lam), p[1]), q[1]))
PAdd(p, q) == IF p = Inf THEN q ELSE IF q = Inf THEN p ELSE
   IF p[1] = q[1] THEN (IF p[2] = q[2] THEN Dbl(p) ELSE Inf) ELSE AddM(p, q, Mul(Sub(q[2], p[2]), Inv(Sub(q[1], p[1]))))
\* chunked double-and-add over the bytes of k (big-endian 32 bytes)
RECURSIVE SMBits(_,_,_,_)
SMBits(acc, p, byte, j) == IF j < 0 THEN acc ELSE
   SMBits(IF (byte \div (2^j)) % 2 = 1 THEN PAdd(Dbl(acc), p) ELSE Dbl(acc), p, byte, j-1)
RECURSIVE SMBytes(_,_,_,_)
SMBytes(acc, p, k, i) == IF i > Len(k) THEN acc ELSE SMBytes(SMBits(acc, p, k[i], 7), p, k, i+1)
ScalarMul(kbytes, p) == SMBytes(Inf, p, kbytes, 1)
\* ---- SM2 verification per GB/T 32918.2 ----
DigestBytes(h) == << h[1][1] \div 256, h[1][1] % 256, h[1][2] \div 256, h[1][2] % 256, h[2][1] \div 256, h[2][1] % 256, h[2][2] \div 256, h[2][2] % 256,
                     h[3][1] \div 256, h[3][1] % 256, h[3][2] \div 256, h[3][2] % 256, h[4][1] \div 256, h[4][1] % 256, h[4][2] \div 256, h[4][2] % 256,
                     h[5][1] \div 256, h[5][1] % 256, h[5][2] \div 256, h[5][2] % 256, h[6][1] \div 256, h[6][1] % 256, h[6][2] \div 256, h[6][2] % 256,
                     h[7][1] \div 256, h[7][1] % 256, h[7][2] \div 256, h[7][2] % 256, h[8][1] \div 256, h[8][1] % 256, h[8][2] \div 256, h[8][2] % 256 >>
ZA(uid, px, py) == DigestBytes(Hash(<<(Len(uid)*8) \div 256, (Len(uid)*8) % 256>> \o uid \o ABytes \o BBytes \o GXBytes \o GYBytes \o px \o py))
EDigest(uid, px, py, msg) == DigestBytes(Hash(ZA(uid,px,py) \o msg))
InRange(x) == x # <<>> /\ BSubMod(x, <<>>, NN) = x      \* 1 <= x <= n-1 (canonical digits: x mod n = x)
Final(r, e, pt) == pt # Inf /\ BAddMod(e, pt[1], NN) = r
Valid3(r, s, t, e, P) == t # <<>> /\ Final(r, e, PAdd(ScalarMul(BToBE32(s), <<Hx(GXBytes),Hx(GYBytes)>>), ScalarMul(BToBE32(t), P)))
Valid2(r, s, e, P) == InRange(r) /\ InRange(s) /\ Valid3(r, s, BAddMod(r, s, NN), e, P)
Valid(ev) == Len(ev.sig) = 64 /\ Valid2(Hx(SubSeq(ev.sig,1,32)), Hx(SubSeq(ev.sig,33,64)), Hx(EDigest(ev.uid, ev.px, ev.py, ev.msg)), <<Hx(ev.px), Hx(ev.py)>>)
\* ---- trace ----
Events == ndJsonDeserialize(IOEnv.TRACE)
Class(ev) == IF Len(ev.sig) < 64 THEN "len<64" ELSE IF Len(ev.sig) > 64 THEN "len>64" ELSE IF ev.fault = "none" THEN "untouched" ELSE "tampered64"
\* allowed outcomes: panic/timeout never; wrong length -> err; untouched -> must equal Valid; tampered: ok only if Valid (lazy)
Allowed(ev) == /\ ev.outcome \in {"ok", "err"}
               /\ (Len(ev.sig) # 64 => ev.outcome = "err")
               /\ (ev.outcome = "ok" => Valid(ev))
               /\ (ev.fault = "none" => (ev.outcome = "ok") = Valid(ev))
Kind(ev) == IF ev.outcome \in {"panic","timeout"} THEN ev.outcome ELSE IF ev.outcome = "ok" THEN "accepted-but-spec-rejects" ELSE "rejected-but-spec-accepts"
VARIABLES pos, last
TInit == pos \in 1..Len(Events) /\ last = <<>>
Verdict(ev, ok) == <<ev.id, IF ok THEN "ok" ELSE "dev", "C04", Class(ev), IF ok THEN "-" ELSE Kind(ev)>>
TNext == last = <<>> /\ pos' = pos /\ last' = Verdict(Events[pos], Allowed(Events[pos]))
Report == last # <<>> => PrintT(<<"V">> \o last)
=======================================================================
