---------------------------- MODULE BigNat ----------------------------
EXTENDS Naturals, Sequences
\* A big natural is a little-endian sequence of base-2^24 limbs without trailing zeros.
BASE == 16777216
BMulMod(a, b, m) == CHOOSE x \in {} : TRUE   \* overridden
BAddMod(a, b, m) == CHOOSE x \in {} : TRUE
BSubMod(a, b, m) == CHOOSE x \in {} : TRUE
BPowMod(a, e, m) == CHOOSE x \in {} : TRUE
BBit(a, i) == CHOOSE x \in {} : TRUE
BBitLen(a) == CHOOSE x \in {} : TRUE
BFromHex(s) == CHOOSE x \in {} : TRUE
BToHex(a) == CHOOSE x \in {} : TRUE
=======================================================================
