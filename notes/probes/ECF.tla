---------------------------- MODULE ECF ----------------------------
EXTENDS Naturals, Sequences, BigNat, TLC
P == BFromHex("FFFFFFFEFFFFFFFFFFFFFFFFFFFFFFFFFFFFFFFF00000000FFFFFFFFFFFFFFFF")
A == BFromHex("FFFFFFFEFFFFFFFFFFFFFFFFFFFFFFFFFFFFFFFF00000000FFFFFFFFFFFFFFFC")
B == BFromHex("28E9FA9E9D9F5E344D5A9E4BCF6509A7F39789F515AB8F92DDBCBD414D940E93")
N == BFromHex("FFFFFFFEFFFFFFFFFFFFFFFFFFFFFFFF7203DF6B21C6052B53BBF40939D54123")
GX == BFromHex("32C4AE2C1F1981195F9904466A39C9948FE30BBFF2660BE1715A4589334C74C7")
GY == BFromHex("BC3736A2F4F6779C59BDCEE36B692153D0A9877CC62A474002DF32E52139F0A0")
Two == <<2>>  Three == <<3>>
PM2 == BFromHex("FFFFFFFEFFFFFFFFFFFFFFFFFFFFFFFFFFFFFFFF00000000FFFFFFFFFFFFFFFD")
Inf == <<"inf">>
Mul(a,b) == BMulMod(a,b,P)
Add(a,b) == BAddMod(a,b,P)
Sub(a,b) == BSubMod(a,b,P)
Inv(a) == BPowMod(a, PM2, P)
Dbl(p) == IF p = Inf \/ p[2] = <<>> THEN Inf ELSE
   LET x == p[1] y == p[2]
       lam == Mul(Add(Mul(Three, Mul(x,x)), A), Inv(Mul(Two, y)))
       x3 == Sub(Sub(Mul(lam,lam), x), x)
       y3 == Sub(Mul(lam, Sub(x, x3)), y)
   IN <<x3, y3>>
PAdd(p, q) == IF p = Inf THEN q ELSE IF q = Inf THEN p ELSE
   IF p[1] = q[1] THEN (IF p[2] = q[2] THEN Dbl(p) ELSE Inf) ELSE
   LET lam == Mul(Sub(q[2], p[2]), Inv(Sub(q[1], p[1])))
       x3 == Sub(Sub(Mul(lam,lam), p[1]), q[1])
       y3 == Sub(Mul(lam, Sub(p[1], x3)), p[2])
   IN <<x3, y3>>
RECURSIVE SM(_,_,_,_)
SM(k, p, i, acc) == IF i < 0 THEN acc ELSE
   LET d == Dbl(acc) IN SM(k, p, i-1, IF BBit(k, i) = 1 THEN PAdd(d, p) ELSE d)
ScalarMul(k, p) == SM(k, p, BBitLen(k) - 1, Inf)
D1 == BFromHex("eb20009ffbffc90aeeb288ca7d782c722332d1d16a206cafec7dd6c64e6fc525")
VARIABLE n, acc
Init == n = 0 /\ acc = <<GX, GY>>
Next == n < 20 /\ n' = n + 1 /\ acc' = ScalarMul(BMulMod(D1, acc[1], N), <<GX,GY>>)
Inv1 == n = 0 => LET q == ScalarMul(D1, <<GX,GY>>) IN PrintT(<<BToHex(q[1]), BToHex(q[2])>>)
=====================================================================
