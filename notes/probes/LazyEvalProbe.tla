---- MODULE LZ ----
EXTENDS Naturals, TLC
Ex(n) == IF PrintT(<<"eval", n>>) THEN n ELSE n
RECURSIVE Rec(_,_,_)
Rec(a, i, acc) == IF i = 0 THEN acc ELSE Rec(a, i-1, acc + a)
Wrap(m) == Rec(m, 3, 0)
VARIABLE x
Init == x = 0
NextA == x < 1 /\ x' = Rec(Ex(x+50), 3, 0) - 149
NextB == x < 1 /\ x' = Wrap(Ex(x+60)) - 179
====
