---------------------------- MODULE ToyMont ----------------------------
(* E1 probe: the register-level Montgomery multiplication, addition and subtraction of gm-sm2/fields/fp64.rs
   (and gm-sm9/fields/fp.rs) with word size R = 2^K, for every prime modulus with top bit set and every pair of
   canonical operands.  Division-free checks against the definitions. *)
EXTENDS Integers, TLC
CONSTANT K
R == 2^K
IsPrime(q) == q > 1 /\ \A d \in 2..(q-1) : q % d # 0
Moduli == { q \in (R \div 2 + 1)..(R-1) : IsPrime(q) }
PPrime(q) == CHOOSE x \in 0..(R-1) : (x * q + 1) % R = 0          \* -q^-1 mod R
RInv(q) == CHOOSE x \in 0..(q-1) : (x * R) % q = 1
\* as in the code: z = a*b; t = (low(z) * p') mod R; z + t*p; r = high; carry / >= p corrections
MontMul(a, b, q) ==
  LET z == a * b
      t == ((z % R) * PPrime(q)) % R
      sum == z + t * q
      c == sum >= R * R                     \* carry out of the double-width addition
      r == (sum \div R) % R
  IN IF c THEN (r + (R - q)) % R ELSE IF r >= q THEN r - q ELSE r
FpAdd(a, b, q) == LET raw == a + b  r == raw % R  c == raw >= R
                  IN IF c THEN (r + (R - q)) % R ELSE IF r >= q THEN r - q ELSE r
FpSub(a, b, q) == LET raw == (a - b + R) % R  bor == a < b
                  IN IF bor THEN (raw - (R - q) + R) % R ELSE raw
VARIABLES q, a, b
Init == q = 0 /\ a = 0 /\ b = 0
Next == \/ (q = 0 /\ q' \in Moduli /\ a' = 0 /\ b' = 0)
        \/ (q # 0 /\ a = 0 /\ b = 0 /\ q' = q /\ a' \in 0..(q-1) /\ b' \in 0..(q-1))
        \/ UNCHANGED <<q,a,b>>
MulOk == q # 0 => MontMul(a, b, q) = (a * b * RInv(q)) % q
AddOk == q # 0 => FpAdd(a, b, q) = (a + b) % q
SubOk == q # 0 => FpSub(a, b, q) = (a - b + q) % q
=====================================================================
