---------------------------- MODULE SM3Trace ----------------------------
EXTENDS SM3F, Json, IOUtils
Events == ndJsonDeserialize(IOEnv.TRACE)
VARIABLE ev, verdict
BytesOf(h) == [i \in 1..32 |-> IF i % 4 = 1 THEN h[(i+3) \div 4][1] \div 256
                               ELSE IF i % 4 = 2 THEN h[(i+3) \div 4][1] % 256
                               ELSE IF i % 4 = 3 THEN h[(i+3) \div 4][2] \div 256
                               ELSE h[(i+3) \div 4][2] % 256]
TInit == ev \in 1..Len(Events) /\ verdict = "pending"
TNext == verdict = "pending" /\ ev' = ev /\
         LET e == Events[ev] d == BytesOf(Hash(e.msg)) IN
         IF d = e.digest THEN verdict' = "ok"
         ELSE verdict' = "dev" /\ PrintT(<<"DEVIATION", ToJson([id |-> e.id, expected |-> d])>>)
Done == verdict # "pending" => PrintT(<<"VERDICT", Events[ev].id, verdict>>)
==========================================================================
