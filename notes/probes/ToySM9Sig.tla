---------------------------- MODULE ToySM9Sig ----------------------------
(* E1 probe: SM9 signature (GM/T 0044.2) in a bilinear group "in the exponent": G1 = G2 = GT = Z_N (additive),
   e(a,b) = a*b mod N, generators = 1.  H1 is a function table chosen initially; H2 is a lazily sampled
   random oracle.  One field of (h, S, M, ID, Ppub) may be altered before verification. *)
EXTENDS Integers, TLC
CONSTANT N
Z == 0..(N-1)
Zs == 1..(N-1)
RECURSIVE PowN(_,_)
PowN(x, e) == IF e = 0 THEN 1 ELSE (x * PowN(x, e-1)) % N
InvN(x) == PowN(x, N-2)
IDs == {1, 2}          \* signer is ID 1
Msgs == {1, 2}
VARIABLES pc, ks, h1, r, msg, ro, sig, tam, field, verdict, lucky
vars == <<pc, ks, h1, r, msg, ro, sig, tam, field, verdict, lucky>>
NoSig == [h |-> 0, S |-> 0]
Init == /\ pc = "sign" /\ ks \in Zs /\ h1 \in [IDs -> Zs] /\ (h1[1] + ks) % N # 0
        /\ r \in Zs /\ msg \in Msgs /\ ro = [m \in Msgs |-> [w \in Z |-> 0]]
        /\ sig = NoSig /\ tam = [h |-> 0, S |-> 0, M |-> 0, ID |-> 0, K |-> 0] /\ field = "none" /\ verdict = "pending" /\ lucky = FALSE
Ds == (ks * InvN((h1[1] + ks) % N)) % N                          \* signing key of ID 1 (exponent in G1)
Sign == /\ pc = "sign"
        /\ \E h \in Zs :                                          \* fresh oracle answer for (msg, w), w = g^r = r*ks
              /\ (r - h) % N # 0                                   \* A5: l = 0 -> retry (not modelled further)
              /\ ro' = [ro EXCEPT ![msg][(r * ks) % N] = h]
              /\ sig' = [h |-> h, S |-> (((r - h) % N) * Ds) % N]
        /\ pc' = "tamper" /\ UNCHANGED <<ks, h1, r, msg, tam, field, verdict, lucky>>
Base == [h |-> sig.h, S |-> sig.S, M |-> msg, ID |-> 1, K |-> ks]
Tamper == /\ pc = "tamper"
          /\ \/ tam' = Base /\ field' = "none"
             \/ \E v \in (0..N) \ {sig.h} : tam' = [Base EXCEPT !.h = v] /\ field' = "h"          \* incl. 0 and N: out of range
             \/ \E v \in Z \ {sig.S} : tam' = [Base EXCEPT !.S = v] /\ field' = "S"
             \/ \E v \in Msgs \ {msg} : tam' = [Base EXCEPT !.M = v] /\ field' = "M"
             \/ tam' = [Base EXCEPT !.ID = 2] /\ field' = "ID"
             \/ \E v \in Zs \ {ks} : tam' = [Base EXCEPT !.K = v] /\ field' = "K"
          /\ pc' = "verify" /\ UNCHANGED <<ks, h1, r, msg, ro, sig, verdict, lucky>>
\* implementation-shaped verification: t = g^h, P = [h1]P2 + Ppub, u = e(S,P), w = u*t
WPrime == ((tam.S * ((h1[tam.ID] + tam.K) % N)) + tam.h * tam.K) % N
Verify == /\ pc = "verify"
          /\ IF tam.h \notin Zs
             THEN verdict' = "err" /\ lucky' = lucky
             ELSE IF ro[tam.M][WPrime] # 0
                  THEN verdict' = (IF ro[tam.M][WPrime] = tam.h THEN "accept" ELSE "reject") /\ lucky' = lucky
                  ELSE \E v \in Zs : verdict' = (IF v = tam.h THEN "accept" ELSE "reject") /\ lucky' = (v = tam.h)
          /\ pc' = "done" /\ UNCHANGED <<ks, h1, r, msg, ro, sig, tam, field>>
Next == Sign \/ Tamper \/ Verify \/ (pc = "done" /\ UNCHANGED vars)
\* ---- properties ----
Honest == pc = "done" /\ field = "none" => verdict = "accept"
OutOfRange == pc = "done" /\ tam.h \notin Zs => verdict = "err"
\* coincidences (probability ~1/N each, negligible at real size):
H1Collision == field = "ID" /\ h1[2] = h1[1]
KIndependent == field = "K" /\ (sig.S + sig.h) % N = 0          \* w does not depend on Ppub when S + h = 0
Forgery == pc = "done" /\ field # "none" /\ verdict = "accept" => lucky \/ H1Collision \/ KIndependent
=====================================================================
