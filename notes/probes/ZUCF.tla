---------------------------- MODULE ZUCF ----------------------------
EXTENDS Naturals, Sequences, Bitwise, TLC, ZUCTab, Json
M31 == 2147483647
M16 == 65536
\* ---- arithmetic modulo 2^31-1 on representatives 0..M31 (M31 ~ 0), overflow-free ----
Add31(a, b) == IF a >= M31 - b THEN a - (M31 - b) ELSE a + b
Rot31(a, k) == ((a % (2^(31-k))) * (2^k)) + (a \div (2^(31-k)))
\* ---- 32-bit words as <<hi16, lo16>> ----
Xor2(a, b) == <<a[1] ^^ b[1], a[2] ^^ b[2]>>
AddLo(hi, lo) == <<(hi + (lo \div M16)) % M16, lo % M16>>
Add2(a, b) == AddLo(a[1] + b[1], a[2] + b[2])
RotP(a, p, q) == << ((a[1] * p) % M16) + (a[2] \div q), ((a[2] * p) % M16) + (a[1] \div q) >>
RotS(a, r) == IF r = 0 THEN a ELSE RotP(a, 2^r, 2^(16-r))
Rotl(a, r) == IF r < 16 THEN RotS(a, r) ELSE RotS(<<a[2], a[1]>>, r - 16)
Xor5(a,b,c,d,e) == Xor2(Xor2(Xor2(a,b),Xor2(c,d)),e)
L1(x) == Xor5(x, Rotl(x,2), Rotl(x,10), Rotl(x,18), Rotl(x,24))
L2(x) == Xor5(x, Rotl(x,8), Rotl(x,14), Rotl(x,22), Rotl(x,30))
SB(x) == << S0[(x[1] \div 256) + 1] * 256 + S1[(x[1] % 256) + 1], S0[(x[2] \div 256) + 1] * 256 + S1[(x[2] % 256) + 1] >>
\* ---- state: [s |-> 16-tuple, r1, r2] ----
X0(s) == << s[16] \div 32768, s[15] % M16 >>
X1(s) == << s[12] % M16, s[10] \div 32768 >>
X2(s) == << s[8] % M16, s[6] \div 32768 >>
X3(s) == << s[3] % M16, s[1] \div 32768 >>
FW(st) == Add2(Xor2(X0(st.s), st.r1), st.r2)
FStep2(st, w1, w2) == [st EXCEPT !.r1 = SB(L1(<<w1[2], w2[1]>>)), !.r2 = SB(L2(<<w2[2], w1[1]>>))]
FStep(st) == FStep2(st, Add2(st.r1, X1(st.s)), Xor2(st.r2, X2(st.s)))
Feedback(s) == Add31(Add31(Add31(Add31(Add31(s[1], Rot31(s[1], 8)), Rot31(s[5], 20)), Rot31(s[11], 21)), Rot31(s[14], 17)), Rot31(s[16], 15))
Fix0(v) == IF v = 0 THEN M31 ELSE v
Shift(s, v) == <<s[2],s[3],s[4],s[5],s[6],s[7],s[8],s[9],s[10],s[11],s[12],s[13],s[14],s[15],s[16], v>>
LFSRInit(st, u) == [st EXCEPT !.s = Shift(st.s, Fix0(Add31(Feedback(st.s), u) % M31))]
LFSRWork(st) == [st EXCEPT !.s = Shift(st.s, Fix0(Feedback(st.s) % M31))]
W31(w) == w[1] * 32768 + (w[2] \div 2)
InitRound(st) == LFSRInit(FStep(st), W31(FW(st)))
Load(k, iv) == [s |-> [i \in 1..16 |-> k[i] * 8388608 + DK[i] * 256 + iv[i]], r1 |-> <<0,0>>, r2 |-> <<0,0>>]
RECURSIVE Iter(_, _)
Iter(st, n) == IF n = 0 THEN st ELSE Iter(InitRound(st), n - 1)
Start(k, iv) == LFSRWork(FStep(Iter(TLCEval(Load(k, iv)), 32)))
\* one keystream word: returns <<word, next state>>
Out(st) == << Xor2(FW(st), X3(st.s)), LFSRWork(FStep(st)) >>
RECURSIVE Stream(_, _, _)
StreamStep(o, n, acc) == Stream(o[2], n - 1, Append(acc, o[1]))
Stream(st, n, acc) == IF n = 0 THEN acc ELSE StreamStep(Out(st), n, acc)
KeyStream(k, iv, n) == Stream(Start(k, iv), n, <<>>)
Zero16 == [i \in 1..16 |-> 0]
FF16 == [i \in 1..16 |-> 255]
K3 == <<\h3d,\h4c,\h4b,\he9,\h6a,\h82,\hfd,\hae,\hb5,\h8f,\h64,\h1d,\hb1,\h7b,\h45,\h5b>>
IV3 == <<\h84,\h31,\h9a,\ha8,\hde,\h69,\h15,\hca,\h1f,\h6b,\hda,\h6b,\hfb,\hd8,\hc7,\h66>>
ASSUME KeyStream(Zero16, Zero16, 2) = << <<\h27be,\hde74>>, <<\h0180,\h82da>> >>
ASSUME KeyStream(FF16, FF16, 2) = << <<\h0657,\hcfa0>>, <<\h7096,\h398b>> >>
ASSUME KeyStream(K3, IV3, 2) = << <<\h14f1,\hc272>>, <<\h3279,\hc419>> >>
\* ---- plan: every composition of every total <= TOTAL into request sizes, with up to ZMAX zero-length requests ----
CONSTANTS TOTAL, ZMAX
KS == KeyStream(K3, IV3, TOTAL)
VARIABLES reqs, produced, zeros
PInit == reqs = <<>> /\ produced = 0 /\ zeros = 0
Request(n) == /\ produced + n <= TOTAL /\ (n = 0 => zeros < ZMAX)
              /\ reqs' = Append(reqs, n) /\ produced' = produced + n /\ zeros' = IF n = 0 THEN zeros + 1 ELSE zeros
PNext == \E n \in 0..TOTAL : Request(n)
RECURSIVE Slices(_, _, _)
Slices(rs, from, acc) == IF rs = <<>> THEN acc ELSE Slices(Tail(rs), from + Head(rs), Append(acc, [j \in 1..Head(rs) |-> KS[from + j]]))
Emit == reqs # <<>> => PrintT(<<"PLAN", ToJson([key |-> K3, iv |-> IV3, reqs |-> reqs, expect |-> Slices(reqs, 0, <<>>)])>>)
=====================================================================
