---------------------------- MODULE BigNat2 ----------------------------
EXTENDS Naturals, Sequences
BMulMod(a, b, m) == CHOOSE x \in {} : TRUE
BAddMod(a, b, m) == CHOOSE x \in {} : TRUE
BSubMod(a, b, m) == CHOOSE x \in {} : TRUE
BPowMod(a, e, m) == CHOOSE x \in {} : TRUE
BBit(a, i) == CHOOSE x \in {} : TRUE
BBitLen(a) == CHOOSE x \in {} : TRUE
BMod(a, m) == CHOOSE x \in {} : TRUE
BFromBE(bytes) == CHOOSE x \in {} : TRUE
BToBE32(a) == CHOOSE x \in {} : TRUE
=======================================================================
