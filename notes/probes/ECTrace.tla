---------------------------- MODULE ECTrace ----------------------------
EXTENDS Naturals, Sequences, BigNat2, TLC, Json, IOUtils
H(s) == BFromBE(s)
P == H(<<\hFF,\hFF,\hFF,\hFE,\hFF,\hFF,\hFF,\hFF,\hFF,\hFF,\hFF,\hFF,\hFF,\hFF,\hFF,\hFF,\hFF,\hFF,\hFF,\hFF,\h00,\h00,\h00,\h00,\hFF,\hFF,\hFF,\hFF,\hFF,\hFF,\hFF,\hFF>>)
A == BSubMod(P, <<3>>, P)
Two == <<2>>  Three == <<3>>
PM2 == BSubMod(P, <<2>>, <<\h01,0,0,0,0,0,0,0,0,0,0,0,0,0,0,0,0,0,0,0,0,0,0,0,0,0,0,0,0,0,0,0,0>>)
Inf == <<"inf">>
Mul(a,b) == BMulMod(a,b,P)
Add(a,b) == BAddMod(a,b,P)
Sub(a,b) == BSubMod(a,b,P)
Inv(a) == BPowMod(a, PM2, P)
Dbl(p) == IF p = Inf \/ p[2] = <<>> THEN Inf ELSE
   LET x == p[1] y == p[2]
       lam == Mul(Add(Mul(Three, Mul(x,x)), A), Inv(Mul(Two, y)))
       x3 == Sub(Sub(Mul(lam,lam), x), x)
   IN <<x3, Sub(Mul(lam, Sub(x, x3)), y)>>
PAdd(p, q) == IF p = Inf THEN q ELSE IF q = Inf THEN p ELSE
   IF p[1] = q[1] THEN (IF p[2] = q[2] THEN Dbl(p) ELSE Inf) ELSE
   LET lam == Mul(Sub(q[2], p[2]), Inv(Sub(q[1], p[1])))
       x3 == Sub(Sub(Mul(lam,lam), p[1]), q[1])
   IN <<x3, Sub(Mul(lam, Sub(p[1], x3)), p[2])>>
RECURSIVE SM(_,_,_,_)
SM(k, p, i, acc) == IF i < 0 THEN acc ELSE
   LET d == Dbl(acc) IN SM(k, p, i-1, IF BBit(k, i) = 1 THEN PAdd(d, p) ELSE d)
ScalarMul(k, p) == SM(k, p, BBitLen(k) - 1, Inf)
Events == ndJsonDeserialize(IOEnv.TRACE)
VARIABLES pos, last
TInit == pos \in 1..Len(Events) /\ last = <<>>
TNext == last = <<>> /\ pos' = pos /\
   LET e == Events[pos]
       q == ScalarMul(H(e.k), <<H(e.px), H(e.py)>>)
       ok == q # Inf /\ q[1] = H(e.qx) /\ q[2] = H(e.qy)
   IN last' = <<e.id, IF ok THEN "ok" ELSE "dev">>
Report == last # <<>> => PrintT(<<"V">> \o last)
=======================================================================
