---------------------------- MODULE SM3H ----------------------------
EXTENDS Naturals, Sequences, Bitwise, TLC
M16 == 65536
Xor2(a, b) == <<a[1] ^^ b[1], a[2] ^^ b[2]>>
Xor3(a, b, c) == <<(a[1] ^^ b[1]) ^^ c[1], (a[2] ^^ b[2]) ^^ c[2]>>
And2(a, b) == <<a[1] & b[1], a[2] & b[2]>>
Or2(a, b)  == <<a[1] | b[1], a[2] | b[2]>>
Not2(a)    == <<65535 - a[1], 65535 - a[2]>>
AddLo(hi, lo) == <<(hi + (lo \div M16)) % M16, lo % M16>>
Add2(a, b) == AddLo(a[1] + b[1], a[2] + b[2])
Add4(a, b, c, d) == AddLo(a[1] + b[1] + c[1] + d[1], a[2] + b[2] + c[2] + d[2])
Add3(a, b, c) == AddLo(a[1] + b[1] + c[1], a[2] + b[2] + c[2])
RotP(a, p, q) == << ((a[1] * p) % M16) + (a[2] \div q), ((a[2] * p) % M16) + (a[1] \div q) >>
RotS(a, r) == IF r = 0 THEN a ELSE RotP(a, 2^r, 2^(16-r))
Rotl(a, r) == IF r % 32 < 16 THEN RotS(a, r % 32) ELSE RotS(<<a[2], a[1]>>, (r % 32) - 16)
P0(x) == Xor3(x, Rotl(x, 9), Rotl(x, 17))
P1(x) == Xor3(x, Rotl(x, 15), Rotl(x, 23))
FF(x, y, z, j) == IF j <= 15 THEN Xor3(x, y, z) ELSE Or2(Or2(And2(x, y), And2(x, z)), And2(y, z))
GG(x, y, z, j) == IF j <= 15 THEN Xor3(x, y, z) ELSE Or2(And2(x, y), And2(Not2(x), z))
T(j) == IF j <= 15 THEN <<31180, 17689>> ELSE <<31367, 40330>>
IV == << <<29568, 5743>>, <<18708, 45753>>, <<5924, 17111>>, <<55946, 1536>>,
         <<43375, 12476>>, <<5681, 14506>>, <<58253, 61005>>, <<45307, 3662>> >>
WordsOf(b, o) == <<
  << b[o+1]*256 + b[o+2], b[o+3]*256 + b[o+4] >>, << b[o+5]*256 + b[o+6], b[o+7]*256 + b[o+8] >>,
  << b[o+9]*256 + b[o+10], b[o+11]*256 + b[o+12] >>, << b[o+13]*256 + b[o+14], b[o+15]*256 + b[o+16] >>,
  << b[o+17]*256 + b[o+18], b[o+19]*256 + b[o+20] >>, << b[o+21]*256 + b[o+22], b[o+23]*256 + b[o+24] >>,
  << b[o+25]*256 + b[o+26], b[o+27]*256 + b[o+28] >>, << b[o+29]*256 + b[o+30], b[o+31]*256 + b[o+32] >>,
  << b[o+33]*256 + b[o+34], b[o+35]*256 + b[o+36] >>, << b[o+37]*256 + b[o+38], b[o+39]*256 + b[o+40] >>,
  << b[o+41]*256 + b[o+42], b[o+43]*256 + b[o+44] >>, << b[o+45]*256 + b[o+46], b[o+47]*256 + b[o+48] >>,
  << b[o+49]*256 + b[o+50], b[o+51]*256 + b[o+52] >>, << b[o+53]*256 + b[o+54], b[o+55]*256 + b[o+56] >>,
  << b[o+57]*256 + b[o+58], b[o+59]*256 + b[o+60] >>, << b[o+61]*256 + b[o+62], b[o+63]*256 + b[o+64] >> >>
\* expansion in chunks of 13 words (4 chunks -> 68 words), shallow recursion
WNext(w, j) == Xor3(P1(Xor3(w[j-16], w[j-9], Rotl(w[j-3], 15))), Rotl(w[j-13], 7), w[j-6])
RECURSIVE ExpChunk(_, _, _)
ExpChunk(w, j, to) == IF j > to THEN w ELSE ExpChunk(Append(w, WNext(w, j)), j+1, to)
Expand(w) == ExpChunk(ExpChunk(ExpChunk(ExpChunk(w, 17, 29), 30, 42), 43, 55), 56, 68)
\* one round in parameter-passing style
R3(s, w, j, ss1, a12, tt2) == << Add4(FF(s[1],s[2],s[3],j), s[4], Xor2(ss1, a12), Xor2(w[j+1], w[j+5])), s[1], Rotl(s[2], 9), s[3], P0(tt2), s[5], Rotl(s[6], 19), s[7] >>
R2(s, w, j, ss1, a12) == R3(s, w, j, ss1, a12, Add4(GG(s[5],s[6],s[7],j), s[8], ss1, w[j+1]))
R1(s, w, j, a12) == R2(s, w, j, Rotl(Add3(a12, s[5], Rotl(T(j), j)), 7), a12)
Round(s, w, j) == R1(s, w, j, Rotl(s[1], 12))
RECURSIVE RChunk(_, _, _, _)
RChunk(s, w, j, to) == IF j > to THEN s ELSE RChunk(Round(s, w, j), w, j+1, to)
Rounds(s, w) == RChunk(RChunk(RChunk(RChunk(RChunk(RChunk(RChunk(RChunk(s, w, 0, 7), w, 8, 15), w, 16, 23), w, 24, 31), w, 32, 39), w, 40, 47), w, 48, 55), w, 56, 63)
XorV(v, s) == << Xor2(v[1],s[1]), Xor2(v[2],s[2]), Xor2(v[3],s[3]), Xor2(v[4],s[4]), Xor2(v[5],s[5]), Xor2(v[6],s[6]), Xor2(v[7],s[7]), Xor2(v[8],s[8]) >>
CF(v, pm, o) == XorV(v, Rounds(v, Expand(WordsOf(pm, o))))
PadN(msg, l, k) == msg \o <<128>> \o [i \in 1..k |-> 0] \o <<0,0,0,0, (l*8) \div 16777216, ((l*8) \div 65536) % 256, ((l*8) \div 256) % 256, (l*8) % 256>>
Pad(msg) == TLCEval(PadN(msg, Len(msg), (119 - (Len(msg) % 64)) % 64))
RECURSIVE IterC(_, _, _, _)
IterC(v, pm, i, to) == IF i > to THEN v ELSE IterC(CF(v, pm, i*64), pm, i+1, to)
RECURSIVE IterG(_, _, _, _)
IterG(v, pm, g, nb) == IF g*32 >= nb THEN v ELSE IterG(IterC(v, pm, g*32, IF g*32+31 < nb-1 THEN g*32+31 ELSE nb-1), pm, g+1, nb)
HashP(pm) == IterG(IV, pm, 0, Len(pm) \div 64)
Hash(msg) == HashP(Pad(msg))
DBytesTMP(h) == << h[1][1] \div 256, h[1][1] % 256, h[1][2] \div 256, h[1][2] % 256, h[2][1] \div 256, h[2][1] % 256, h[2][2] \div 256, h[2][2] % 256,
                h[3][1] \div 256, h[3][1] % 256, h[3][2] \div 256, h[3][2] % 256, h[4][1] \div 256, h[4][1] % 256, h[4][2] \div 256, h[4][2] % 256,
                h[5][1] \div 256, h[5][1] % 256, h[5][2] \div 256, h[5][2] % 256, h[6][1] \div 256, h[6][1] % 256, h[6][2] \div 256, h[6][2] % 256,
                h[7][1] \div 256, h[7][1] % 256, h[7][2] \div 256, h[7][2] % 256, h[8][1] \div 256, h[8][1] % 256, h[8][2] \div 256, h[8][2] % 256 >>
DigestBytesOf(m) == DBytesTMP(Hash(m))
=====================================================================
