CONSTANTS P = 23  B = 15  FIXED = TRUE
INIT Init
NEXT Next
INVARIANTS AddCorrect DblCorrect
CHECK_DEADLOCK FALSE
