import hashlib
def sm3(b): return hashlib.new('sm3', b).digest()
p=0xFFFFFFFEFFFFFFFFFFFFFFFFFFFFFFFFFFFFFFFF00000000FFFFFFFFFFFFFFFF
a=p-3
b=0x28E9FA9E9D9F5E344D5A9E4BCF6509A7F39789F515AB8F92DDBCBD414D940E93
n=0xFFFFFFFEFFFFFFFFFFFFFFFFFFFFFFFF7203DF6B21C6052B53BBF40939D54123
G=(0x32C4AE2C1F1981195F9904466A39C9948FE30BBFF2660BE1715A4589334C74C7,0xBC3736A2F4F6779C59BDCEE36B692153D0A9877CC62A474002DF32E52139F0A0)
def add(P,Q):
    if P is None: return Q
    if Q is None: return P
    if P[0]==Q[0]:
        if (P[1]+Q[1])%p==0: return None
        l=(3*P[0]*P[0]+a)*pow(2*P[1],-1,p)%p
    else: l=(Q[1]-P[1])*pow(Q[0]-P[0],-1,p)%p
    x3=(l*l-P[0]-Q[0])%p; return (x3,(l*(P[0]-x3)-P[1])%p)
def mul(k,P):
    R=None
    for bit in bin(k)[2:]:
        R=add(R,R)
        if bit=='1': R=add(R,P)
    return R
B32=lambda x:x.to_bytes(32,'big')
def ZA(ID,P): return sm3((len(ID)*8).to_bytes(2,'big')+ID+B32(a)+B32(b)+B32(G[0])+B32(G[1])+B32(P[0])+B32(P[1]))
def kdf(z,klen):
    out=b''; ct=1
    while len(out)<klen: out+=sm3(z+ct.to_bytes(4,'big')); ct+=1
    return out[:klen]
if __name__=="__main__":
    d=0x3945208F7B2144B13F36E38AC6D39F95889393692860B51A42FB81EF4DF7C5B8; P=mul(d,G)
    k=0x59276E27D506861A16680F3AD9C02DCCEF3CC1FA3CDBE4CE6D54B80DEAC1BC21
    ID=b"1234567812345678"; M=b"message digest"
    e=int.from_bytes(sm3(ZA(ID,P)+M),'big'); x1=mul(k,G)[0]; r=(e+x1)%n; s=pow(1+d,-1,n)*(k-r*d)%n
    print("r",hex(r)); print("s",hex(s)); print("exp r F5A03B0648D2C4630EEAC513E1BB81A15944DA3827D5B74143AC7EACEEE720B3 s B1B6AA29DF212FD8763182BC0D421CA1BB9038FD1F7F42D4840B69C485BBC1AA")
    # encryption
    M=b"encryption standard"; C1=mul(k,G); S=mul(k,P); t=kdf(B32(S[0])+B32(S[1]),len(M))
    C2=bytes(x^y for x,y in zip(M,t)); C3=sm3(B32(S[0])+M+B32(S[1]))
    print("C1",hex(C1[0])[:18],"C2",C2.hex(),"C3",C3.hex()[:16], "(exp 04EBFC71.., 21886CA989CA9C7D58087307CA93092D651EFA, 59983C18F809E262)")
    # key exchange
    dA=0x81EB26E941BB5AF16DF116495F90695272AE2CD63D6C4AE1678418BE48230029
    dB=0x785129917D45A9EA5437A59356B82338EAADDA6CEB199088F14AE10DEFA229B5
    rA=0xD4DE15474DB74D06491C440D305E012400990F3E390C7E87153C12DB2EA60BB3
    rB=0x7E07124814B309489125EAED101113164EBF0F3458C5BD88335C1F9D596243D6
    PA,PB=mul(dA,G),mul(dB,G); za,zb=ZA(ID,PA),ZA(ID,PB); RA,RB=mul(rA,G),mul(rB,G)
    w=127; xb=lambda x:(1<<w)+(x&((1<<w)-1))
    tB=(dB+xb(RB[0])*rB)%n; V=mul(tB,add(PA,mul(xb(RA[0]),RA)))
    KB=kdf(B32(V[0])+B32(V[1])+za+zb,16)
    inner=sm3(B32(V[0])+za+zb+B32(RA[0])+B32(RA[1])+B32(RB[0])+B32(RB[1]))
    SB=sm3(b'\x02'+B32(V[1])+inner); SA=sm3(b'\x03'+B32(V[1])+inner)
    tA=(dA+xb(RA[0])*rA)%n; U=mul(tA,add(PB,mul(xb(RB[0]),RB)))
    print("U==V",U==V,"K",KB.hex(),"(exp 6C89347354DE2484C60B4AB1FDE4C6E5)")
    print("SB",SB.hex()[:16],"(exp D3A0FE15DEE185CE) SA",SA.hex()[:16],"(exp 18C7894B3816DF16)")
