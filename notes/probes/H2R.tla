---------------------------- MODULE H2R ----------------------------
EXTENDS Integers
N == 82434016654578246444830763105245969129316048019845143771873730126023764135717
MU == 162648970341031538578495472666640046822974850130444514635749109174481415928881
R256 == 2^256
\* implementation-shaped mod_n_from_hash on a 320-bit value z
Impl(z) ==
  LET z1 == z \div (2^192)
      q  == (z1 * MU) \div (2^320)
      h  == ((z % R256) - ((q * (N-1)) % R256)) % R256
      raw == h + 1
  IN IF raw >= R256 THEN (raw - R256 + (R256 - N)) % R256
     ELSE IF raw >= N THEN raw - N ELSE raw
VARIABLES
  \* @type: Int;
  z
Init == z \in 0..(2^320 - 1)
Next == UNCHANGED z
Inv == Impl(z) = (z % (N-1)) + 1
=======================================================================
