---------------------------- MODULE BNF ----------------------------
EXTENDS Naturals, Sequences, BigNat2, BNC, TLC
Z0 == <<>>
One == <<1>>
Two == <<2>>
Three == <<3>>
Mul(a,b) == BMulMod(a,b,P)
Add(a,b) == BAddMod(a,b,P)
Sub(a,b) == BSubMod(a,b,P)
Neg(a) == BSubMod(Z0,a,P)
Inv(a) == BPowMod(a, PM2, P)
\* ---- Fp2 = Fp[u]/(u^2+2), element <<a0,a1>> ----
F2Mul(a,b) == << Sub(Mul(a[1],b[1]), Mul(Two, Mul(a[2],b[2]))), Add(Mul(a[1],b[2]), Mul(a[2],b[1])) >>
F2Add(a,b) == << Add(a[1],b[1]), Add(a[2],b[2]) >>
F2Sub(a,b) == << Sub(a[1],b[1]), Sub(a[2],b[2]) >>
F2InvD(a,d) == << Mul(a[1],d), Neg(Mul(a[2],d)) >>
F2Inv(a) == F2InvD(a, Inv(Add(Mul(a[1],a[1]), Mul(Two, Mul(a[2],a[2])))))
F2Conj(a) == << a[1], Neg(a[2]) >>
F2Scale(a,k) == << Mul(a[1],k), Mul(a[2],k) >>
\* ---- Fp12 = Fp[w]/(w^12+2): 12-tuple, index i+1 holds coefficient of w^i ----
RECURSIVE SumTo(_,_,_,_)
SumTo(a, b, k, i) == IF i > 11 THEN Z0 ELSE
   LET j == k - i IN
   IF j < 0 \/ j > 11 THEN SumTo(a,b,k,i+1) ELSE Add(Mul(a[i+1], b[j+1]), SumTo(a,b,k,i+1))
Red12(c) == TLCEval([k \in 1..12 |-> IF k <= 11 THEN Sub(c[k-1], Add(c[k+11], c[k+11])) ELSE c[11]])
F12Mul(a,b) == Red12(TLCEval([k \in 0..22 |-> SumTo(a,b,k,0)]))
F12One == TLCEval([k \in 1..12 |-> IF k = 1 THEN One ELSE Z0])
RECURSIVE PowBits(_,_,_,_)
PowBits(acc, a, byte, j) == IF j < 0 THEN acc ELSE
   PowBits(IF (byte \div (2^j)) % 2 = 1 THEN F12Mul(F12Mul(acc,acc), a) ELSE F12Mul(acc,acc), a, byte, j-1)
RECURSIVE PowBytes(_,_,_,_,_)
PowBytes(acc, a, e, from, to) == IF from > to THEN acc ELSE PowBytes(PowBits(acc, a, e[from], 7), a, e, from+1, to)
RECURSIVE PowGroups(_,_,_,_)
PowGroups(acc, a, e, g) == IF (g-1)*16 >= Len(e) THEN acc ELSE
   PowGroups(PowBytes(acc, a, e, (g-1)*16+1, IF g*16 < Len(e) THEN g*16 ELSE Len(e)), a, e, g+1)
F12Pow(a, e) == PowGroups(F12One, a, e, 1)
\* sparse embedding: Fp2 element times w^k (k in {0,2,3}) ; u = w^6
Emb(a, k) == TLCEval([i \in 1..12 |-> IF i = k+1 THEN a[1] ELSE IF i = k+7 THEN a[2] ELSE Z0])
F12Add(a,b) == TLCEval([i \in 1..12 |-> Add(a[i], b[i])])
\* ---- twist E': y^2 = x^3 + 5u, affine points <<x,y>> over Fp2 ----
TStep3(T, l, x3) == << <<x3, F2Sub(F2Mul(l, F2Sub(T[1],x3)), T[2])>>, l >>
TDbl2(T, l) == TStep3(T, l, F2Sub(F2Mul(l,l), F2Add(T[1],T[1])))
TDbl(T) == TDbl2(T, F2Mul(F2Mul(<<Three,Z0>>, F2Mul(T[1],T[1])), F2Inv(F2Mul(<<Two,Z0>>, T[2]))))
TAdd2(T, Q, l) == TStep3(T, l, F2Sub(F2Sub(F2Mul(l,l), T[1]), Q[1]))
TAdd(T,Q) == TAdd2(T, Q, F2Mul(F2Sub(Q[2],T[2]), F2Inv(F2Sub(Q[1],T[1]))))
Line(T, l, Pt) == F12Add(F12Add(Emb(<<Pt[2],Z0>>, 3), Emb(F2Scale(l, Neg(Pt[1])), 2)), Emb(F2Sub(F2Mul(l,T[1]), T[2]), 0))
Gamma == BPowMod(Neg(Two), GAMMAEXP, P)
GI == Inv(Gamma)
Frob1(Q) == << F2Scale(F2Conj(Q[1]), Mul(GI,GI)), F2Scale(F2Conj(Q[2]), Mul(GI,Mul(GI,GI))) >>
TNeg(Q) == << Q[1], <<Neg(Q[2][1]), Neg(Q[2][2])>> >>
RECURSIVE Miller(_,_,_,_,_)
MAddStep(f1, T2, a, Q, Pt, i) == Miller(F12Mul(f1, Line(T2, a[2], Pt)), a[1], Q, Pt, i-1)
MDblStep(f, T, d, Q, Pt, i) ==
   IF BBit(LOOP, i) = 1
   THEN MAddStep(F12Mul(F12Mul(f,f), Line(T, d[2], Pt)), d[1], TAdd(d[1], Q), Q, Pt, i)
   ELSE Miller(F12Mul(F12Mul(f,f), Line(T, d[2], Pt)), d[1], Q, Pt, i-1)
Miller(f, T, Q, Pt, i) == IF i < 0 THEN <<f, T>> ELSE MDblStep(f, T, TDbl(T), Q, Pt, i)
Fin2(f1, a1, a2, Pt) == F12Mul(f1, Line(a1[1], a2[2], Pt))
Fin1(m, a1, Q2, Pt) == Fin2(F12Mul(m[1], Line(m[2], a1[2], Pt)), a1, TAdd(a1[1], Q2), Pt)
Fin0(m, Q1, Q2, Pt) == Fin1(m, TAdd(m[2], Q1), Q2, Pt)
PairingPre(Pt, Q) == Fin0(Miller(F12One, Q, Q, Pt, BBitLen(LOOP) - 2), Frob1(Q), TNeg(Frob1(Frob1(Q))), Pt)
Pairing(Pt, Q) == F12Pow(PairingPre(Pt,Q), FEXP)
G1 == <<P1X, P1Y>>
G2 == << <<P2X0,P2X1>>, <<P2Y0,P2Y1>> >>
VARIABLE st
Init == st = 0
ShowE(e) == PrintT(<<"e w^11 first bytes", SubSeq(BToBE32(e[12]),1,4), SubSeq(BToBE32(e[1]),1,4)>>)
Show(m) == PrintT(<<"miller done", BToBE32(m[12])[1]>>) /\ ShowE(F12Pow(m, FEXP))
Next == st = 0 /\ st' = 1 /\ Show(PairingPre(G1, G2))
=====================================================================
