from sm9sig import *
def kdf(z,klen):
    out=b''; ct=1
    while len(out)<klen:
        out+=sm3(z+ct.to_bytes(4,'big')); ct+=1
    return out[:klen]
ke=0x0001EDEE3778F441F8DEA3D9FA0ACC4E07EE36C93F9A08618AF4AD85CEDE1C22
Ppube=g1mul(ke,P1)
ID=b"Bob"; M=b"Chinese IBE standard"
r=0x0000AAC0541779C8FC45E3E2CB25C12B5D2576B2129AE8BB5EE2CBE5EC9E785C
h1=H(1,ID+b'\x03'); QB=g1add(g1mul(h1,P1),Ppube); C1=g1mul(r,QB)
print("C1.x",hex(C1[0]),"(Annex 24454711...)")
g=pairing(Ppube,(P2x,P2y)); w=f12pow(g,r)
C1b=C1[0].to_bytes(32,'big')+C1[1].to_bytes(32,'big')
K=kdf(C1b+f12bytes(w)+ID,len(M)+32)
print("K",K.hex(),"(Annex 58373260F067EC48...)")
K1,K2=K[:len(M)],K[len(M):]
C2=bytes(a^b for a,b in zip(M,K1)); C3=sm3(C2+K2)
print("C2",C2.hex()); print("C3",C3.hex())
# de_B check (repo test value 94736ACD2C8C8796...)
t2=ke*pow(h1+ke,-1,N)%N; de=g2mul(t2,(P2x,P2y)); print("de.x1",hex(de[0][1]))
