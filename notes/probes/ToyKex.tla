---------------------------- MODULE ToyKex ----------------------------
(* E1 probe: SM2 key agreement (GB/T 32918.3) on a toy cyclic group Z_n "in the exponent" with a channel
   adversary that may alter any subset of the four messages RA, RB, SB, SA.  Hashes are free constructors.
   INF_OK = TRUE models the code as it stands (Point::is_valid accepts the point at infinity). *)
EXTENDS Integers, FiniteSets, TLC
CONSTANTS n, INF_OK
Pts == 0..(n-1)                       \* i stands for [i]G ; 0 = point at infinity
X(i) == IF i <= n - i THEN i ELSE n - i
Xbar(i) == 2 + (X(i) % 2)             \* toy version of 2^w + (x mod 2^w), w = 1
OFF == -1
Valid(p) == p # OFF /\ (INF_OK \/ p # 0)
S(tag, v, ra, rb) == <<"S", tag, v, ra, rb>>
KDF(v) == <<"KDF", v, "ZA", "ZB">>
VARIABLES pc, dA, dB, rA, rB, sent, recv, tampered, accA, accB, KA, KB, S2
vars == <<pc, dA, dB, rA, rB, sent, recv, tampered, accA, accB, KA, KB, S2>>
Msgs == {"RA","RB","SB","SA"}
NoneP == -2
NoneH == <<"none">>
Junk == <<"junk">>
Init == /\ pc = "A1" /\ dA \in 1..(n-2) /\ dB \in 1..(n-2) /\ rA \in 1..(n-1) /\ rB \in 1..(n-1)
        /\ sent = [RA |-> NoneP, RB |-> NoneP, SB |-> NoneH, SA |-> NoneH] /\ recv = [RA |-> NoneP, RB |-> NoneP, SB |-> NoneH, SA |-> NoneH] /\ tampered = {}
        /\ accA = "pending" /\ accB = "pending" /\ KA = NoneH /\ KB = NoneH /\ S2 = NoneH
\* the channel: deliver faithfully or alter
AltPoint(p) == ((Pts \cup {OFF}) \ {p})
Deliver(m, v, alts) == \/ /\ recv' = [recv EXCEPT ![m] = v] /\ tampered' = tampered
                       \/ \E a \in alts : recv' = [recv EXCEPT ![m] = a] /\ tampered' = tampered \cup {m}
A1 == /\ pc = "A1" /\ sent' = [sent EXCEPT !["RA"] = rA] /\ Deliver("RA", rA, AltPoint(rA))
      /\ pc' = "B2" /\ UNCHANGED <<dA,dB,rA,rB,accA,accB,KA,KB,S2>>
B2 == /\ pc = "B2"
      /\ LET ra == recv["RA"] IN
         IF ~Valid(ra) THEN /\ accB' = "fail" /\ pc' = "done" /\ UNCHANGED <<sent, recv, tampered, KB, S2>>
         ELSE LET tB == (dB + Xbar(rB) * rB) % n
                  v  == (tB * (dA + Xbar(ra) * ra)) % n
              IN IF v = 0 THEN /\ accB' = "fail" /\ pc' = "done" /\ UNCHANGED <<sent, recv, tampered, KB, S2>>
                 ELSE /\ KB' = KDF(v) /\ S2' = S(3, v, ra, rB)
                      /\ sent' = [sent EXCEPT !["RB"] = rB, !["SB"] = S(2, v, ra, rB)]
                      /\ \E p \in {rB} \cup AltPoint(rB), h \in {S(2, v, ra, rB), Junk} :
                            /\ recv' = [recv EXCEPT !["RB"] = p, !["SB"] = h]
                            /\ tampered' = tampered \cup (IF p # rB THEN {"RB"} ELSE {}) \cup (IF h # S(2, v, ra, rB) THEN {"SB"} ELSE {})
                      /\ pc' = "A3" /\ accB' = accB
      /\ UNCHANGED <<dA,dB,rA,rB,accA,KA>>
A3 == /\ pc = "A3"
      /\ LET rb == recv["RB"] IN
         IF ~Valid(rb) THEN /\ accA' = "fail" /\ pc' = "B4" /\ UNCHANGED <<sent, recv, tampered, KA>>
         ELSE LET tA == (dA + Xbar(rA) * rA) % n
                  u  == (tA * (dB + Xbar(rb) * rb)) % n
              IN IF u = 0 \/ S(2, u, rA, rb) # recv["SB"]
                 THEN /\ accA' = "fail" /\ pc' = "B4" /\ UNCHANGED <<sent, recv, tampered, KA>>
                 ELSE /\ accA' = "ok" /\ KA' = KDF(u) /\ sent' = [sent EXCEPT !["SA"] = S(3, u, rA, rb)]
                      /\ Deliver("SA", S(3, u, rA, rb), {Junk, sent["SB"]})
                      /\ pc' = "B4"
      /\ UNCHANGED <<dA,dB,rA,rB,accB,KB,S2>>
B4 == /\ pc = "B4"
      /\ \/ /\ recv["SA"] # NoneH /\ accB' = (IF recv["SA"] = S2 THEN "ok" ELSE "fail") /\ UNCHANGED <<recv, tampered>>
         \/ /\ recv["SA"] = NoneH      \* A sent nothing: the adversary may inject a replay or junk
            /\ \E h \in {Junk, sent["SB"]} : /\ recv' = [recv EXCEPT !["SA"] = h] /\ tampered' = tampered \cup {"SA"}
                                              /\ accB' = (IF h = S2 THEN "ok" ELSE "fail")
      /\ pc' = "done" /\ UNCHANGED <<dA,dB,rA,rB,sent,accA,KA,KB,S2>>
Next == A1 \/ B2 \/ A3 \/ B4 \/ (pc = "done" /\ UNCHANGED vars)
Done == pc = "done"
TA == (dA + Xbar(rA) * rA) % n
TB == (dB + Xbar(rB) * rB) % n
Degenerate == TA = 0 \/ TB = 0            \* V = U = O: the standard says "fail"; probability ~2/n, negligible at real size
Honest == Done /\ tampered = {} /\ ~Degenerate => accA = "ok" /\ accB = "ok" /\ KA = KB
HonestDegenerate == Done /\ tampered = {} /\ Degenerate => accA # "ok" /\ accB # "ok"
AcceptA == accA = "ok" => recv["RB"] = sent["RB"] /\ recv["SB"] = sent["SB"] /\ recv["RA"] = sent["RA"]
AcceptB == accB = "ok" => recv["RA"] = sent["RA"] /\ recv["RB"] = sent["RB"] /\ recv["SA"] = sent["SA"] /\ accA = "ok"
Agree == accA = "ok" /\ accB = "ok" => KA = KB
OffCurve == (pc \in {"A3","done"} /\ recv["RA"] = OFF => accB = "fail") /\ (pc \in {"B4","done"} /\ recv["RB"] = OFF => accA = "fail")
Infinity == (pc \in {"A3","done"} /\ recv["RA"] = 0 => accB = "fail")      \* fails when INF_OK: B goes on with an invalid ephemeral point
AllSubsetsSeen == TRUE
=====================================================================
