---------------------------- MODULE SM9A ----------------------------
EXTENDS Naturals, Sequences, Bitwise, BigNat2, BNC, TLC
Z0 == <<>>
One == <<1>>
Two == <<2>>
Three == <<3>>
Mul(a,b) == BMulMod(a,b,P)
Add(a,b) == BAddMod(a,b,P)
Sub(a,b) == BSubMod(a,b,P)
Neg(a) == BSubMod(Z0,a,P)
Inv(a) == BPowMod(a, PM2, P)
\* ---- Fp2 = Fp[u]/(u^2+2), element <<a0,a1>> ----
F2Mul(a,b) == << Sub(Mul(a[1],b[1]), Mul(Two, Mul(a[2],b[2]))), Add(Mul(a[1],b[2]), Mul(a[2],b[1])) >>
F2Add(a,b) == << Add(a[1],b[1]), Add(a[2],b[2]) >>
F2Sub(a,b) == << Sub(a[1],b[1]), Sub(a[2],b[2]) >>
F2InvD(a,d) == << Mul(a[1],d), Neg(Mul(a[2],d)) >>
F2Inv(a) == F2InvD(a, Inv(Add(Mul(a[1],a[1]), Mul(Two, Mul(a[2],a[2])))))
F2Conj(a) == << a[1], Neg(a[2]) >>
F2Scale(a,k) == << Mul(a[1],k), Mul(a[2],k) >>
\* ---- Fp12 = Fp[w]/(w^12+2): 12-tuple, index i+1 holds coefficient of w^i ----
RECURSIVE SumTo(_,_,_,_)
SumTo(a, b, k, i) == IF i > 11 THEN Z0 ELSE
   LET j == k - i IN
   IF j < 0 \/ j > 11 THEN SumTo(a,b,k,i+1) ELSE Add(Mul(a[i+1], b[j+1]), SumTo(a,b,k,i+1))
Red12(c) == TLCEval([k \in 1..12 |-> IF k <= 11 THEN Sub(c[k-1], Add(c[k+11], c[k+11])) ELSE c[11]])
F12Mul(a,b) == Red12(TLCEval([k \in 0..22 |-> SumTo(a,b,k,0)]))
F12One == TLCEval([k \in 1..12 |-> IF k = 1 THEN One ELSE Z0])
RECURSIVE PowBits(_,_,_,_)
PowBits(acc, a, byte, j) == IF j < 0 THEN acc ELSE
   PowBits(IF (byte \div (2^j)) % 2 = 1 THEN F12Mul(F12Mul(acc,acc), a) ELSE F12Mul(acc,acc), a, byte, j-1)
RECURSIVE PowBytes(_,_,_,_,_)
PowBytes(acc, a, e, from, to) == IF from > to THEN acc ELSE PowBytes(PowBits(acc, a, e[from], 7), a, e, from+1, to)
RECURSIVE PowGroups(_,_,_,_)
PowGroups(acc, a, e, g) == IF (g-1)*16 >= Len(e) THEN acc ELSE
   PowGroups(PowBytes(acc, a, e, (g-1)*16+1, IF g*16 < Len(e) THEN g*16 ELSE Len(e)), a, e, g+1)
F12Pow(a, e) == PowGroups(F12One, a, e, 1)
\* sparse embedding: Fp2 element times w^k (k in {0,2,3}) ; u = w^6
Emb(a, k) == TLCEval([i \in 1..12 |-> IF i = k+1 THEN a[1] ELSE IF i = k+7 THEN a[2] ELSE Z0])
F12Add(a,b) == TLCEval([i \in 1..12 |-> Add(a[i], b[i])])
\* ---- twist E': y^2 = x^3 + 5u, affine points <<x,y>> over Fp2 ----
TStep3(T, l, x3) == << <<x3, F2Sub(F2Mul(l, F2Sub(T[1],x3)), T[2])>>, l >>
TDbl2(T, l) == TStep3(T, l, F2Sub(F2Mul(l,l), F2Add(T[1],T[1])))
TDbl(T) == TDbl2(T, F2Mul(F2Mul(<<Three,Z0>>, F2Mul(T[1],T[1])), F2Inv(F2Mul(<<Two,Z0>>, T[2]))))
TAdd2(T, Q, l) == TStep3(T, l, F2Sub(F2Sub(F2Mul(l,l), T[1]), Q[1]))
TAdd(T,Q) == TAdd2(T, Q, F2Mul(F2Sub(Q[2],T[2]), F2Inv(F2Sub(Q[1],T[1]))))
Line(T, l, Pt) == F12Add(F12Add(Emb(<<Pt[2],Z0>>, 3), Emb(F2Scale(l, Neg(Pt[1])), 2)), Emb(F2Sub(F2Mul(l,T[1]), T[2]), 0))
Gamma == BPowMod(Neg(Two), GAMMAEXP, P)
GI == Inv(Gamma)
Frob1(Q) == << F2Scale(F2Conj(Q[1]), Mul(GI,GI)), F2Scale(F2Conj(Q[2]), Mul(GI,Mul(GI,GI))) >>
TNeg(Q) == << Q[1], <<Neg(Q[2][1]), Neg(Q[2][2])>> >>
RECURSIVE Miller(_,_,_,_,_)
MAddStep(f1, T2, a, Q, Pt, i) == Miller(F12Mul(f1, Line(T2, a[2], Pt)), a[1], Q, Pt, i-1)
MDblStep(f, T, d, Q, Pt, i) ==
   IF BBit(LOOP, i) = 1
   THEN MAddStep(F12Mul(F12Mul(f,f), Line(T, d[2], Pt)), d[1], TAdd(d[1], Q), Q, Pt, i)
   ELSE Miller(F12Mul(F12Mul(f,f), Line(T, d[2], Pt)), d[1], Q, Pt, i-1)
Miller(f, T, Q, Pt, i) == IF i < 0 THEN <<f, T>> ELSE MDblStep(f, T, TDbl(T), Q, Pt, i)
Fin2(f1, a1, a2, Pt) == F12Mul(f1, Line(a1[1], a2[2], Pt))
Fin1(m, a1, Q2, Pt) == Fin2(F12Mul(m[1], Line(m[2], a1[2], Pt)), a1, TAdd(a1[1], Q2), Pt)
Fin0(m, Q1, Q2, Pt) == Fin1(m, TAdd(m[2], Q1), Q2, Pt)
PairingPre(Pt, Q) == Fin0(Miller(F12One, Q, Q, Pt, BBitLen(LOOP) - 2), Frob1(Q), TNeg(Frob1(Frob1(Q))), Pt)
Pairing(Pt, Q) == F12Pow(PairingPre(Pt,Q), FEXP)
KS == <<0,1,48,231,132,89,215,133,69,203,84,197,135,224,44,244,128,206,11,102,52,15,49,159,52,138,29,91,31,45,197,244>>
RS == <<0,3,60,134,22,176,103,4,129,50,3,223,208,9,101,2,46,209,89,117,198,98,51,122,237,100,136,53,220,75,28,190>>
HEXP == <<130,60,75,33,228,189,45,254,30,217,44,96,102,83,233,150,102,133,99,21,47,195,63,85,215,191,187,155,217,112,90,219>>
SX == <<115,191,150,146,60,229,139,106,208,225,62,150,67,164,6,216,235,152,65,124,80,239,27,41,206,249,173,180,139,109,89,140>>
SY == <<133,103,18,241,194,224,150,138,183,118,159,66,169,149,134,174,209,57,213,184,179,225,88,145,130,124,194,172,237,155,170,5>>
DSX == <<165,112,47,5,207,19,21,48,94,45,110,182,75,13,235,146,61,177,160,188,240,202,255,144,82,58,200,117,74,166,152,32>>
KE == <<0,1,237,238,55,120,244,65,248,222,163,217,250,10,204,78,7,238,54,201,63,154,8,97,138,244,173,133,206,222,28,34>>
RE == <<0,0,170,192,84,23,121,200,252,69,227,226,203,37,193,43,93,37,118,178,18,154,232,187,94,226,203,229,236,158,120,92>>
C1X == <<36,69,71,17,100,73,6,24,225,238,32,82,143,241,213,69,176,241,76,139,202,164,69,68,240,61,171,93,172,7,216,255>>
C2E == <<27,95,91,14,149,20,137,104,47,62,100,225,55,140,221,93,169,81,59,28>>
C3E == <<186,103,35,135,188,214,222,80,22,161,88,165,43,178,231,252,66,145,151,188,171,112,178,90,254,227,122,43,157,185,243,103>>
NM1 == <<182,64,0,0,2,163,166,241,214,3,171,79,245,142,199,68,73,242,147,75,24,234,139,238,229,110,225,156,214,158,207,36>>
NM2 == <<182,64,0,0,2,163,166,241,214,3,171,79,245,142,199,68,73,242,147,75,24,234,139,238,229,110,225,156,214,158,207,35>>
H3 == INSTANCE SM3H
Sm3(bytes) == H3!DigestBytesOf(bytes)
\* ---- G1: y^2 = x^3 + 5 over Fp, affine, O = <<"inf">> ----
Inf == <<"inf">>
G1S3(p, l, x3) == <<x3, Sub(Mul(l, Sub(p[1], x3)), p[2])>>
G1D2(p, l) == G1S3(p, l, Sub(Sub(Mul(l,l), p[1]), p[1]))
G1Dbl(p) == IF p = Inf \/ p[2] = Z0 THEN Inf ELSE G1D2(p, Mul(Mul(Three, Mul(p[1],p[1])), Inv(Mul(Two, p[2]))))
G1A2(p, q, l) == G1S3(p, l, Sub(Sub(Mul(l,l), p[1]), q[1]))
G1Add(p, q) == IF p = Inf THEN q ELSE IF q = Inf THEN p ELSE
   IF p[1] = q[1] THEN (IF p[2] = q[2] THEN G1Dbl(p) ELSE Inf) ELSE G1A2(p, q, Mul(Sub(q[2], p[2]), Inv(Sub(q[1], p[1]))))
RECURSIVE G1Bits(_,_,_,_)
G1Bits(acc, p, byte, j) == IF j < 0 THEN acc ELSE G1Bits(IF (byte \div (2^j)) % 2 = 1 THEN G1Add(G1Dbl(acc), p) ELSE G1Dbl(acc), p, byte, j-1)
RECURSIVE G1Bytes(_,_,_,_)
G1Bytes(acc, p, k, i) == IF i > Len(k) THEN acc ELSE G1Bytes(G1Bits(acc, p, k[i], 7), p, k, i+1)
G1Mul(k, p) == G1Bytes(Inf, p, k, 1)
\* ---- G2 scalar multiple on the twist (affine, O = Inf) ----
T2Dbl(q) == IF q = Inf THEN Inf ELSE TDbl(q)[1]
T2Add(a, b) == IF a = Inf THEN b ELSE IF b = Inf THEN a ELSE IF a[1] = b[1] THEN (IF a[2] = b[2] THEN TDbl(a)[1] ELSE Inf) ELSE TAdd(a, b)[1]
RECURSIVE G2Bits(_,_,_,_)
G2Bits(acc, q, byte, j) == IF j < 0 THEN acc ELSE G2Bits(IF (byte \div (2^j)) % 2 = 1 THEN T2Add(T2Dbl(acc), q) ELSE T2Dbl(acc), q, byte, j-1)
RECURSIVE G2Bytes(_,_,_,_)
G2Bytes(acc, q, k, i) == IF i > Len(k) THEN acc ELSE G2Bytes(G2Bits(acc, q, k[i], 7), q, k, i+1)
G2Mul(k, q) == G2Bytes(Inf, q, k, 1)
G1 == <<P1X, P1Y>>
G2 == << <<P2X0,P2X1>>, <<P2Y0,P2Y1>> >>
\* ---- H1/H2 (hlen = 320 bits), KDF, byte order of GT elements ----
Ct(i) == <<0,0,0,i>>
HRange(prefix, z) == BAddMod(BMod(BFromBE(SubSeq(Sm3(<<prefix>> \o z \o Ct(1)) \o Sm3(<<prefix>> \o z \o Ct(2)), 1, 40)), BFromBE(NM1)), <<1>>, N)
B32(x) == BToBE32(x)
\* library / standard byte order: coefficients of w^(6k+3j+i) for i=2,1,0; j=1,0; k=1,0
F12Bytes(e) == B32(e[12]) \o B32(e[6]) \o B32(e[9]) \o B32(e[3]) \o B32(e[11]) \o B32(e[5]) \o B32(e[8]) \o B32(e[2]) \o B32(e[10]) \o B32(e[4]) \o B32(e[7]) \o B32(e[1])
RECURSIVE KdfR(_,_,_,_)
KdfR(z, klen, ct, acc) == IF Len(acc) >= klen THEN SubSeq(acc, 1, klen) ELSE KdfR(z, klen, ct+1, acc \o Sm3(z \o <<0,0,0,ct>>))
KDF(z, klen) == KdfR(z, klen, 1, <<>>)
InvN(x) == BPowMod(x, BFromBE(NM2), N)
\* ---- signature: GM/T 0044.2 ----
Alice == <<65,108,105,99,101>>
Bob == <<66,111,98>>
MsgS == <<67,104,105,110,101,115,101,32,73,66,83,32,115,116,97,110,100,97,114,100>>
MsgE == <<67,104,105,110,101,115,101,32,73,66,69,32,115,116,97,110,100,97,114,100>>
ExtractSign(ks, id) == G1Mul(B32(BMulMod(BFromBE(ks), InvN(BAddMod(HRange(1, id \o <<1>>), BFromBE(ks), N)), N)), G1)
SignHS(h, r, ds) == << h, G1Mul(B32(BSubMod(BFromBE(r), h, N)), ds) >>
SignW(msg, w, r, ds) == SignHS(HRange(2, msg \o F12Bytes(w)), r, ds)
SignStd(ks, id, msg, r) == SignW(msg, F12Pow(Pairing(G1, G2Mul(ks, G2)), r), r, ExtractSign(ks, id))
ASSUME ExtractSign(KS, Alice)[1] = BFromBE(DSX)
SigA == SignStd(KS, Alice, MsgS, RS)
ASSUME SigA[1] = BFromBE(HEXP) /\ SigA[2] = <<BFromBE(SX), BFromBE(SY)>>
\* ---- encryption: GM/T 0044.4, MAC(K2,Z) = SM3(Z || K2) ----
XorS(a, b) == [i \in 1..Len(a) |-> a[i] ^^ b[i]]
EncK(msg, c1, k) == << c1, TLCEval(XorS(msg, SubSeq(k, 1, Len(msg)))), SubSeq(k, Len(msg)+1, Len(msg)+32) >>
EncC(p) == << p[1], p[2], Sm3(p[2] \o p[3]) >>
EncW(msg, id, c1, w) == EncC(EncK(msg, c1, KDF(B32(c1[1]) \o B32(c1[2]) \o F12Bytes(w) \o id, Len(msg) + 32)))
EncQ(ke, id, msg, r, ppub) == EncW(msg, id, G1Mul(r, G1Add(G1Mul(B32(HRange(1, id \o <<3>>)), G1), ppub)), F12Pow(Pairing(ppub, G2), r))
EncStd(ke, id, msg, r) == EncQ(ke, id, msg, r, G1Mul(ke, G1))
EncA == EncStd(KE, Bob, MsgE, RE)
ASSUME EncA[1][1] = BFromBE(C1X) /\ EncA[2] = C2E /\ EncA[3] = C3E
VARIABLE st
Init == st = 0
Next == st' = st
=====================================================================
