---------------------------- MODULE SM2A ----------------------------
EXTENDS SM3H, BigNat2, SM2Anchors
Hx(s) == BFromBE(s)
PP == Hx(<<\hFF,\hFF,\hFF,\hFE,\hFF,\hFF,\hFF,\hFF,\hFF,\hFF,\hFF,\hFF,\hFF,\hFF,\hFF,\hFF,\hFF,\hFF,\hFF,\hFF,\h00,\h00,\h00,\h00,\hFF,\hFF,\hFF,\hFF,\hFF,\hFF,\hFF,\hFF>>)
NN == Hx(<<\hFF,\hFF,\hFF,\hFE,\hFF,\hFF,\hFF,\hFF,\hFF,\hFF,\hFF,\hFF,\hFF,\hFF,\hFF,\hFF,\h72,\h03,\hDF,\h6B,\h21,\hC6,\h05,\h2B,\h53,\hBB,\hF4,\h09,\h39,\hD5,\h41,\h23>>)
ABytes == <<\hFF,\hFF,\hFF,\hFE,\hFF,\hFF,\hFF,\hFF,\hFF,\hFF,\hFF,\hFF,\hFF,\hFF,\hFF,\hFF,\hFF,\hFF,\hFF,\hFF,\h00,\h00,\h00,\h00,\hFF,\hFF,\hFF,\hFF,\hFF,\hFF,\hFF,\hFC>>
BBytes == <<\h28,\hE9,\hFA,\h9E,\h9D,\h9F,\h5E,\h34,\h4D,\h5A,\h9E,\h4B,\hCF,\h65,\h09,\hA7,\hF3,\h97,\h89,\hF5,\h15,\hAB,\h8F,\h92,\hDD,\hBC,\hBD,\h41,\h4D,\h94,\h0E,\h93>>
GXBytes == <<\h32,\hC4,\hAE,\h2C,\h1F,\h19,\h81,\h19,\h5F,\h99,\h04,\h46,\h6A,\h39,\hC9,\h94,\h8F,\hE3,\h0B,\hBF,\hF2,\h66,\h0B,\hE1,\h71,\h5A,\h45,\h89,\h33,\h4C,\h74,\hC7>>
GYBytes == <<\hBC,\h37,\h36,\hA2,\hF4,\hF6,\h77,\h9C,\h59,\hBD,\hCE,\hE3,\h6B,\h69,\h21,\h53,\hD0,\hA9,\h87,\h7C,\hC6,\h2A,\h47,\h40,\h02,\hDF,\h32,\hE5,\h21,\h39,\hF0,\hA0>>
AA == Hx(ABytes)
PM2 == BSubMod(PP, <<2>>, <<1,0,0,0,0,0,0,0,0,0,0,0,0,0,0,0,0,0,0,0,0,0,0,0,0,0,0,0,0,0,0,0,0>>)
Inf == <<"inf">>
Mul(a,b) == BMulMod(a,b,PP)
Add(a,b) == BAddMod(a,b,PP)
Sub(a,b) == BSubMod(a,b,PP)
Inv(a) == BPowMod(a, PM2, PP)
DblL(p, lam, x3) == <<x3, Sub(Mul(lam, Sub(p[1], x3)), p[2])>>
DblM(p, lam) == DblL(p, lam, Sub(Sub(Mul(lam,lam), p[1]), p[1]))
Dbl(p) == IF p = Inf \/ p[2] = <<>> THEN Inf ELSE DblM(p, Mul(Add(Mul(<<3>>, Mul(p[1],p[1])), AA), Inv(Mul(<<2>>, p[2]))))
AddM(p, q, lam) == DblL(p, lam, Sub(Sub(Mul(lam,lam), p[1]), q[1]))
PAdd(p, q) == IF p = Inf THEN q ELSE IF q = Inf THEN p ELSE
   IF p[1] = q[1] THEN (IF p[2] = q[2] THEN Dbl(p) ELSE Inf) ELSE AddM(p, q, Mul(Sub(q[2], p[2]), Inv(Sub(q[1], p[1]))))
\* chunked double-and-add over the bytes of k (big-endian 32 bytes)
RECURSIVE SMBits(_,_,_,_)
SMBits(acc, p, byte, j) == IF j < 0 THEN acc ELSE
   SMBits(IF (byte \div (2^j)) % 2 = 1 THEN PAdd(Dbl(acc), p) ELSE Dbl(acc), p, byte, j-1)
RECURSIVE SMBytes(_,_,_,_)
SMBytes(acc, p, k, i) == IF i > Len(k) THEN acc ELSE SMBytes(SMBits(acc, p, k[i], 7), p, k, i+1)
ScalarMul(kbytes, p) == SMBytes(Inf, p, kbytes, 1)
\* ---- SM2 verification per GB/T 32918.2 ----
DigestBytes(h) == << h[1][1] \div 256, h[1][1] % 256, h[1][2] \div 256, h[1][2] % 256, h[2][1] \div 256, h[2][1] % 256, h[2][2] \div 256, h[2][2] % 256,
                     h[3][1] \div 256, h[3][1] % 256, h[3][2] \div 256, h[3][2] % 256, h[4][1] \div 256, h[4][1] % 256, h[4][2] \div 256, h[4][2] % 256,
                     h[5][1] \div 256, h[5][1] % 256, h[5][2] \div 256, h[5][2] % 256, h[6][1] \div 256, h[6][1] % 256, h[6][2] \div 256, h[6][2] % 256,
                     h[7][1] \div 256, h[7][1] % 256, h[7][2] \div 256, h[7][2] % 256, h[8][1] \div 256, h[8][1] % 256, h[8][2] \div 256, h[8][2] % 256 >>
ZA(uid, px, py) == DigestBytes(Hash(<<(Len(uid)*8) \div 256, (Len(uid)*8) % 256>> \o uid \o ABytes \o BBytes \o GXBytes \o GYBytes \o px \o py))
EDigest(uid, px, py, msg) == DigestBytes(Hash(ZA(uid,px,py) \o msg))
InRange(x) == x # <<>> /\ BSubMod(x, <<>>, NN) = x      \* 1 <= x <= n-1 (canonical digits: x mod n = x)
Final(r, e, pt) == pt # Inf /\ BAddMod(e, pt[1], NN) = r
Valid3(r, s, t, e, P) == t # <<>> /\ Final(r, e, PAdd(ScalarMul(BToBE32(s), <<Hx(GXBytes),Hx(GYBytes)>>), ScalarMul(BToBE32(t), P)))
Valid2(r, s, e, P) == InRange(r) /\ InRange(s) /\ Valid3(r, s, BAddMod(r, s, NN), e, P)
Valid(ev) == Len(ev.sig) = 64 /\ Valid2(Hx(SubSeq(ev.sig,1,32)), Hx(SubSeq(ev.sig,33,64)), Hx(EDigest(ev.uid, ev.px, ev.py, ev.msg)), <<Hx(ev.px), Hx(ev.py)>>)
\* ================= GB/T 32918 algorithms at real size, checked against the GM/T 0003.5 Annex =================
G == <<Hx(GXBytes), Hx(GYBytes)>>
B32(x) == BToBE32(x)
ID16 == <<49,50,51,52,53,54,55,56,49,50,51,52,53,54,55,56>>
PubOf(d) == ScalarMul(d, G)
\* ---- signature ----
InvN(x) == BPowMod(x, BSubMod(NN, <<2>>, <<1,0,0,0,0,0,0,0,0,0,0,0,0,0,0,0,0,0,0,0,0,0,0,0,0,0,0,0,0,0,0,0,0>>), NN)
SignRS(d, e, k, r) == << r, BMulMod(InvN(BAddMod(<<1>>, d, NN)), BSubMod(k, BMulMod(r, d, NN), NN), NN) >>
SignX(d, e, k, kG) == SignRS(d, e, k, BAddMod(e, kG[1], NN))
SignStd(d, e, k) == SignX(Hx(d), Hx(e), Hx(k), ScalarMul(k, G))
SigOf(d, uid, msg, k, P) == SignStd(d, EDigest(uid, B32(P[1]), B32(P[2]), msg), k)
MsgSig == <<109,101,115,115,97,103,101,32,100,105,103,101,115,116>>          \* "message digest"
ASSUME SigOf(DA, ID16, MsgSig, KN, PubOf(DA)) = <<Hx(SIGR), Hx(SIGS)>>
\* ---- KDF and encryption ----
U32(ct) == << ct \div 16777216, (ct \div 65536) % 256, (ct \div 256) % 256, ct % 256 >>
RECURSIVE KdfR(_,_,_,_)
KdfR(z, klen, ct, acc) == IF Len(acc) >= klen THEN SubSeq(acc, 1, klen) ELSE KdfR(z, klen, ct+1, acc \o DigestBytes(Hash(z \o U32(ct))))
KDF(z, klen) == KdfR(z, klen, 1, <<>>)
XorS(a, b) == [i \in 1..Len(a) |-> a[i] ^^ b[i]]
EncParts(msg, c1, s) == << c1, TLCEval(XorS(msg, KDF(B32(s[1]) \o B32(s[2]), Len(msg)))), DigestBytes(Hash(B32(s[1]) \o msg \o B32(s[2]))) >>
EncStd(P, k, msg) == EncParts(msg, ScalarMul(k, G), ScalarMul(k, P))
MsgEnc == <<101,110,99,114,121,112,116,105,111,110,32,115,116,97,110,100,97,114,100>>   \* "encryption standard"
EncA == EncStd(PubOf(DA), KN, MsgEnc)
ASSUME B32(EncA[1][1]) = ENCC1X /\ EncA[2] = ENCC2 /\ EncA[3] = ENCC3
\* ---- key agreement (w = 127, one-byte tags) ----
Low127(x) == <<x[17] % 128>> \o SubSeq(x, 18, 32)                             \* x mod 2^127 as 16 bytes
Xbar(pt) == Hx([i \in 1..16 |-> IF i = 1 THEN 128 + (B32(pt[1])[17] % 128) ELSE B32(pt[1])[16 + i]])
TScalar(d, r, R) == BAddMod(Hx(d), BMulMod(Xbar(R), Hx(r), NN), NN)
Shared(t, Ppeer, Rpeer) == ScalarMul(B32(t), PAdd(Ppeer, ScalarMul(B32(Xbar(Rpeer)), Rpeer)))
Inner(v, za, zb, ra, rb) == DigestBytes(Hash(B32(v[1]) \o za \o zb \o B32(ra[1]) \o B32(ra[2]) \o B32(rb[1]) \o B32(rb[2])))
Conf(tag, v, inner) == DigestBytes(Hash(<<tag>> \o B32(v[2]) \o inner))
KexB3(v, inner, za, zb, klen) == << KDF(B32(v[1]) \o B32(v[2]) \o za \o zb, klen), Conf(2, v, inner), Conf(3, v, inner) >>
KexB2(v, RB, RA, za, zb, klen) == KexB3(v, Inner(v, za, zb, RA, RB), za, zb, klen)
KexB(dB, rB, PA, RA, za, zb, klen) == KexB2(Shared(TScalar(dB, rB, ScalarMul(rB, G)), PA, RA), ScalarMul(rB, G), RA, za, zb, klen)
PAx == PubOf(KXDA)
PBx == PubOf(KXDB)
ZAx == ZA(ID16, B32(PAx[1]), B32(PAx[2]))
ZBx == ZA(ID16, B32(PBx[1]), B32(PBx[2]))
KexAnnex == KexB(KXDB, KXRB, PAx, ScalarMul(KXRA, G), ZAx, ZBx, 16)
ASSUME KexAnnex = << KXK, KXSB, KXSA >>
\* A's side yields the same shared point
ASSUME Shared(TScalar(KXDA, KXRA, ScalarMul(KXRA, G)), PBx, ScalarMul(KXRB, G)) = Shared(TScalar(KXDB, KXRB, ScalarMul(KXRB, G)), PAx, ScalarMul(KXRA, G))
VARIABLE x
Init == x = 0
Next == x' = x
=====================================================================
