---------------------------- MODULE SM3F ----------------------------
EXTENDS Naturals, Sequences, Bitwise, TLC
\* 32-bit word = <<hi16, lo16>>
M16 == 65536
W(hi, lo) == <<hi, lo>>
Xor2(a, b) == <<a[1] ^^ b[1], a[2] ^^ b[2]>>
And2(a, b) == <<a[1] & b[1], a[2] & b[2]>>
Or2(a, b)  == <<a[1] | b[1], a[2] | b[2]>>
Not2(a)    == <<65535 - a[1], 65535 - a[2]>>
Add2(a, b) == LET lo == a[2] + b[2]
                  hi == a[1] + b[1] + (lo \div M16)
              IN <<hi % M16, lo % M16>>
RotS(a, r) == \* 0 <= r < 16
   IF r = 0 THEN a ELSE
   LET p == 2^r  q == 2^(16-r)
   IN << ((a[1] * p) % M16) + (a[2] \div q), ((a[2] * p) % M16) + (a[1] \div q) >>
Rotl(a, r) == LET rr == r % 32 IN IF rr < 16 THEN RotS(a, rr) ELSE RotS(<<a[2], a[1]>>, rr - 16)

P0(x) == Xor2(x, Xor2(Rotl(x, 9), Rotl(x, 17)))
P1(x) == Xor2(x, Xor2(Rotl(x, 15), Rotl(x, 23)))
FF(x, y, z, j) == IF j <= 15 THEN Xor2(x, Xor2(y, z)) ELSE Or2(Or2(And2(x, y), And2(x, z)), And2(y, z))
GG(x, y, z, j) == IF j <= 15 THEN Xor2(x, Xor2(y, z)) ELSE Or2(And2(x, y), And2(Not2(x), z))
T(j) == IF j <= 15 THEN <<31180, 17689>> ELSE <<31367, 40330>>  \* 79cc4519 7a879d8a
IV == << <<29568, 5743>>, <<18708, 45753>>, <<5924, 17111>>, <<55946, 1536>>,
         <<43375, 12476>>, <<5681, 14506>>, <<58253, 61005>>, <<45307, 3662>> >>

\* block: sequence of 64 bytes
WordsOf(b) == [j \in 1..16 |-> << b[4*j-3]*256 + b[4*j-2], b[4*j-1]*256 + b[4*j] >>]

RECURSIVE Expand(_, _)
Expand(w, j) == IF j > 68 THEN w ELSE
   Expand(Append(w, Xor2(Xor2(P1(Xor2(Xor2(w[j-16], w[j-9]), Rotl(w[j-3], 15))), Rotl(w[j-13], 7)), w[j-6])), j+1)

RECURSIVE Rounds(_, _, _)
Rounds(s, w, j) == IF j = 64 THEN s ELSE
  LET a == s[1] b == s[2] c == s[3] d == s[4] e == s[5] f == s[6] g == s[7] h == s[8]
      a12 == Rotl(a, 12)
      ss1 == Rotl(Add2(Add2(a12, e), Rotl(T(j), j)), 7)
      ss2 == Xor2(ss1, a12)
      tt1 == Add2(Add2(Add2(FF(a,b,c,j), d), ss2), Xor2(w[j+1], w[j+5]))
      tt2 == Add2(Add2(Add2(GG(e,f,g,j), h), ss1), w[j+1])
  IN Rounds(<<tt1, a, Rotl(b, 9), c, P0(tt2), e, Rotl(f, 19), g>>, w, j+1)

CF(v, blk) == LET w == Expand(WordsOf(blk), 17)
                  s == Rounds(v, w, 0)
              IN [i \in 1..8 |-> Xor2(v[i], s[i])]

Pad(msg) == LET l == Len(msg)
                k == (119 - (l % 64)) % 64   \* zero bytes
                bitsHi == (l \div 8192) \* l*8 / 65536  (l < 2^28 here)
                lenbytes == <<0,0,0,0, (l*8) \div 16777216, ((l*8) \div 65536) % 256, ((l*8) \div 256) % 256, (l*8) % 256>>
            IN msg \o <<128>> \o [i \in 1..k |-> 0] \o lenbytes

RECURSIVE Iter(_, _, _)
Iter(v, pm, i) == IF i * 64 >= Len(pm) THEN v ELSE Iter(CF(v, SubSeq(pm, i*64+1, i*64+64)), pm, i+1)
Hash(msg) == Iter(IV, Pad(msg), 0)




=====================================================================
