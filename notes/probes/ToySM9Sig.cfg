CONSTANTS N = 7
INIT Init
NEXT Next
INVARIANTS Honest OutOfRange Forgery
CHECK_DEADLOCK FALSE
