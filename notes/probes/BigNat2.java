import java.math.BigInteger;
import tlc2.value.impl.*;
public class BigNat2 {
  static BigInteger toBig(Value v) { TupleValue t = (TupleValue) v.toTuple(); byte[] b = new byte[t.elems.length+1]; for (int i=0;i<t.elems.length;i++) b[i+1]=(byte)((IntValue)t.elems[i]).val; return new BigInteger(b); }
  static Value fromBig(BigInteger x, int len) { byte[] b = x.toByteArray(); Value[] e = new Value[len]; for (int i=0;i<len;i++){ int j=b.length-len+i; e[i]=IntValue.gen(j>=0? (b[j]&0xff):0);} return new TupleValue(e); }
  static Value canon(BigInteger x){ int len=(x.bitLength()+7)/8; return fromBig(x,len); }
  public static Value BMulMod(Value a, Value b, Value m) { return canon(toBig(a).multiply(toBig(b)).mod(toBig(m))); }
  public static Value BAddMod(Value a, Value b, Value m) { return canon(toBig(a).add(toBig(b)).mod(toBig(m))); }
  public static Value BSubMod(Value a, Value b, Value m) { return canon(toBig(a).subtract(toBig(b)).mod(toBig(m))); }
  public static Value BPowMod(Value a, Value e, Value m) { return canon(toBig(a).modPow(toBig(e), toBig(m))); }
  public static Value BMod(Value a, Value m) { return canon(toBig(a).mod(toBig(m))); }
  public static Value BBit(Value a, Value i) { return toBig(a).testBit(((IntValue) i).val) ? IntValue.gen(1) : IntValue.gen(0); }
  public static Value BBitLen(Value a) { return IntValue.gen(toBig(a).bitLength()); }
  public static Value BFromBE(Value a) { return canon(toBig(a)); }
  public static Value BToBE32(Value a) { return fromBig(toBig(a),32); }
}
