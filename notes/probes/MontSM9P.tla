---------------------------- MODULE MontSM9P ----------------------------
EXTENDS Integers
P == 82434016654578246444830763105245969129603161266935169637912592173415460324733
R == 2^256
VARIABLES
  \* @type: Int;
  z,
  \* @type: Int;
  m,
  \* @type: Int;
  t
Init == /\ z \in 0..((P-1)*(P-1)) /\ m \in 0..(R-1) /\ t \in 0..(2*R)
        /\ z + m * P = t * R
Next == UNCHANGED <<z,m,t>>
\* implementation: c = carry out of the 512-bit addition  <=> t >= R ; r = t mod R
Impl == IF t >= R THEN (t - R) + (R - P) ELSE IF t >= P THEN t - P ELSE t
Inv == /\ Impl >= 0 /\ Impl < P
       /\ (Impl = t \/ Impl = t - P)
       /\ (t >= R => (t - R) + (R - P) < R)
=======================================================================
