---------------------------- MODULE FnAdd ----------------------------
EXTENDS Integers
R == 2^256
N == 115792089210356248756420345214020892766061623724957744567843809356293439045923
NNEG == R - N

\* implementation-shaped fn_add on 256-bit registers
ImplAdd(a, b) ==
  LET raw == a + b
      r == raw % R
      c == raw >= R
  IN IF c THEN (r + NNEG) % R
     ELSE IF r >= N THEN r - N ELSE r

VARIABLES
  \* @type: Int;
  a,
  \* @type: Int;
  b
Init == a \in 0..(R-1) /\ b \in 0..(R-1)
Next == UNCHANGED <<a, b>>
\* canonical operands
InvCanon == (a < N /\ b < N) => ImplAdd(a, b) = (a + b) % N
\* arbitrary 256-bit operands (as used for e in sign/verify)
InvAny == ImplAdd(a, b) = (a + b) % N
=======================================================================
