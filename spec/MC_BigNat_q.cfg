CONSTANT Small = TRUE
INIT Init
NEXT Next
INVARIANT Inv
CHECK_DEADLOCK FALSE
