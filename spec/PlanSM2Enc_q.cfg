CONSTANT NK = 3
INIT Init
NEXT Next
INVARIANT Emit
CHECK_DEADLOCK FALSE
