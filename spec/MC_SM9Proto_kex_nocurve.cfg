CONSTANTS N = 7 MODE = "kex" NOMAC = FALSE NOCURVE = TRUE
INIT Init
NEXT Next
INVARIANT Inv
CHECK_DEADLOCK FALSE
