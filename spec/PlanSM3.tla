------------------------------- MODULE PlanSM3 -------------------------------
(***************************************************************************)
(* E2 plan for C01: message blocks SOLVED for so that round 0 of their      *)
(* compression feeds a special word -- 0, 2^i, 2^i - 1, 2^i + 1 -- into P0   *)
(* (TT2), into register A (TT1) or into P1 (the argument of the first        *)
(* expanded word W_16).  Round 0 is linear in W_0 (and W_4): TT2 = c + W_0,  *)
(* TT1 = c' + (W_0 xor W_4), P1-argument = W_0 xor W_7 xor (W_13 <<< 15).    *)
(* A fast path for "short" or "sparse" words inside a permutation, wrong for *)
(* one value, is invisible to random messages (2^-32 per round).             *)
(* kind = 1: first block of a 64-byte message; kind = 2: second block of a   *)
(* 128-byte message (chaining value after a fixed first block).              *)
(***************************************************************************)
EXTENDS SM3, Sequences, Naturals, Json, TLC
CONSTANT Stride                                   \* 1 = every special value
PowW(i) == IF i < 16 THEN <<0, 2^i>> ELSE <<2^(i - 16), 0>>
Values == << <<0,0>>, <<65535,65535>> >> \o [i \in 1..32 |-> PowW(i - 1)] \o [i \in 1..32 |-> WSub(PowW(i - 1), <<0,1>>)] \o [i \in 1..32 |-> WAdd(PowW(i - 1), <<0,1>>)]
\* filler words (any fixed words do): derived from the index
Fill(q, j) == << (q * 2654 + j * 40503 + 12345) % 65536, (q * 7919 + j * 104729 + 54321) % 65536 >>
Base(q) == [j \in 1..16 |-> Fill(q, j)]
Block1 == [j \in 1..64 |-> (j * 37 + 11) % 256]
V1 == CF(IV, Block1, 0)
BytesOf(w) == WBytes(w[1]) \o WBytes(w[2]) \o WBytes(w[3]) \o WBytes(w[4]) \o WBytes(w[5]) \o WBytes(w[6]) \o WBytes(w[7]) \o WBytes(w[8])
              \o WBytes(w[9]) \o WBytes(w[10]) \o WBytes(w[11]) \o WBytes(w[12]) \o WBytes(w[13]) \o WBytes(w[14]) \o WBytes(w[15]) \o WBytes(w[16])
\* the three solutions for target value x, filler q, chaining value v
ForTT2(v, q, x) == [Base(q) EXCEPT ![1] = WSub(x, TT2C(v))]
ForTT1(v, q, x) == [Base(q) EXCEPT ![5] = WXor(Base(q)[1], WSub(x, TT1C(v)))]
ForP1(v, q, x) == [Base(q) EXCEPT ![1] = WXor3(x, Base(q)[8], WRotl(Base(q)[14], 15))]
\* both boolean functions zero at the start of round 1: W_0 from TT2 = P0^-1(E xor (F <<< 19)), then W_4 from TT1 = A xor (B <<< 9)
ForBothZero(v, q) == [[Base(q) EXCEPT ![1] = WSub(P0Inv(WXor(v[5], WRotl(v[6], 19))), TT2C(v))]
                         EXCEPT ![5] = WXor(WSub(P0Inv(WXor(v[5], WRotl(v[6], 19))), TT2C(v)), WSub(WXor(v[1], WRotl(v[2], 9)), TT1C(v)))]
ASSUME \A q \in 1..3 : Round1BothZero(IV, ForBothZero(IV, q)) /\ Round1BothZero(V1, ForBothZero(V1, q))
\* SS1 of round 1 wraps: choose E' (= P0(TT2), through W_0) freely and A' (= TT1, through W_4) so that (A' <<< 12) = -(E' + (T_1 <<< 1)); E' values with the
\* top bit set and clear give the one-carry and the two-carry case
WNeg(x) == WAdd(WNot(x), <<0,1>>)
ForSS1(v, q, e1) == [[Base(q) EXCEPT ![1] = WSub(P0Inv(e1), TT2C(v))]
                        EXCEPT ![5] = WXor(WSub(P0Inv(e1), TT2C(v)), WSub(WRotl(WNeg(WAdd(e1, WRotl(T(1), 1))), 20), TT1C(v)))]
SS1Es == << <<\h1234,\h5678>>, <<\hfedc,\hba98>>, <<\h8000,0>>, <<\h7fff,\hffff>> >>
ASSUME \A q \in 1..Len(SS1Es) : Round1SS1Wraps(IV, ForSS1(IV, q, SS1Es[q])) /\ Round1SS1Wraps(V1, ForSS1(V1, q, SS1Es[q]))
Sol(which, v, q, x) == IF which = 1 THEN ForTT2(v, q, x) ELSE IF which = 2 THEN ForTT1(v, q, x) ELSE ForP1(v, q, x)
Msg(kind, which, q) == IF kind = 1 THEN BytesOf(Sol(which, IV, q, Values[q])) ELSE Block1 \o BytesOf(Sol(which, V1, q, Values[q]))
\* self-check: every emitted message is of the class the trace specification will assign
ASSUME \A q \in {1, 2, 3, 34, 35, 66, 67, 98} : \A which \in 1..3 : CraftedValue(Msg(1, which, q)) /\ CraftedValue(Msg(2, which, q))
VARIABLES pq, pdone
Init == pq = 0 /\ pdone = FALSE
Next == ~pdone /\ pq' = pq + 1 /\ pdone' = (pq + 1 >= Len(Values))
\* quick (Stride > 1): every special value for the first-block forms, a stride of them for the second-block forms
Picked(q, kind) == Stride = 1 \/ kind = 1 \/ q % Stride = 1 \/ q <= 2
EmitZ == pq \in 1..3 => PrintT(<<"PLAN", ToJson([kind |-> 1, which |-> 4, msg |-> BytesOf(ForBothZero(IV, pq))])>>)
                        /\ PrintT(<<"PLAN", ToJson([kind |-> 2, which |-> 4, msg |-> Block1 \o BytesOf(ForBothZero(V1, pq))])>>)
EmitS == pq \in 1..Len(SS1Es) => PrintT(<<"PLAN", ToJson([kind |-> 1, which |-> 5, msg |-> BytesOf(ForSS1(IV, pq, SS1Es[pq]))])>>)
                                 /\ PrintT(<<"PLAN", ToJson([kind |-> 2, which |-> 5, msg |-> Block1 \o BytesOf(ForSS1(V1, pq, SS1Es[pq]))])>>)
Emit == pq >= 1 => \A which \in 1..3 : \A kind \in 1..2 : Picked(pq, kind) =>
            PrintT(<<"PLAN", ToJson([kind |-> kind, which |-> which, msg |-> Msg(kind, which, pq)])>>)
=============================================================================
