CONSTANT NK = 12
INIT Init
NEXT Next
INVARIANT Emit
CHECK_DEADLOCK FALSE
