INIT Init
NEXT Next
INVARIANT AllRight
INVARIANT Seen
CHECK_DEADLOCK FALSE
