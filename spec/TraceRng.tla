----------------------------- MODULE TraceRng -----------------------------
(***************************************************************************)
(* Trace specification for C14: the sampler events recorded by the          *)
(* gm_rs_verif RNG hooks of gm-sm2 and gm-sm9, bracketed per operation.      *)
(* One sequential session; the specification state accumulates              *)
(*   acc  every scalar accepted from the real generator (for NoReuse),       *)
(*   cnt  256 per-bit counters (bias test), m the number of scalars.         *)
(* Per operation: exactly one accepted draw, it is the last one, every       *)
(* accepted candidate lies in [1, order-1] (Accept is enabled only there),   *)
(* and the scalar the operation USED (recovered by the specification from    *)
(* the signature, or compared through [k]G) is that accepted draw.           *)
(***************************************************************************)
EXTENDS SM2, Json, IOUtils, FiniteSets
SM9N == BFromBE(<<\hB6,\h40,\h00,\h00,\h02,\hA3,\hA6,\hF1,\hD6,\h03,\hAB,\h4F,\hF5,\h8E,\hC7,\h44,\h49,\hF2,\h93,\h4B,\h18,\hEA,\h8B,\hEE,\hE5,\h6E,\hE1,\h9C,\hD6,\h9E,\hCF,\h25>>)
Events == ndJsonDeserialize(IOEnv.TRACE)
N == Len(Events)
VARIABLES tpos, tst, tlast
\* per (library, operation) bit counters: a sampler that is biased for ONE operation only (a re-draw loop in one call site) is invisible in the pooled counts
KindSet == {"sm2.keygen", "sm2.sign", "sm2.encrypt", "sm2.kx1", "sm2.kx2", "sm9.keygen-sign", "sm9.keygen-sign2", "sm9.keygen-enc", "sm9.keygen-enc2",
            "sm9.sign", "sm9.encrypt", "sm9.kx1a", "sm9.kx1b"}
KindOf(e) == e.lib \o "." \o e.kind
St0 == [acc |-> <<>>, cnt |-> [j \in 1..256 |-> 0], m |-> 0, kc |-> [kd \in KindSet |-> [j \in 1..256 |-> 0]], km |-> [kd \in KindSet |-> 0]]
Verdict(e, ok, class, kind) == <<e.id, IF ok THEN "ok" ELSE "dev", e.prop, class, IF ok THEN "-" ELSE kind>>
S9 == INSTANCE SM9                                  \* the SM9 specification (namespaced: it has its own N, P, G ...)
OrderOf(e) == IF e.lib = "sm2" THEN NN ELSE SM9N
InRange(c, ord) == c # BZero /\ BLt(c, ord)
Accepted(e) == SelectSeq(e.draws, LAMBDA dr : dr.a = 1)
\* structure: the last draw is the accepted one and no earlier one is
\* (an operation flagged e.retry = 1 is one whose FIRST accepted scalar the standard discards -- K1 all zero -- and which must therefore draw
\*  afresh: it has exactly two accepted draws, the last draw being the second of them)
NAccepted(e) == Len(SelectSeq(e.draws, LAMBDA dr : dr.a = 1))
IsRetry(e) == "retry" \in DOMAIN e /\ e.retry = 1
OneAccept(e) == IF IsRetry(e) THEN Len(e.draws) >= 2 /\ e.draws[Len(e.draws)].a = 1 /\ NAccepted(e) = 2
                ELSE Len(e.draws) >= 1 /\ e.draws[Len(e.draws)].a = 1 /\ \A j \in 1..(Len(e.draws) - 1) : e.draws[j].a = 0
AllAcceptedInRange(e) == \A j \in 1..Len(e.draws) : e.draws[j].a = 1 => InRange(BFromBE(e.draws[j].c), OrderOf(e))
\* the scalar the operation used = the accepted draw
UsedOK(e, k) == IF e.chk = "sig" THEN NonceOf(BFromBE(e.d), BFromBE(SubSeq(e.sig, 1, 32)), BFromBE(SubSeq(e.sig, 33, 64))) = k
                ELSE IF e.chk = "pt" THEN EncodePoint(MulN(k, G), FALSE) = e.pt
                \* SM9: master public key [k]P1; C1 / R_A / R_B = [k]([H1(ID || hid)]P1 + Ppub-e); signature S = [(k - h) mod N] ds
                ELSE IF e.chk = "g1pub" THEN e.pt = <<4>> \o S9!PtBytes(S9!G1Mul(S9!B32(k), S9!GenG1))
                \* SM9 signing master public key [k]P2 (stored Jacobian form x, y, z over Fp2, compared after division by z)
                ELSE IF e.chk = "g2pub" THEN S9!F2FromBytes(e.q.z) # S9!F2Zero
                                             /\ LET zi == S9!F2Inv(S9!F2FromBytes(e.q.z)) IN
                                                  << S9!F2Mul(S9!F2FromBytes(e.q.x), S9!F2Mul(zi, zi)), S9!F2Mul(S9!F2FromBytes(e.q.y), S9!F2Mul(zi, S9!F2Mul(zi, zi))) >> = S9!G2Mul(S9!B32(k), S9!GenG2)
                ELSE IF e.chk = "c1" THEN e.pt = <<4>> \o S9!PtBytes(S9!G1Mul(S9!B32(k), S9!QB(S9!PpubE(BFromBE(e.ke)), e.idb, e.hid)))
                ELSE IF e.chk = "s9sig" THEN LET ds == S9!ExtractSign(BFromBE(e.ks), e.idb) IN
                                             ds[1] = "ok" /\ e.pt = <<4>> \o S9!PtBytes(S9!G1Mul(S9!B32(BSubMod(k, BFromBE(e.h), SM9N)), ds[2]))
                ELSE TRUE
BitOfBytes(c, j) == (c[((j - 1) \div 8) + 1] \div (2^(7 - ((j - 1) % 8)))) % 2
AddBits(cnt, c) == [j \in 1..256 |-> cnt[j] + BitOfBytes(c, j)]
OpKind(e, k) == IF e.outcome # "ok" THEN "operation-" \o e.outcome ELSE IF ~OneAccept(e) THEN "draw-structure" ELSE IF ~AllAcceptedInRange(e) THEN "accepted-out-of-range" ELSE "used-differs-from-drawn"
OpClass(e) == e.lib \o "." \o e.kind \o (IF IsRetry(e) THEN ".retry" ELSE IF e.scripted = 1 THEN ".injected" ELSE "")
Op2(e, k) == /\ tlast' = Verdict(e, e.outcome = "ok" /\ OneAccept(e) /\ AllAcceptedInRange(e) /\ UsedOK(e, BFromBE(k)), OpClass(e), OpKind(e, k))
             /\ tst' = IF e.scripted = 1 \/ e.outcome # "ok" \/ ~OneAccept(e) THEN tst
                       ELSE [acc |-> Append(tst.acc, k), cnt |-> TLCEval(AddBits(tst.cnt, k)), m |-> tst.m + 1,
                             kc |-> IF KindOf(e) \in KindSet THEN [tst.kc EXCEPT ![KindOf(e)] = TLCEval(AddBits(tst.kc[KindOf(e)], k))] ELSE tst.kc,
                             km |-> IF KindOf(e) \in KindSet THEN [tst.km EXCEPT ![KindOf(e)] = @ + 1] ELSE tst.km]
Op1(e) == Op2(e, IF Len(e.draws) >= 1 THEN e.draws[Len(e.draws)].c ELSE <<>>)
\* summary: no scalar repeats (across operations and across the two driver processes); every bit unbiased within 8 sigma
NoRepeat == Cardinality({tst.acc[j] : j \in 1..Len(tst.acc)}) = Len(tst.acc)
Sq(x) == x * x
Dev(c, m) == IF 2 * c >= m THEN 2 * c - m ELSE m - 2 * c
Unbiased == \A j \in 1..256 : Dev(tst.cnt[j], tst.m) <= 46340 /\ Sq(Dev(tst.cnt[j], tst.m)) <= 64 * tst.m
\* exact per-bit test for ONE operation kind: a uniform scalar on [1, ord-1] has bit b set with probability A/D, D = ord - 1 and
\* 2A = (ord - lo) + 2 max(0, lo - 2^b), lo = ord mod 2^(b+1)  (division-free).  Accept iff |c - m A/D| <= 8 sqrt(m (A/D)(1 - A/D)), i.e.
\* (c D2 - m A2)^2 <= 64 m A2 (D2 - A2) with A2 = 2A, D2 = 2D -- evaluated in BigNat arithmetic.
Pow2B(k) == BFromBE(<<2^(k % 8)>> \o [q \in 1..(k \div 8) |-> 0])
IntB(n) == BFromBE(<<n \div 16777216, (n \div 65536) % 256, (n \div 256) % 256, n % 256>>)
TwoA2(ord, b, lo) == BAdd(BSub(ord, lo), IF BLt(Pow2B(b), lo) THEN BMul(<<2>>, BSub(lo, Pow2B(b))) ELSE BZero)
TwoA(ord, b) == TwoA2(ord, b, BMod(ord, Pow2B(b + 1)))
AbsDiff(x, y) == IF BGeq(x, y) THEN BSub(x, y) ELSE BSub(y, x)
BitOK3(c, m, a2, d2) == BGeq(BMul(BMul(<<64>>, IntB(m)), BMul(a2, BSub(d2, a2))), BMul(AbsDiff(BMul(IntB(c), d2), BMul(IntB(m), a2)), AbsDiff(BMul(IntB(c), d2), BMul(IntB(m), a2))))
BitOK(c, m, ord, b) == BitOK3(c, m, TwoA(ord, b), BMul(<<2>>, BSub(ord, <<1>>)))
OrdOfKind(kd) == IF kd \in {"sm2.keygen", "sm2.sign", "sm2.encrypt", "sm2.kx1", "sm2.kx2"} THEN NN ELSE SM9N
KindUnbiased(kd) == tst.km[kd] >= 40 => \A j \in 1..256 : BitOK(tst.kc[kd][j], tst.km[kd], OrdOfKind(kd), 256 - j)
PerKindUnbiased == \A kd \in KindSet : KindUnbiased(kd)
ASSUME BitOK(15, 50, SM9N, 255) /\ ~BitOK(48, 48, SM9N, 255) /\ BitOK(70, 140, NN, 255) /\ ~BitOK(140, 140, NN, 0) /\ BitOK(30, 48, SM9N, 100)
Sum1(e) == /\ tst' = tst
           /\ tlast' = Verdict(e, tst.m = e.count /\ NoRepeat /\ (tst.m >= 500 => Unbiased) /\ PerKindUnbiased, "summary",
                               IF tst.m # e.count THEN "lost-events" ELSE IF ~NoRepeat THEN "scalar-repeated" ELSE IF ~PerKindUnbiased THEN "bit-bias-one-operation" ELSE "bit-bias")
Step(e) == IF e.op = "rng.op" THEN Op1(e)
           ELSE IF e.op = "rng.summary" THEN Sum1(e)
           ELSE tst' = tst /\ tlast' = <<e.id, "dev", e.prop, "unknown-op", e.op>>
TInit == tpos = 1 /\ tst = St0 /\ tlast = <<>>
TNext == tpos <= N /\ tpos' = tpos + 1 /\ Step(Events[tpos])
Report == tlast # <<>> => PrintT(<<"V", ToJson(tlast)>>)
\* the accumulated history is not part of the verdict stream: hide it from fingerprints
View == <<tpos, tlast>>
=============================================================================
