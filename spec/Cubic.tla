------------------------------- MODULE Cubic -------------------------------
(***************************************************************************)
(* Roots of a depressed cubic  f(x) = x^3 + A x + c  over the prime field   *)
(* F_P, for P = 3 (mod 4) -- used by the plan generators to SOLVE for curve  *)
(* points with a prescribed y (y^2 = u  =>  x^3 + A x + (B - u) = 0), e.g.   *)
(* points whose y^2 sits on a reduction boundary of the word arithmetic.    *)
(*                                                                           *)
(* Method: h = x^P mod f (square and multiply in F_P[x]/(f)); the roots of  *)
(* f in F_P are the roots of gcd(f, h - x).  f has 0, 1 or 3 roots (a double *)
(* root needs a vanishing discriminant):                                     *)
(*   deg(h - x) = 2: with g its monic form, r = f mod g is linear or zero;   *)
(*        r = 0   ->  g | f, two roots from the quadratic formula;           *)
(*        r # 0   ->  the only candidate is the root of r (checked in f);    *)
(*   deg(h - x) = 1: the only candidate is its root (checked in f);          *)
(*   h = x         : f splits completely -- not resolved here ("split").     *)
(* Every answer <<"ok", x>> is self-checking: f(x) = 0 is re-evaluated.      *)
(***************************************************************************)
EXTENDS BigNat, Naturals, Sequences
CONSTANTS CP, CA, CSqrtExp                   \* modulus, coefficient A, (P+1)/4
LOCAL M(x, y) == BMulMod(x, y, CP)
LOCAL Ad(x, y) == BAddMod(x, y, CP)
LOCAL Sb(x, y) == BSubMod(x, y, CP)
LOCAL Inv(x) == BPowMod(x, BSub(CP, <<2>>), CP)
LOCAL Neg(x) == Sb(BZero, x)
F(x, c) == Ad(Ad(M(M(x, x), x), M(CA, x)), c)
\* product of two residues <<g0, g1, g2>> modulo x^3 + A x + c:  x^3 = -A x - c,  x^4 = -A x^2 - c x
PMul5(g, h, c, d0, d1, d2, d3, d4) == << Sb(d0, M(c, d3)), Sb(Sb(d1, M(CA, d3)), M(c, d4)), Sb(d2, M(CA, d4)) >>
PMul(g, h, c) == PMul5(g, h, c, M(g[1], h[1]), Ad(M(g[1], h[2]), M(g[2], h[1])), Ad(Ad(M(g[1], h[3]), M(g[2], h[2])), M(g[3], h[1])),
                       Ad(M(g[2], h[3]), M(g[3], h[2])), M(g[3], h[3]))
PX == << BZero, <<1>>, BZero >>
\* x^e mod f, bits of e from the top (acc is looked at on every level, which forces it: see EEA3.tla)
RECURSIVE PPowR(_, _, _, _)
PPowR(acc, e, b, c) == IF acc[1] = acc[1] /\ b < 0 THEN acc
                       ELSE PPowR(IF BBit(e, b) = 1 THEN PMul(PMul(acc, acc, c), PX, c) ELSE PMul(acc, acc, c), e, b - 1, c)
XPowP(c) == PPowR(<< <<1>>, BZero, BZero >>, CP, BBitLen(CP) - 1, c)
Checked(x, c) == IF F(x, c) = BZero THEN <<"ok", x>> ELSE <<"none">>
\* square root for P = 3 (mod 4)
SqrtC(v) == IF M(BPowMod(v, CSqrtExp, CP), BPowMod(v, CSqrtExp, CP)) = BMod(v, CP) THEN <<"ok", BPowMod(v, CSqrtExp, CP)>> ELSE <<"none">>
Half(v) == M(v, Inv(<<2>>))
\* g = x^2 + p1 x + p0 (monic):  f = (x - p1) g + r,  r = (A - p0 + p1^2) x + (c + p1 p0)
QuadCase3(p1, p0, c, sq) == IF sq[1] = "none" THEN <<"none">> ELSE Checked(Half(Sb(sq[2], p1)), c)
QuadCase2(p1, p0, c, r1, r0) == IF r1 = BZero /\ r0 = BZero THEN QuadCase3(p1, p0, c, SqrtC(Sb(M(p1, p1), M(<<4>>, p0))))
                                ELSE IF r1 = BZero THEN <<"none">> ELSE Checked(Neg(M(r0, Inv(r1))), c)
QuadCase(p1, p0, c) == QuadCase2(p1, p0, c, Ad(Sb(CA, p0), M(p1, p1)), Ad(c, M(p1, p0)))
Root2(g, c) == IF g[3] # BZero THEN QuadCase(M(g[2], Inv(g[3])), M(g[1], Inv(g[3])), c)
               ELSE IF g[2] # BZero THEN Checked(Neg(M(g[1], Inv(g[2]))), c)
               ELSE IF g[1] = BZero THEN <<"split">> ELSE <<"none">>
Root1(h, c) == Root2(<< h[1], Sb(h[2], <<1>>), h[3] >>, c)
\* one root of x^3 + A x + c in F_P:  <<"ok", x>> | <<"none">> | <<"split">>
CubicRoot(c) == Root1(XPowP(BMod(c, CP)), BMod(c, CP))
=============================================================================
