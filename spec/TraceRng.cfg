INIT TInit
NEXT TNext
INVARIANT Report
VIEW View
CHECK_DEADLOCK FALSE
