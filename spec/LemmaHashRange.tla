-------------------------- MODULE LemmaHashRange --------------------------
(***************************************************************************)
(* E5 for C16: gm-sm9 mod_n_from_hash on ALL 2^320 inputs Ha = z1*2^192+zl. *)
(* The code estimates the quotient by qh = floor(z1 * MU / 2^320) with the   *)
(* 257-bit constant MU = 2^256 + SM9_U256_N_MINUS_ONE_BARRETT_MU, computes   *)
(* d = Ha - qh*(N-1) and (after the repair) subtracts N-1 while d >= N-1.    *)
(* Division-free statement: with Ha = q*(N-1) + rem (0 <= rem <= N-2) and    *)
(* z1*MU = qh*2^320 + r1:                                                    *)
(*   Bound:  qh <= q <= qh + 1                                               *)
(*   Exact:  (IF d >= N-1 THEN d - (N-1) ELSE d) = rem  and  rem + 1 < N     *)
(*   Pinned (negative control, must be REFUTED): the pinned commit's         *)
(*           "d, then +1 mod N" equals rem + 1                               *)
(***************************************************************************)
EXTENDS Integers
N == 82434016654578246444830763105245969129316048019845143771873730126023764135717
MU == 162648970341031538578495472666640046822974850130444514635749109174481415928881
VARIABLES
  \* @type: Int;
  z1,
  \* @type: Int;
  zl,
  \* @type: Int;
  qh,
  \* @type: Int;
  r1,
  \* @type: Int;
  q,
  \* @type: Int;
  rem
Init == /\ z1 \in 0..(2^128 - 1) /\ zl \in 0..(2^192 - 1)
        /\ qh \in 0..(2^66) /\ r1 \in 0..(2^320 - 1)
        /\ q \in 0..(2^66) /\ rem \in 0..(N - 2)
        /\ z1 * MU = qh * (2^320) + r1
        /\ z1 * (2^192) + zl = q * (N-1) + rem
Next == UNCHANGED <<z1,zl,qh,r1,q,rem>>
Bound == qh <= q /\ q <= qh + 1
D == (z1 * (2^192) + zl) - qh * (N-1)
Exact == (IF D >= N-1 THEN D - (N-1) ELSE D) = rem /\ rem + 1 < N
Pinned == (IF D + 1 >= N THEN D + 1 - N ELSE D + 1) = rem + 1
=============================================================================
