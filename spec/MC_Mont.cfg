CONSTANTS K = 7
INIT Init
NEXT Next
INVARIANTS MulOk AddOk SubOk
CHECK_DEADLOCK FALSE
