----------------------------- MODULE PlanSM2Enc -----------------------------
(***************************************************************************)
(* E2 plan for C05/C06: the SPECIFICATION acts as an independent encryptor  *)
(* and as an attacker.  For NK deterministic (d, k, message) triples:        *)
(*   specct    spec-made ciphertexts in the 2 orders x 2 encodings -> the    *)
(*             library must decrypt them to the message;                     *)
(*   crafted ciphertexts whose C3 is VALID for the point the library would   *)
(*   compute, so that only the C1 validation can reject them:                *)
(*     x+p, y+p   C1 = a genuine curve point with small x (or y) presented   *)
(*                with the coordinate increased by p (still < 2^256)         *)
(*     offcurve   C1 not on the curve (it lies on y^2 = x^3 + ax + b'), the  *)
(*                shared point computed with the same chord-tangent formulas *)
(*     nonresidue compressed C1 whose x has no square root                   *)
(*     infinity-ish / hybrid prefixes are produced by the driver's bit flips *)
(***************************************************************************)
EXTENDS SM2, Json
CONSTANT NK
VARIABLES pidx, pout
Seed(j, tag) == Hash(<<j, tag, 69, 78, 67>>)
Dof(j) == BAdd(BMod(BFromBE(Seed(j, 1)), BSub(NN, <<2>>)), <<1>>)
Kof(j) == BAdd(BMod(BFromBE(Seed(j, 2)), BSub(NN, <<1>>)), <<1>>)
Msg(j) == SubSeq(Seed(j, 4) \o Seed(j, 5) \o Seed(j, 6), 1, 1 + ((j * 13) % 80))
Orders == <<"c1c2c3", "c1c3c2">>
SpecCt2(j, d, pt, order, comp, r) == [kind |-> "specct", d |-> B32(d), pk |-> EncodePoint(pt, FALSE), msg |-> Msg(j), order |-> order,
                                      compressed |-> IF comp THEN 1 ELSE 0, ct |-> IF r[1] = "ok" THEN r[2] ELSE <<>>, ok |-> r[1]]
SpecCt(j, order, comp) == SpecCt2(j, Dof(j), MulN(Dof(j), G), order, comp, Encrypt(MulN(Dof(j), G), Kof(j), Msg(j), order, comp))
\* a ciphertext for an arbitrary affine "point" q (possibly off the curve): shared = [d]q by the chord-tangent formulas
Body(msg, sp, order, c1b) == Assemble(c1b, XorS(msg, KDF(B32(sp[1]) \o B32(sp[2]), Len(msg))), Hash(B32(sp[1]) \o msg \o B32(sp[2])), order)
Craft(j, tag, d, q, c1b, order) == [kind |-> "craft", fault |-> tag, d |-> B32(d), order |-> order, compressed |-> 0, msg |-> Msg(j),
                                    ct |-> Body(Msg(j), MulN(d, q), order, c1b)]
\* genuine curve points with tiny abscissa: x = 0, 1, 2, ... (first NK that are residues)
RECURSIVE SmallPts(_, _, _)
SmallPts(x, need, acc) == IF need = 0 \/ x > 200 THEN acc
                          ELSE SmallPts(x + 1, IF C!Lift(<<x>>, 0)[1] = "ok" /\ x > 0 THEN need - 1 ELSE need,
                                        IF C!Lift(<<x>>, 0)[1] = "ok" /\ x > 0 THEN Append(acc, C!Lift(<<x>>, 0)[2]) ELSE acc)
RECURSIVE NonRes(_, _, _)
NonRes(x, need, acc) == IF need = 0 \/ x > 200 THEN acc
                        ELSE NonRes(x + 1, IF C!Lift(<<x>>, 0)[1] = "none" THEN need - 1 ELSE need, IF C!Lift(<<x>>, 0)[1] = "none" THEN Append(acc, x) ELSE acc)
Small == SmallPts(1, NK, <<>>)
NonR == NonRes(1, NK, <<>>)
XPlusP(j, q) == << Craft(j, "x+p", Dof(j), q, <<4>> \o B32(BAdd(q[1], PP)) \o B32(q[2]), Orders[(j % 2) + 1]),
                   Craft(j, "valid-small-x", Dof(j), q, <<4>> \o B32(q[1]) \o B32(q[2]), Orders[(j % 2) + 1]) >>
\* y+p needs y < 2^256 - p: not available for tiny-x points in general -> only produced when it fits
YPlusP(j, q) == IF BLt(BAdd(q[2], PP), <<1>> \o [z \in 1..32 |-> 0]) THEN << Craft(j, "y+p", Dof(j), q, <<4>> \o B32(q[1]) \o B32(BAdd(q[2], PP)), "c1c3c2") >> ELSE <<>>
OffPt(j) == << BMod(BFromBE(Seed(j, 9)), PP), BMod(BFromBE(Seed(j, 10)), PP) >>
OffCurve(j) == IF C!OnCurve(OffPt(j)) THEN <<>> ELSE << Craft(j, "offcurve", Dof(j), OffPt(j), <<4>> \o B32(OffPt(j)[1]) \o B32(OffPt(j)[2]), Orders[(j % 2) + 1]) >>
NonResCt(j) == << [kind |-> "craft", fault |-> "nonresidue", d |-> B32(Dof(j)), order |-> "c1c3c2", compressed |-> 1, msg |-> Msg(j),
                   ct |-> <<2 + (j % 2)>> \o B32(<<NonR[j]>>) \o Seed(j, 11) \o Msg(j)] >>
\* compressed encodings of the same small points with x + p (still < 2^256): 02/03 || (x + p) -- only the range test of the COMPRESSED decoder rejects it
CraftC(j, tag, d, q, c1b, order) == [kind |-> "craft", fault |-> tag, d |-> B32(d), order |-> order, compressed |-> 1, msg |-> Msg(j),
                                     ct |-> Body(Msg(j), MulN(d, q), order, c1b)]
YBit(q) == IF q[2] = BZero THEN 0 ELSE q[2][Len(q[2])] % 2
XPlusPC(j, q) == << CraftC(j, "comp-x+p", Dof(j), q, <<2 + YBit(q)>> \o B32(BAdd(q[1], PP)), Orders[(j % 2) + 1]),
                    CraftC(j, "comp-valid-small-x", Dof(j), q, <<2 + YBit(q)>> \o B32(q[1]), Orders[(j % 2) + 1]) >>
\* x = p exactly (reduces to x = 0): (0, sqrt(b)) is a curve point iff b is a square; presented as (p, y) uncompressed and 02/03 || p compressed
ZeroXPt == C!Lift(BZero, 0)
XEqP(j) == IF j > 1 \/ ZeroXPt[1] # "ok" THEN <<>>
           ELSE << Craft(j, "x=p", Dof(j), ZeroXPt[2], <<4>> \o B32(PP) \o B32(ZeroXPt[2][2]), "c1c3c2"),
                   CraftC(j, "comp-x=p", Dof(j), ZeroXPt[2], <<2 + YBit(ZeroXPt[2])>> \o B32(PP), "c1c3c2"),
                   Craft(j, "x=0-valid", Dof(j), ZeroXPt[2], <<4>> \o B32(BZero) \o B32(ZeroXPt[2][2]), "c1c3c2") >>
\* VALID points for which an intermediate of the curve test sits on a reduction boundary of the word arithmetic:
\*   "x2"    the Montgomery form of x^2 is small (< 2^224): the unreduced Montgomery product landed in [p, 2^256)
\*   "x2+a"  the stored sum x^2 + a lies in [p, 2^256) before its conditional subtraction
\* x is the square root of the chosen value (when it has one), y the square root of x^3 + ax + b (when it has one); both are genuine curve points
\* and their ciphertexts -- built with the private key -- must decrypt.
RM == BMod(BFromBE(<<1>> \o [q \in 1..32 |-> 0]), PP)                    \* 2^256 mod p
RMInv == BPowMod(RM, BSub(PP, <<2>>), PP)
PtFromX2(x2) == IF C!Sqrt(x2)[1] = "none" THEN <<"none">> ELSE C!Lift(C!Sqrt(x2)[2], 0)
RECURSIVE FindPt(_, _, _)
\* first stored value base + i (i < 60) whose represented x^2 gives a curve point
FindPt(base, i, lim) == IF i > lim THEN <<"none">> ELSE IF PtFromX2(BMulMod(BAddMod(base, <<i>>, PP), RMInv, PP))[1] = "ok" THEN PtFromX2(BMulMod(BAddMod(base, <<i>>, PP), RMInv, PP)) ELSE FindPt(base, i + 1, lim)
WinBases == << <<1>>, BFromBE(<<1>> \o [q \in 1..25 |-> 0]),
               BSubMod(<<3>>, BMulMod(AA, RM, PP), PP), BSubMod(BSub(BFromBE(<<1>> \o [q \in 1..32 |-> 0]), BAdd(PP, <<40>>)), BMulMod(AA, RM, PP), PP) >>
WinTags == << "valid-window-x2", "valid-window-x2", "valid-window-x2+a", "valid-window-x2+a" >>
WinCase(j, q) == IF FindPt(WinBases[q], 0, 60)[1] # "ok" THEN <<>>
                 ELSE << Craft(j, WinTags[q], Dof(j), FindPt(WinBases[q], 0, 60)[2], EncodePoint(FindPt(WinBases[q], 0, 60)[2], FALSE), "c1c3c2") >>
\*   "y2"    the Montgomery form of y^2 (= of x^3 + ax + b) is small or just below 2^256 - p: here y is the square root of the CHOSEN value and
\*           x is SOLVED for -- a root of the cubic x^3 + ax + (b - y^2) (Cubic.tla; checked exhaustively on toy fields by MC_Cubic)
Cu == INSTANCE Cubic WITH CP <- PP, CA <- AA, CSqrtExp <- BFromBE(SqrtExpBytes)
PtFromY2b(u, sq, rt) == IF sq[1] = "none" \/ rt[1] # "ok" THEN <<"none">> ELSE <<"ok", <<rt[2], sq[2]>> >>
PtFromY2(u) == PtFromY2b(u, C!Sqrt(u), Cu!CubicRoot(BSubMod(BB, u, PP)))
RECURSIVE FindPtY(_, _, _)
FindPtY(base, i, lim) == IF i > lim THEN <<"none">> ELSE IF PtFromY2(BMulMod(BAddMod(base, <<i>>, PP), RMInv, PP))[1] = "ok" THEN PtFromY2(BMulMod(BAddMod(base, <<i>>, PP), RMInv, PP)) ELSE FindPtY(base, i + 1, lim)
WinBasesY == << <<1>>, BFromBE(<<1>> \o [q \in 1..25 |-> 0]), BSub(BFromBE(<<1>> \o [q \in 1..32 |-> 0]), BAdd(PP, <<40>>)) >>
WinPtY(q) == FindPtY(WinBasesY[q], 0, 40)
ASSUME \A q \in 1..Len(WinBasesY) : WinPtY(q)[1] = "ok" => C!OnCurve(WinPtY(q)[2]) /\ BLt(BMulMod(BMulMod(WinPtY(q)[2][2], WinPtY(q)[2][2], PP), RM, PP), BSub(BFromBE(<<1>> \o [z \in 1..32 |-> 0]), PP))
WinCaseY(j, q) == IF WinPtY(q)[1] # "ok" THEN <<>>
                  ELSE << Craft(j, "valid-window-y2", Dof(j), WinPtY(q)[2], EncodePoint(WinPtY(q)[2], FALSE), "c1c3c2"),
                          CraftC(j, "comp-valid-window-y2", Dof(j), WinPtY(q)[2], EncodePoint(WinPtY(q)[2], TRUE), "c1c3c2") >>
\*   "sparse-mont-x"  the stored (Montgomery) form of x has its two low 64-bit words zero: x = (k 2^128) R^-1 -- the low half of the product x * x vanishes
Two128 == <<1>> \o [q \in 1..16 |-> 0]
RECURSIVE FindPtSX(_, _, _)
FindPtSX(k, i, lim) == IF i > lim THEN <<"none">> ELSE IF C!Lift(BMulMod(BMul(BAdd(k, <<i>>), Two128), RMInv, PP), 0)[1] = "ok" THEN C!Lift(BMulMod(BMul(BAdd(k, <<i>>), Two128), RMInv, PP), 0) ELSE FindPtSX(k, i + 1, lim)
SXBases == << <<1>>, <<1>> \o [q \in 1..12 |-> 0] >>
WinCaseSX(j, q) == IF FindPtSX(SXBases[q], 0, 40)[1] # "ok" THEN <<>>
                   ELSE << Craft(j, "valid-sparse-mont-x", Dof(j), FindPtSX(SXBases[q], 0, 40)[2], EncodePoint(FindPtSX(SXBases[q], 0, 40)[2], FALSE), "c1c3c2"),
                           CraftC(j, "comp-valid-sparse-mont-x", Dof(j), FindPtSX(SXBases[q], 0, 40)[2], EncodePoint(FindPtSX(SXBases[q], 0, 40)[2], TRUE), "c1c3c2") >>
WinCases(j) == IF j > 1 THEN <<>> ELSE WinCaseSX(j, 1) \o WinCaseSX(j, 2) \o WinCase(j, 1) \o WinCase(j, 2) \o WinCase(j, 3) \o WinCase(j, 4) \o WinCaseY(j, 1) \o WinCaseY(j, 2) \o WinCaseY(j, 3)
\* a nonce whose key stream for a ONE-byte message is the zero byte (GB/T 32918.4 step A5: t all zero -> back to A1 with a NEW nonce): 1 in 256; searched among
\* k = 2, 3, ... for the key of index 1.  The driver scripts [that nonce, another one]: the ciphertext must be the one of the second nonce alone.
RECURSIVE FindZeroT(_, _, _)
FindZeroT(pt, k, lim) == IF k > lim THEN <<>> ELSE IF KDF(B32(MulN(<<k \div 256, k % 256>>, pt)[1]) \o B32(MulN(<<k \div 256, k % 256>>, pt)[2]), 1) = <<0>> THEN B32(BFromBE(<<k \div 256, k % 256>>)) ELSE FindZeroT(pt, k + 1, lim)
EncRetryRec(j, kz) == [kind |-> "encretry", d |-> B32(Dof(j)), kbad |-> kz, found |-> IF kz = <<>> THEN 0 ELSE 1]
EncRetry(j) == IF j > 1 THEN <<>> ELSE << EncRetryRec(j, FindZeroT(MulN(Dof(j), G), 2, 2500)) >>
Init == pidx = 0 /\ pout = <<>>
Next == pidx < NK /\ pidx' = pidx + 1 /\
        pout' = << SpecCt(pidx + 1, "c1c2c3", FALSE), SpecCt(pidx + 1, "c1c3c2", FALSE), SpecCt(pidx + 1, "c1c2c3", TRUE), SpecCt(pidx + 1, "c1c3c2", TRUE) >>
                \o XPlusP(pidx + 1, Small[pidx + 1]) \o YPlusP(pidx + 1, Small[pidx + 1]) \o OffCurve(pidx + 1) \o NonResCt(pidx + 1) \o XPlusPC(pidx + 1, Small[pidx + 1]) \o XEqP(pidx + 1) \o WinCases(pidx + 1) \o EncRetry(pidx + 1)
Emit == \A j \in 1..Len(pout) : PrintT(<<"PLAN", ToJson(pout[j])>>)
=============================================================================
