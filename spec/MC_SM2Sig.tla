------------------------------ MODULE MC_SM2Sig ------------------------------
(***************************************************************************)
(* E1 for C03 / C04: SM2 signing and verification on a toy curve            *)
(* y^2 = x^3 - 3x + B over F_P (prime order n, like SM2), digests and       *)
(* signature components ranging over the whole "byte-level" range 0..RR-1   *)
(* (RR a power of two > n, the toy image of 2^256 > n).                      *)
(*  Sign:   for EVERY d in [1,n-2], k in [1,n-1], digest e in 0..RR-1:       *)
(*          SignStd either retries or returns r, s in [1,n-1] that           *)
(*          VerifyStd accepts; the code-shaped signer (s1 = (1+d)^-1,        *)
(*          fn_add on the raw e) agrees with it.                             *)
(*  Verify: for EVERY public key, canonical digest and EVERY pair (r', s')   *)
(*          of the byte-level range (0, n, n+1, ... included):               *)
(*          VerifyImpl (the checks of verify_raw in their order, with the    *)
(*          register-level fn_add) accepts  <=>  Valid (GB/T 32918.2).       *)
(*  Negative configurations (DROP): removing the s-range check, the t = 0    *)
(*  check, the zero check, the final comparison, or the rejection of         *)
(*  [s]G + [t]P = O (as the pinned commit) must each be REFUTED by TLC.       *)
(***************************************************************************)
EXTENDS Integers, FiniteSets, TLC
CONSTANTS P, B, RR, DROP
A == P - 3
F == 0..(P-1)
M(x) == x % P
RECURSIVE PowF(_,_)
PowF(x, e) == IF e = 0 THEN 1 ELSE M(x * PowF(x, e-1))
InvF(x) == PowF(x, P-2)
Inf == <<"inf">>
OnCurve(x, y) == M(y*y) = M(x*x*x + A*x + B)
Pts == { <<x,y>> \in F \X F : OnCurve(x,y) }
AffDbl(p) == IF p = Inf \/ p[2] = 0 THEN Inf ELSE
   LET l == M((3*p[1]*p[1] + A) * InvF(2*p[2]))
       x3 == M(l*l - 2*p[1] + 2*P)
   IN <<x3, M(l*(p[1] - x3 + P) - p[2] + P)>>
AffAdd(p, q) == IF p = Inf THEN q ELSE IF q = Inf THEN p ELSE
   IF p[1] = q[1] THEN (IF p[2] = q[2] THEN AffDbl(p) ELSE Inf) ELSE
   LET l == M((q[2] - p[2] + P) * InvF(q[1] - p[1] + P))
       x3 == M(l*l - p[1] - q[1] + 2*P)
   IN <<x3, M(l*(p[1] - x3 + P) - p[2] + P)>>
RECURSIVE Mul(_,_)
Mul(k, a) == IF k = 0 THEN Inf ELSE AffAdd(a, Mul(k-1, a))
NOrd == Cardinality(Pts) + 1                              \* group order (prime for the chosen curves)
G == CHOOSE g \in Pts : TRUE
ASSUME Mul(NOrd, G) = Inf /\ \A q \in 1..(NOrd-1) : Mul(q, G) # Inf
RECURSIVE PowN(_,_)
PowN(x, e) == IF e = 0 THEN 1 ELSE (x * PowN(x, e-1)) % NOrd
InvN(x) == PowN(x % NOrd, NOrd - 2)
\* register-level modular addition of the code (fn_add) on the byte-level range
ImplAdd(a, b) == LET raw == a + b  r == raw % RR  c == raw >= RR
                 IN IF c THEN (r + (RR - NOrd)) % RR ELSE IF r >= NOrd THEN r - NOrd ELSE r
\* ---- L0: GB/T 32918.2 ----
SignStd(d, k, e) == LET x1 == Mul(k, G)[1]
                        r == (e + x1) % NOrd
                        s == (InvN(1 + d) * (((k - r * d) % NOrd) + NOrd)) % NOrd
                    IN IF r = 0 \/ r + k = NOrd \/ s = 0 THEN <<"retry">> ELSE <<"ok", r, s>>
Valid(pk, e, r, s) == /\ r \in 1..(NOrd-1) /\ s \in 1..(NOrd-1)
                      /\ (r + s) % NOrd # 0
                      /\ LET pt == AffAdd(Mul(s, G), Mul((r + s) % NOrd, pk)) IN pt # Inf /\ (e + pt[1]) % NOrd = r
\* ---- L1: sign_raw / verify_raw as written (order of the checks, fn_add on raw values) ----
SignImpl(d, k, e) == LET x1 == Mul(k, G)[1]
                         r == ImplAdd(e, x1)
                         s == (InvN(1 + d) * (((k - r * d) % NOrd) + NOrd)) % NOrd
                     IN IF r = 0 \/ (r + k) % RR = NOrd \/ s = 0 THEN <<"retry">> ELSE <<"ok", r, s>>
VerifyImpl(pk, e, r, s) ==
   IF (r = 0 \/ s = 0) /\ DROP # "zero" THEN FALSE
   ELSE IF (r >= NOrd \/ (s >= NOrd /\ DROP # "s-range")) THEN FALSE
   ELSE LET t == ImplAdd(s, r) IN
        IF t = 0 /\ DROP # "t-zero" THEN FALSE
        ELSE LET pt == AffAdd(Mul(s % NOrd, G), Mul(t % NOrd, pk))
                 x1 == IF pt = Inf THEN 0 ELSE pt[1]
             IN IF pt = Inf /\ DROP # "inf" THEN FALSE           \* [s]G + [t]P = O has no x-coordinate (the pinned code read x1 = 0: config DROP = "inf")
                ELSE IF DROP = "compare" THEN TRUE ELSE ImplAdd(x1, e) = r
VARIABLES sphase, sd, sk_, se, sr, ss
Init == sphase = "pick" /\ sd = 1 /\ sk_ = 1 /\ se = 0 /\ sr = 0 /\ ss = 0
Next == \/ sphase = "pick" /\ \E d \in 1..(NOrd-2), k \in 1..(NOrd-1), e \in 0..(RR-1) :
              sd' = d /\ sk_' = k /\ se' = e /\ sr' = 0 /\ ss' = 0 /\ sphase' = "sign"
        \/ sphase = "pick" /\ \E d \in 1..(NOrd-2), e \in 0..(NOrd-1), r \in 0..(RR-1), s \in 0..(RR-1) :
              sd' = d /\ sk_' = 1 /\ se' = e /\ sr' = r /\ ss' = s /\ sphase' = "verify"
SignOK2(sg, si) == /\ si = sg
                   /\ (sg[1] = "ok" => sg[2] \in 1..(NOrd-1) /\ sg[3] \in 1..(NOrd-1) /\ Valid(Mul(sd, G), se % NOrd, sg[2], sg[3]))
\* the code's fn_add is exact only for e + x1 < 2n (canonical digests); for raw digests >= n the L1 signer may differ (domain note §9 #15)
\* Domain note (DESIGN section 9 #15): the register-level fn_add is (a+b) mod n only for a + b < 2n.  At real size e + x1 >= 2n needs e >= n
\* and x1 >= n (probability 2^-64); on the toy curve p - n is large, so the exact-domain condition is stated explicitly.
Dom(e, x1) == e + x1 < 2 * NOrd
SignOK == sphase = "sign" /\ Dom(se, Mul(sk_, G)[1]) => SignOK2(SignStd(sd, sk_, se), SignImpl(sd, sk_, se))
VerX1(pk, r, s) == LET pt == AffAdd(Mul(s % NOrd, G), Mul((r + s) % NOrd, pk)) IN IF pt = Inf THEN 0 ELSE pt[1]
VerifyOK == sphase = "verify" /\ Dom(se, VerX1(Mul(sd, G), sr, ss)) => (VerifyImpl(Mul(sd, G), se, sr, ss) <=> Valid(Mul(sd, G), se, sr, ss))
Inv == SignOK /\ VerifyOK
=============================================================================
