--------------------------- MODULE MC_JacobianImpl ---------------------------
(***************************************************************************)
(* E1 for C11: L1 transcription of gm-sm2/src/p256_ecc.rs (point_dbl,       *)
(* point_add with its special cases, the 4-bit fixed-window scalar_mul with *)
(* its pre-table) on a toy curve y^2 = x^3 - 3x + B over F_P (P = 3 mod 4,   *)
(* prime order below P, like SM2), checked against the affine group law     *)
(* (L0) for EVERY pair of Jacobian representations (MODE = "add") and for   *)
(* every representation x every scalar of NIB nibbles, including 0, n and   *)
(* values above n (MODE = "mul").                                           *)
(* FIXED = TRUE is the code as it stands (after the fix: h = 0 and r = 0    *)
(* doubles); FIXED = FALSE is the pinned commit's point_add -- the negative *)
(* configuration, which TLC must refute (same point, different Z).          *)
(***************************************************************************)
EXTENDS Integers, FiniteSets, TLC
CONSTANTS P, B, FIXED, MODE
A == P - 3
F == 0..(P-1)
M(x) == x % P
RECURSIVE PowF(_,_)
PowF(x, e) == IF e = 0 THEN 1 ELSE M(x * PowF(x, e-1))
InvF(x) == PowF(x, P-2)
\* ---------- L0: affine group law ----------
Inf == <<"inf">>
OnCurve(x, y) == M(y*y) = M(x*x*x + A*x + B)
Aff == {Inf} \cup { <<x,y>> \in F \X F : OnCurve(x,y) }
AffDbl(p) == IF p = Inf \/ p[2] = 0 THEN Inf ELSE
   LET l == M((3*p[1]*p[1] + A) * InvF(2*p[2]))
       x3 == M(l*l - 2*p[1] + 2*P)
   IN <<x3, M(l*(p[1] - x3 + P) - p[2] + P)>>
AffAdd(p, q) == IF p = Inf THEN q ELSE IF q = Inf THEN p ELSE
   IF p[1] = q[1] THEN (IF p[2] = q[2] THEN AffDbl(p) ELSE Inf) ELSE
   LET l == M((q[2] - p[2] + P) * InvF(q[1] - p[1] + P))
       x3 == M(l*l - p[1] - q[1] + 2*P)
   IN <<x3, M(l*(p[1] - x3 + P) - p[2] + P)>>
\* ---------- L1: Jacobian, as gm-sm2/src/p256_ecc.rs ----------
Sub(a,b) == M(a - b + P)
IsZero(j) == j[3] = 0
Denotes(j) == IF j[3] = 0 THEN Inf ELSE
   LET zi == InvF(j[3]) IN <<M(j[1]*zi*zi), M(j[2]*zi*zi*zi)>>
JDbl(j) == LET x1 == j[1] y1 == j[2] z1 == j[3]
               zz == M(z1*z1) yy == M(y1*y1)
               al == M(3 * Sub(x1,zz) * M(x1+zz))
               l4 == M(4 * x1 * yy)
               x3 == Sub(M(al*al), M(2*l4))
               y3 == Sub(M(al * Sub(l4, x3)), M(8*yy*yy))
               z3 == Sub(Sub(M((y1+z1)*(y1+z1)), yy), zz)
           IN <<x3,y3,z3>>
JAdd(p, q) == IF IsZero(p) THEN q ELSE IF IsZero(q) THEN p ELSE
   IF p = q THEN JDbl(p) ELSE
   LET z1z1 == M(p[3]*p[3]) z2z2 == M(q[3]*q[3])
       u1 == M(p[1]*z2z2) u2 == M(q[1]*z1z1)
       s1 == M(p[2]*q[3]*z2z2) s2 == M(q[2]*p[3]*z1z1)
       h == Sub(u2,u1) r == Sub(s2,s1)
   IN IF FIXED /\ h = 0 /\ r = 0 THEN JDbl(p) ELSE
      LET hh == M(h*h) hhh == M(hh*h) v == M(u1*hh)
          x3 == Sub(Sub(M(r*r), hhh), M(2*v))
          y3 == Sub(M(r*Sub(v,x3)), M(s1*hhh))
      IN <<x3, y3, M(p[3]*q[3]*h)>>
Jac == { j \in F \X F \X F : j[3] = 0 \/ (j[3] # 0 /\ Denotes(j) \in Aff) }
JacValid == { j \in Jac : j[3] # 0 } \cup {<<1,1,0>>}
\* ---------- L1: 4-bit fixed-window scalar_mul exactly as p256_ecc.rs (toy scalar width: NIB nibbles) ----------
CONSTANT NIB
Zero3 == <<1,1,0>>
PreTable(P1) ==
  LET p2 == JDbl(P1)  p4 == JDbl(p2)  p8 == JDbl(p4)
      p3 == JAdd(P1, p2)  p6 == JDbl(p3)  p7 == JAdd(P1, p6)  p12 == JDbl(p6)
      p5 == JAdd(P1, p4)  p10 == JDbl(p5)  p14 == JDbl(p7)
      p9 == JAdd(P1, p8)  p11 == JAdd(P1, p10)  p13 == JAdd(P1, p12)  p15 == JAdd(P1, p14)
  IN <<P1, p2, p3, p4, p5, p6, p7, p8, p9, p10, p11, p12, p13, p14, p15>>
Dbl4(r) == JDbl(JDbl(JDbl(JDbl(r))))
RECURSIVE Win(_,_,_,_)
Win(tab, k, j, r) ==            \* j = index of the nibble, NIB-1 (most significant) down to 0
  IF j < 0 THEN r ELSE
  LET idx == (k \div (16^j)) % 16
      r1 == IF idx # 0 THEN JAdd(tab[idx], r) ELSE r
  IN IF j = 0 THEN r1 ELSE Win(tab, k, j-1, Dbl4(r1))
ScalarMulImpl(P1, k) == Win(PreTable(P1), k, NIB-1, Zero3)
RECURSIVE AffMul(_,_)
AffMul(k, a) == IF k = 0 THEN Inf ELSE AffAdd(a, AffMul(k-1, a))
VARIABLES jp, jq, jk, jphase
Init == jp = Zero3 /\ jq = Zero3 /\ jk = 0 /\ jphase = "pick"
Next == \/ jphase = "pick" /\ MODE = "add" /\ \E a \in JacValid, b \in JacValid : jp' = a /\ jq' = b /\ jk' = 0 /\ jphase' = "check"
        \/ jphase = "pick" /\ MODE = "mul" /\ \E a \in (JacValid \ {Zero3}), s \in 0..(16^NIB - 1) : jp' = a /\ jk' = s /\ jq' = jq /\ jphase' = "check"
AddCorrect == jphase = "check" /\ MODE = "add" => Denotes(JAdd(jp, jq)) = AffAdd(Denotes(jp), Denotes(jq))
DblCorrect == jphase = "check" /\ MODE = "add" => Denotes(JDbl(jp)) = AffDbl(Denotes(jp))
MulCorrect == jphase = "check" /\ MODE = "mul" => Denotes(ScalarMulImpl(jp, jk)) = AffMul(jk, Denotes(jp))
\* validity predicate as in is_valid: Y^2 = X (X^2 + a Z^4) + b Z^6, true exactly for representations of curve points (and Z = 0)
JValid(j) == j[3] = 0 \/ M(j[2]*j[2]) = M(j[1] * M(j[1]*j[1] + A * M(M(j[3]*j[3]) * M(j[3]*j[3]))) + B * M(M(M(j[3]*j[3]) * M(j[3]*j[3])) * M(j[3]*j[3])))
ValidCorrect == \A j \in F \X F \X {1, 2, 5} : JValid(j) = (j \in Jac)
ASSUME ValidCorrect
Inv == AddCorrect /\ DblCorrect /\ MulCorrect
=============================================================================
