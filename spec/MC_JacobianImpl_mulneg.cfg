CONSTANTS P = 11 B = 10 FIXED = FALSE MODE = "mul" NIB = 2
INIT Init
NEXT Next
INVARIANT Inv
CHECK_DEADLOCK FALSE
