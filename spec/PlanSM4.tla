------------------------------ MODULE PlanSM4 ------------------------------
(***************************************************************************)
(* E2 plan generator for C02 (histories): the cipher object as a state      *)
(* machine whose only state is the immutable round-key tuple.  TLC           *)
(* enumerates EVERY call sequence of length <= MaxLen over                   *)
(*   {enc, dec} x {fresh block, previous output, repeat the previous input} *)
(* and prints each as a plan; the driver replays it on one real object.     *)
(***************************************************************************)
EXTENDS Naturals, Sequences, TLC, Json
CONSTANT MaxLen
VARIABLE seq
Ops == {"enc", "dec"}
Srcs == {"fresh", "prev", "repeat"}
Init == seq = <<>>
Call(o, s) == /\ Len(seq) < MaxLen
              /\ (Len(seq) = 0 => s = "fresh")
              /\ seq' = Append(seq, <<o, s>>)
Next == \E o \in Ops, s \in Srcs : Call(o, s)
Emit == seq # <<>> => PrintT(<<"PLAN", ToJson([seq |-> seq])>>)
=============================================================================
