------------------------------ MODULE PlanSM4 ------------------------------
(***************************************************************************)
(* E2 plan generator for C02 (histories): the cipher object as a state      *)
(* machine whose only state is the immutable round-key tuple.  TLC           *)
(* enumerates EVERY call sequence of length <= MaxLen over                   *)
(*   {enc, dec} x {fresh block, previous output, repeat the previous input} *)
(* and prints each as a plan; the driver replays it on one real object.     *)
(* Second family ("craft"): blocks computed by the specification so that the *)
(* input word of the round transform T in ONE chosen round is a special      *)
(* value (00000000, FFFFFFFF, a word with equal bytes): the state before     *)
(* that round is chosen and run BACKWARDS through the earlier rounds to the   *)
(* input block.  Random blocks reach such a word with probability 2^-27.      *)
(***************************************************************************)
EXTENDS SM4, Sequences, Json
CONSTANT MaxLen
VARIABLE seq
Ops == {"enc", "dec"}
Srcs == {"fresh", "prev", "repeat"}
Init == seq = <<>>
Call(o, s) == /\ Len(seq) < MaxLen
              /\ (Len(seq) = 0 => s = "fresh")
              /\ seq' = Append(seq, <<o, s>>)
\* a REJECTED call (a block of the wrong length, through encrypt or decrypt) anywhere in the history: the object must be unaffected by it
Bad(o) == /\ Len(seq) < MaxLen
          /\ seq' = Append(seq, <<o, "badlen">>)
Next == (\E o \in Ops, s \in Srcs : Call(o, s)) \/ (\E o \in Ops : Bad(o))
\* ---- crafted blocks ----
CraftKeys == << K0, <<0,0,0,0,124,0,0,0,0,0,0,0,0,0,0,0>>, [j \in 1..16 |-> (j * 37 + 11) % 256] >>
Targets == << <<0,0>>, <<65535,65535>>, <<\hd6d6,\hd6d6>>, <<\h0101,\h0101>> >>
RkAt(rk, j, dec) == rk[IF dec THEN 32 - j ELSE j + 1]
\* state before round i with T-input = target:  D = B ^ C ^ rk_i ^ target
StateAt(rk, i, dec, tg) == << rk[((i + 17) % 32) + 1], rk[((i + 5) % 32) + 1], rk[((i + 11) % 32) + 1],
                             X4(rk[((i + 5) % 32) + 1], rk[((i + 11) % 32) + 1], RkAt(rk, i, dec), tg) >>
RECURSIVE Back(_, _, _, _)
\* st = state before round j; returns the state before round 0
Back(st, rk, j, dec) == IF j = 0 THEN st
                        ELSE Back(<< WXor(st[4], TE(X4(st[1], st[2], st[3], RkAt(rk, j - 1, dec)))), st[1], st[2], st[3] >>, rk, j - 1, dec)
InBytes(x) == WBytes(x[1]) \o WBytes(x[2]) \o WBytes(x[3]) \o WBytes(x[4])
CraftRec(key, rk, i, dec, tg) == [kind |-> "craft", key |-> key, block |-> InBytes(Back(StateAt(rk, i, dec, tg), rk, i, dec)), dir |-> IF dec THEN "dec" ELSE "enc", round |-> i]
\* self-check of the construction: running forward to round i gives the chosen T-input
RECURSIVE Fwd(_, _, _, _, _)
Fwd(x, rk, j, to, dec) == IF j = to THEN x ELSE Fwd(<<x[2], x[3], x[4], WXor(x[1], TE(X4(x[2], x[3], x[4], RkAt(rk, j, dec))))>>, rk, j + 1, to, dec)
CraftOK(key, rk, i, dec, tg) == LET st == Fwd(BlockWords(CraftRec(key, rk, i, dec, tg).block), rk, 0, i, dec) IN X4(st[2], st[3], st[4], RkAt(rk, i, dec)) = tg
ASSUME \A kq \in 1..Len(CraftKeys), i \in 0..31, dec \in BOOLEAN, tq \in 1..Len(Targets) :
          (kq = 1 \/ tq = 1) => /\ CraftOK(CraftKeys[kq], KeySchedule(CraftKeys[kq]), i, dec, Targets[tq])
                                /\ PrintT(<<"PLAN", ToJson(CraftRec(CraftKeys[kq], KeySchedule(CraftKeys[kq]), i, dec, Targets[tq]))>>)
\* ---- crafted KEYS: the key-schedule transform T' of ONE chosen round receives a special word (the key-schedule state of that round is
\*      chosen and run backwards to the master key) ----
KState(i, tg) == << CKLit[((i + 3) % 32) + 1], CKLit[((i + 9) % 32) + 1], CKLit[((i + 14) % 32) + 1],
                    X4(CKLit[((i + 9) % 32) + 1], CKLit[((i + 14) % 32) + 1], CKLit[i + 1], tg) >>        \* (K_i, K_i+1, K_i+2, K_i+3) with K_i+1 ^ K_i+2 ^ K_i+3 ^ CK_i = tg
RECURSIVE KBack(_, _)
KBack(k, j) == IF j = 0 THEN k ELSE KBack(<< WXor(k[4], TK(X4(k[1], k[2], k[3], CKLit[j]))), k[1], k[2], k[3] >>, j - 1)
KeyOf(k0) == WBytes(WXor(k0[1], FKLit[1])) \o WBytes(WXor(k0[2], FKLit[2])) \o WBytes(WXor(k0[3], FKLit[3])) \o WBytes(WXor(k0[4], FKLit[4]))
CraftKey(i, tg) == KeyOf(KBack(KState(i, tg), i))
\* self-check: the schedule of the crafted key feeds tg to T' in round i  (rk_i = K_i+4; the T' input of round i is K_i+1 ^ K_i+2 ^ K_i+3 ^ CK_i)
KFwd(key, i) == LET rk == KeySchedule(key) IN
                LET kk == [q \in 1..36 |-> IF q <= 4 THEN WXor(BlockWords(key)[q], FKLit[q]) ELSE rk[q - 4]] IN X4(kk[i + 2], kk[i + 3], kk[i + 4], CKLit[i + 1])
ASSUME \A i \in 0..31, tq \in 1..2 : /\ KFwd(CraftKey(i, Targets[tq]), i) = Targets[tq]
                                      /\ PrintT(<<"PLAN", ToJson([kind |-> "craftkey", key |-> CraftKey(i, Targets[tq]), round |-> i])>>)
\* ---- crafted keys whose ROUND KEY of one chosen round is the all-zero (or all-one) word: rk_i = K_i xor T'(K_i+1 ^ K_i+2 ^ K_i+3 ^ CK_i), so K_i is chosen as
\*      T'(...) xor the wanted value, the other three words freely, and the state is run backwards to the master key.  0 is a legal round key. ----
RkState3(i, v, a, b, c) == << WXor(TK(X4(a, b, c, CKLit[i + 1])), v), a, b, c >>
RkState(i, v) == RkState3(i, v, CKLit[((i + 9) % 32) + 1], CKLit[((i + 14) % 32) + 1], CKLit[((i + 21) % 32) + 1])
RkKey(i, v) == KeyOf(KBack(RkState(i, v), i))
ASSUME \A i \in 0..31, v \in {<<0,0>>, <<65535,65535>>} : /\ KeySchedule(RkKey(i, v))[i + 1] = v
                                                          /\ PrintT(<<"PLAN", ToJson([kind |-> "craftkey", key |-> RkKey(i, v), round |-> i, rkval |-> v[1]])>>)
Emit == seq # <<>> => PrintT(<<"PLAN", ToJson([seq |-> seq])>>)
=============================================================================
