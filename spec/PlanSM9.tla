------------------------------- MODULE PlanSM9 -------------------------------
(***************************************************************************)
(* E2 plan for the SM9 properties: the SPECIFICATION as independent signer, *)
(* encryptor and as the source of boundary inputs:                           *)
(*   ha       40-byte Ha values q(N-1) + rem for rem in {0,1,2,N-3,N-2} and  *)
(*            boundary / pseudo-random quotients q (incl. q = 46, the        *)
(*            quotient-estimate edge) with the expected hash value;          *)
(*   zerokey  master secrets k = N - H1(ID||hid) (extraction must fail);     *)
(*   specsig  spec-made signatures; specct  spec-made ciphertexts.           *)
(***************************************************************************)
EXTENDS SM9, Json
CONSTANT NK
VARIABLES pidx, pout
Seed(j, tag) == Sm3(<<j, tag, 83, 77, 57>>)
Kof(j, tag) == BAdd(BMod(BFromBE(Seed(j, tag)), NM1), <<1>>)            \* in [1, N-1]
IdOf(j) == SubSeq(Seed(j, 3), 1, 1 + ((j * 7) % 30))
MsgOfJ(j) == SubSeq(Seed(j, 4) \o Seed(j, 5) \o Seed(j, 6), 1, 1 + ((j * 11) % 90))
\* ---- Ha boundary values ----
QMax == BFromBE(<<1>> \o [z \in 1..8 |-> 0] \o <<0>>)                   \* placeholder, not used
Rems == << Z0, <<1>>, <<2>>, BSub(NM1, <<2>>), BSub(NM1, <<1>>), BSub(NM1, <<128,0,0,0,0,0,0,1>>), BSub(NM1, <<229,110,225,156,214,158,207,36>>) >>
Quots(j) == << Z0, <<1>>, <<45>>, <<46>>, <<47>>, BFromBE(SubSeq(Seed(j, 7), 1, 8)), BFromBE(<<\h01,\h67,\h98,\h00,\h00,\h00,\h00,\h00>>), BFromBE(SubSeq(Seed(j, 8), 1, 7)) >>
HaVal(q, rem) == BAdd(BMul(q, NM1), rem)
HaEntry(q, rem) == [kind |-> "ha", ha |-> BToBE(HaVal(q, rem), 40), fits |-> IF BLt(HaVal(q, rem), <<1>> \o [z \in 1..40 |-> 0]) THEN 1 ELSE 0, expect |-> B32(BAdd(rem, <<1>>))]
HaEntries(j) == [x \in 1..56 |-> HaEntry(Quots(j)[((x - 1) \div 7) + 1], Rems[((x - 1) % 7) + 1])]
ZeroKey(j, hid) == [kind |-> "zerokey", hid |-> hid, idb |-> IdOf(j), k |-> B32(BSubMod(Z0, H1(IdOf(j), hid), N))]
\* master secrets for which the extraction scalar t2 = k (H1 + k)^-1 is a CHOSEN value s (small, or with all-zero 64-bit limbs): k = s H1 (1 - s)^-1
T2Vals == << <<2>>, <<1,0,0,0,0,0,0,0,0>>, <<1>> \o [q \in 1..15 |-> 0] \o <<7>>, <<1>> \o [q \in 1..24 |-> 0] \o <<5>>, <<13,236,13,237>>, <<3,0,0,0,0,0,0,0,0,0,0,0,0,0,0,0,0>> >>
T2Key(j, hid, sv) == [kind |-> "t2key", hid |-> hid, idb |-> IdOf(j), k |-> B32(BMulMod(BMulMod(sv, H1(IdOf(j), hid), N), InvN(BSubMod(<<1>>, sv, N)), N)), t2 |-> B32(sv)]
T2Keys(j) == IF j > 1 THEN <<>> ELSE [x \in 1..(3 * Len(T2Vals)) |-> T2Key(j, ((x - 1) % 3) + 1, T2Vals[((x - 1) \div 3) + 1])]
\* master secrets for which the INVERSE (H1 + k)^-1 itself is a chosen short value s (its top limbs are zero): k = s^-1 - H1
InvVals == << <<2>>, <<1,0,0,0,0,0,0,0,0>>, <<1>> \o [q \in 1..12 |-> 0] \o <<48,57>>, <<1>> \o [q \in 1..23 |-> 0] \o <<9>> >>
InvKey(j, hid, sv) == [kind |-> "invkey", hid |-> hid, idb |-> IdOf(j), k |-> B32(BSubMod(InvN(sv), H1(IdOf(j), hid), N)), inv |-> B32(sv)]
InvKeys(j) == IF j > 1 THEN <<>> ELSE [x \in 1..(3 * Len(InvVals)) |-> InvKey(j, ((x - 1) % 3) + 1, InvVals[((x - 1) \div 3) + 1])]
\* master secrets for which the 256-bit SUM H1 + k wraps: k = 2^256 - H1 (a legal key whenever it is below N, i.e. for H1 > 2^256 - N): t1 = 2^256 mod N is not
\* zero, extraction must succeed -- a zero test on the raw machine sum sees 0
Two256 == <<1>> \o [q \in 1..32 |-> 0]
WrapKOf(idv, hid) == BSub(Two256, H1(idv, hid))
WrapRec(hid, idv) == [kind |-> "wrapkey", hid |-> hid, idb |-> idv, k |-> B32(WrapKOf(idv, hid)), legal |-> IF BLt(WrapKOf(idv, hid), N) THEN 1 ELSE 0]
\* the first identity among "w00", "w01", ... for which the key is legal (about 7 in 10 are)
WNum(i) == <<119, 48 + ((i \div 10) % 10), 48 + (i % 10)>>
RECURSIVE FindWrap(_, _)
FindWrap(i, hid) == IF i > 60 \/ BLt(WrapKOf(WNum(i), hid), N) THEN WNum(i) ELSE FindWrap(i + 1, hid)
WrapKeys(j) == IF j > 1 THEN <<>> ELSE << WrapRec(1, FindWrap(0, 1)), WrapRec(2, FindWrap(0, 2)), WrapRec(3, FindWrap(0, 3)) >>
\* master secrets for which H1 + k lies just BELOW N, at a distance d whose low 64-bit word makes a signed or truncated comparison of the last limb go wrong
\* (d > 2^63, d = 2^63, d = the low limb of N): no reduction must happen, t1 = N - d
NearDs == << <<128,0,0,0,0,0,0,1>>, <<128,0,0,0,0,0,0,0>>, <<144,0,0,0,0,0,0,0>>, <<229,110,225,156,214,158,207,37>>, <<127,255,255,255,255,255,255,255>>, <<1,0,0,0,0,0,0,0,0>> >>
NearKey(j, hid, d) == [kind |-> "nearkey", hid |-> hid, idb |-> IdOf(j), k |-> B32(BSubMod(BSub(N, d), H1(IdOf(j), hid), N)), dist |-> B32(d)]
NearKeys(j) == IF j > 1 THEN <<>> ELSE [x \in 1..(3 * Len(NearDs)) |-> NearKey(j, ((x - 1) % 3) + 1, NearDs[((x - 1) \div 3) + 1])]
\* identities whose hash H1(ID || hid) is SHORT (leading zero byte: 1 in 256): searched by the specification among "id000", "id001", ...
IdNum(i) == <<105, 100, 48 + ((i \div 100) % 10), 48 + ((i \div 10) % 10), 48 + (i % 10)>>
RECURSIVE FindShort(_, _, _)
FindShort(i, hid, lim) == IF i > lim THEN <<>> ELSE IF B32(H1(IdNum(i), hid))[1] = 0 THEN IdNum(i) ELSE FindShort(i + 1, hid, lim)
ShortId(hid) == FindShort(hid * 7, hid, 999)
SmallRec(hid, idv) == [kind |-> "smallh1", hid |-> hid, idb |-> idv, found |-> IF idv = <<>> THEN 0 ELSE 1, h1 |-> IF idv = <<>> THEN <<>> ELSE B32(H1(idv, hid))]
SmallH1(j) == IF j > 1 THEN <<>> ELSE << SmallRec(1, ShortId(1)), SmallRec(2, ShortId(2)), SmallRec(3, ShortId(3)) >>
SpecSig3(j, ks, sg) == [kind |-> "specsig", ks |-> B32(ks), idb |-> IdOf(j), msg |-> MsgOfJ(j), r |-> B32(Kof(j, 2)), ok |-> sg[1],
                        h |-> IF sg[1] = "ok" THEN B32(sg[2]) ELSE <<>>, s |-> IF sg[1] = "ok" THEN <<4>> \o PtBytes(sg[3]) ELSE <<>>]
SpecSig2(j, ks, ds) == SpecSig3(j, ks, Sign(GPow(ks), ds[2], MsgOfJ(j), Kof(j, 2)))
SpecSig(j) == SpecSig2(j, Kof(j, 1), ExtractSign(Kof(j, 1), IdOf(j)))
SpecCt2(j, ke, x) == [kind |-> "specct", ke |-> B32(ke), idb |-> IdOf(j), msg |-> MsgOfJ(j), r |-> B32(Kof(j, 2)), ok |-> x[1], ct |-> IF x[1] = "ok" THEN x[2] ELSE <<>>]
SpecCt(j) == SpecCt2(j, Kof(j, 9), Encrypt(GPow(Kof(j, 9)), PpubE(Kof(j, 9)), IdOf(j), MsgOfJ(j), Kof(j, 2)))
Init == pidx = 0 /\ pout = <<>>
Next == pidx < NK /\ pidx' = pidx + 1 /\
        pout' = << ZeroKey(pidx + 1, 1), ZeroKey(pidx + 1, 2), ZeroKey(pidx + 1, 3), SpecSig(pidx + 1), SpecCt(pidx + 1) >> \o HaEntries(pidx + 1) \o T2Keys(pidx + 1) \o InvKeys(pidx + 1) \o SmallH1(pidx + 1) \o WrapKeys(pidx + 1) \o NearKeys(pidx + 1)
Emit == \A j \in 1..Len(pout) : PrintT(<<"PLAN", ToJson(pout[j])>>)
=============================================================================
