------------------------------- MODULE Gen -------------------------------
(***************************************************************************)
(* Message generators shared by the Rust driver and the trace               *)
(* specifications: long inputs are described by (kind, seed, length) and    *)
(* regenerated here, so the specification -- not the trace -- fixes the     *)
(* bytes.  Every generator is prefix-closed by construction: byte i depends *)
(* on (kind, seed, i) only.  All arithmetic stays below 2^31.               *)
(***************************************************************************)
EXTENDS Naturals, Sequences, TLC
MixJ(seed, i) == (i + seed) % 46337
GenByte(k, seed, i) ==      \* i is 0-based
   IF k = "zero" THEN 0
   ELSE IF k = "ff" THEN 255
   ELSE IF k = "inc" THEN (seed + i) % 256
   ELSE IF k = "bit" THEN (IF i = seed \div 8 THEN 2^(7 - (seed % 8)) ELSE 0)
   ELSE IF k = "mix" THEN (((MixJ(seed, i) * MixJ(seed, i)) \div 7) + (MixJ(seed, i) * 3) + (i \div 46337) + (seed \div 46337)) % 256
   ELSE Assert(FALSE, <<"unknown generator", k>>)
\* the same byte addressed as (64-byte block index, offset in the block): byte 64 blk + o, for messages beyond 2^31 bytes (blk < 2^27)
MixJB(seed, blk, o) == (((blk % 46337) * 64) + o + seed) % 46337
DivB(blk, o) == ((blk \div 46337) * 64) + ((((blk % 46337) * 64) + o) \div 46337)            \* (64 blk + o) div 46337
GenByteAt(k, seed, blk, o) ==
   IF k = "zero" THEN 0
   ELSE IF k = "ff" THEN 255
   ELSE IF k = "inc" THEN ((seed % 256) + ((blk % 4) * 64) + o) % 256
   ELSE IF k = "bit" THEN (IF blk = (seed \div 8) \div 64 /\ o = (seed \div 8) % 64 THEN 2^(7 - (seed % 8)) ELSE 0)
   ELSE IF k = "mix" THEN (((MixJB(seed, blk, o) * MixJB(seed, blk, o)) \div 7) + (MixJB(seed, blk, o) * 3) + DivB(blk, o) + (seed \div 46337)) % 256
   ELSE Assert(FALSE, <<"unknown generator", k>>)
ASSUME \A k \in {"zero", "ff", "inc", "bit", "mix"}, seed \in {0, 5, 777, 46336, 46337, 1048575}, blk \in {0, 1, 2, 723, 724, 725, 1447, 1448, 16777215}, o \in {0, 1, 62, 63} :
          GenByteAt(k, seed, blk, o) = GenByte(k, seed, 64 * blk + o)
GenMsg(g, len) == TLCEval([i \in 1..len |-> GenByte(g.k, g.seed, i - 1)])
\* message of an event: explicit bytes (kind "raw") or generated
MsgOf(e) == IF e.gen.k = "raw" THEN e.raw ELSE GenMsg(e.gen, e.len)
=============================================================================
