------------------------------- MODULE Gen -------------------------------
(***************************************************************************)
(* Message generators shared by the Rust driver and the trace               *)
(* specifications: long inputs are described by (kind, seed, length) and    *)
(* regenerated here, so the specification -- not the trace -- fixes the     *)
(* bytes.  Every generator is prefix-closed by construction: byte i depends *)
(* on (kind, seed, i) only.  All arithmetic stays below 2^31.               *)
(***************************************************************************)
EXTENDS Naturals, Sequences, TLC
MixJ(seed, i) == (i + seed) % 46337
GenByte(k, seed, i) ==      \* i is 0-based
   IF k = "zero" THEN 0
   ELSE IF k = "ff" THEN 255
   ELSE IF k = "inc" THEN (seed + i) % 256
   ELSE IF k = "bit" THEN (IF i = seed \div 8 THEN 2^(7 - (seed % 8)) ELSE 0)
   ELSE IF k = "mix" THEN (((MixJ(seed, i) * MixJ(seed, i)) \div 7) + (MixJ(seed, i) * 3) + (i \div 46337) + (seed \div 46337)) % 256
   ELSE Assert(FALSE, <<"unknown generator", k>>)
GenMsg(g, len) == TLCEval([i \in 1..len |-> GenByte(g.k, g.seed, i - 1)])
\* message of an event: explicit bytes (kind "raw") or generated
MsgOf(e) == IF e.gen.k = "raw" THEN e.raw ELSE GenMsg(e.gen, e.len)
=============================================================================
