CONSTANTS MaxLen = 1 Keys = {0, 5, 43, 127} LocalMax = 5 BADCTR = TRUE
INIT Init
NEXT Next
INVARIANT Inv
CHECK_DEADLOCK FALSE
