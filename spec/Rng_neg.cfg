CONSTANTS CMax = 7 Order = 5 MaxDraws = 3 BADRANGE = TRUE
INIT Init
NEXT Next
INVARIANT Inv
CHECK_DEADLOCK FALSE
