------------------------------- MODULE ZUC -------------------------------
(***************************************************************************)
(* ZUC-128 (GM/T 0001-2012, ETSI/SAGE v1.6) as a state machine.             *)
(* State: [s |-> 16 cells of 31 bits, r1, r2 |-> 32-bit words].              *)
(* Actions: Load, InitRound (x32), Discard (one F + LFSRWork), Produce.      *)
(* LFSR arithmetic is modulo 2^31-1 on representatives 1..2^31-1.            *)
(* The S-boxes are defined structurally and ASSUMEd equal to the literal    *)
(* tables (ZUCTab): S0 = 3-round 4-bit Feistel (P1,P2,P3) then <<< 5;        *)
(* S1 = M * inv(x) + 0x55 over GF(2^8)/0x18B.                                *)
(***************************************************************************)
EXTENDS W32, TLC, ZUCTab
M31 == 2147483647
\* ---- arithmetic modulo 2^31-1 (overflow-free in 32-bit signed integers) ----
Add31(a, b) == IF a >= M31 - b THEN a - (M31 - b) ELSE a + b                 \* a,b in 0..M31; result in 0..M31, 0 only if both 0
Rot31(a, k) == ((a % (2^(31-k))) * (2^k)) + (a \div (2^(31-k)))
\* ---- S-box structure ----
SP1 == <<9,15,0,14,15,15,2,10,0,4,0,12,7,5,3,9>>
SP2 == <<8,13,6,5,7,0,12,4,11,1,14,10,15,3,9,2>>
SP3 == <<2,6,10,6,0,13,10,15,3,3,13,5,0,9,12,13>>
S0r(q, r) == ((q ^^ SP3[r+1]) * 16) + r
S0q(x2, q) == S0r(q, x2 ^^ SP2[q+1])
S0Pre(x) == S0q(x % 16, (x \div 16) ^^ SP1[(x % 16) + 1])
Rotl8(v, k) == ((v * (2^k)) % 256) + (v \div (2^(8-k)))
S0Alg(x) == Rotl8(S0Pre(x), 5)
XT18B(a) == IF a >= 128 THEN ((a * 2) ^^ 395) ELSE a * 2
RECURSIVE GMul1R(_,_,_,_)
GMul1R(a, b, j, acc) == IF j = 8 THEN acc ELSE GMul1R(XT18B(a), b, j+1, IF (b \div (2^j)) % 2 = 1 THEN acc ^^ a ELSE acc)
GMul1(a, b) == GMul1R(a, b, 0, 0)
GSq1(a) == GMul1(a, a)
GInv1c(a2,a4,a8,a16,a32,a64,a128) == GMul1(GMul1(GMul1(a2,a4),GMul1(a8,a16)),GMul1(GMul1(a32,a64),a128))
GInv1b(a2,a4,a8,a16) == GInv1c(a2,a4,a8,a16,GSq1(a16),GSq1(GSq1(a16)),GSq1(GSq1(GSq1(a16))))
GInv1a(a2) == GInv1b(a2,GSq1(a2),GSq1(GSq1(a2)),GSq1(GSq1(GSq1(a2))))
GInv1(a) == GInv1a(GSq1(a))
MCols == <<\h97, \h3e, \h6d, \hcb, \hee, \hdd, \hbb, \h77>>         \* images of bits 0..7
RECURSIVE MApply(_,_,_)
MApply(v, j, acc) == IF j = 8 THEN acc ELSE MApply(v, j+1, IF (v \div (2^j)) % 2 = 1 THEN acc ^^ MCols[j+1] ELSE acc)
S1Alg(x) == MApply(GInv1(x), 0, 0) ^^ 85
ASSUME \A x \in 0..255 : S0Alg(x) = S0[x+1]
ASSUME \A x \in 0..255 : S1Alg(x) = S1[x+1]
ASSUME \A j \in 1..16 : DK[j] \in 0..32767
\* ---- nonlinear function F and the LFSR ----
WXor5(a,b,c,d,e) == WXor(WXor(WXor(a,b),WXor(c,d)),e)
L1(x) == WXor5(x, WRotl(x,2), WRotl(x,10), WRotl(x,18), WRotl(x,24))
L2(x) == WXor5(x, WRotl(x,8), WRotl(x,14), WRotl(x,22), WRotl(x,30))
SB(x) == << S0[(x[1] \div 256) + 1] * 256 + S1[(x[1] % 256) + 1], S0[(x[2] \div 256) + 1] * 256 + S1[(x[2] % 256) + 1] >>
\* bit reorganisation (s is 1-based: s[j+1] = s_j)
X0(s) == << s[16] \div 32768, s[15] % M16 >>
X1(s) == << s[12] % M16, s[10] \div 32768 >>
X2(s) == << s[8] % M16, s[6] \div 32768 >>
X3(s) == << s[3] % M16, s[1] \div 32768 >>
FW(zs) == WAdd(WXor(X0(zs.s), zs.r1), zs.r2)
FStep2(zs, w1, w2) == [zs EXCEPT !.r1 = SB(L1(<<w1[2], w2[1]>>)), !.r2 = SB(L2(<<w2[2], w1[1]>>))]
FStep(zs) == FStep2(zs, WAdd(zs.r1, X1(zs.s)), WXor(zs.r2, X2(zs.s)))
Feedback(s) == Add31(Add31(Add31(Add31(Add31(s[1], Rot31(s[1], 8)), Rot31(s[5], 20)), Rot31(s[11], 21)), Rot31(s[14], 17)), Rot31(s[16], 15))
Fix0(v) == IF v = 0 THEN M31 ELSE v
Shift(s, v) == <<s[2],s[3],s[4],s[5],s[6],s[7],s[8],s[9],s[10],s[11],s[12],s[13],s[14],s[15],s[16], v>>
LFSRInit(zs, u) == [zs EXCEPT !.s = Shift(zs.s, Fix0(Add31(Feedback(zs.s), u) % M31))]
LFSRWork(zs) == [zs EXCEPT !.s = Shift(zs.s, Fix0(Feedback(zs.s) % M31))]
W31(w) == w[1] * 32768 + (w[2] \div 2)                                    \* W >> 1
InitRound(zs) == LFSRInit(FStep(zs), W31(FW(zs)))
Load(key, iv) == [s |-> [j \in 1..16 |-> key[j] * 8388608 + DK[j] * 256 + iv[j]], r1 |-> <<0,0>>, r2 |-> <<0,0>>]
RECURSIVE IterInit(_, _)
IterInit(zs, n) == IF n = 0 THEN zs ELSE IterInit(InitRound(zs), n - 1)
\* initialisation: load, 32 init rounds, then one F (output discarded) and one LFSRWork
Start(key, iv) == LFSRWork(FStep(IterInit(TLCEval(Load(key, iv)), 32)))
\* one keystream word: <<word, next state>>
Produce(zs) == << WXor(FW(zs), X3(zs.s)), LFSRWork(FStep(zs)) >>
\* n words from state zs: <<words, next state>>  (chunked: recursion depth <= 64 per chunk)
RECURSIVE StreamC(_, _, _)
StreamCStep(o, n, acc) == StreamC(o[2], n - 1, Append(acc, o[1]))
StreamC(zs, n, acc) == IF n = 0 THEN <<acc, zs>> ELSE StreamCStep(Produce(zs), n, acc)
RECURSIVE StreamG(_, _, _)
StreamGStep(r, n) == StreamG(r[2], n, r[1])
StreamG(zs, n, acc) == IF n = 0 THEN <<acc, zs>> ELSE IF n <= 64 THEN StreamC(zs, n, acc) ELSE StreamGStep(StreamC(zs, 64, acc), n - 64)
Request(zs, n) == StreamG(zs, n, <<>>)
\* does one of the n rounds from state zs START with a memory word of F equal to zero?  (2^-32 per round: sessions with such a round are searched by the
\* driver and recognised here)
RECURSIVE RZeroC(_, _)
\* ... or with an all-zero input word to one of the two S-box layers of F (u = W1_L || W2_H, v = W2_L || W1_H; L1 / L2 are bijections, so this is "S(0)")
FInZero2(w1, w2) == <<w1[2], w2[1]>> = <<0,0>> \/ <<w2[2], w1[1]>> = <<0,0>>
FInZero(zs) == FInZero2(WAdd(zs.r1, X1(zs.s)), WXor(zs.r2, X2(zs.s)))
RZeroC(zs, n) == IF n = 0 THEN FALSE ELSE zs.r1 = <<0,0>> \/ zs.r2 = <<0,0>> \/ FInZero(zs) \/ RZeroC(Produce(zs)[2], n - 1)
RECURSIVE RZeroG(_, _)
RZeroG(zs, n) == IF n <= 0 THEN FALSE ELSE IF n <= 64 THEN RZeroC(zs, n) ELSE RZeroC(zs, 64) \/ RZeroG(StreamC(zs, 64, <<>>)[2], n - 64)
RZero(zs, n) == RZeroG(zs, n)
KeyStream(key, iv, n) == Request(Start(key, iv), n)[1]
\* ---- classification of a (key, IV) pair: does one of the six additions of the FIRST initialisation round have operands that sum to exactly
\*      2^31-1, 2^31 or 2^31+1 (the boundary of the modular reduction)?  Random pairs do with probability 2^-29; the driver searches for them. ----
BoundarySum(a, b) == b >= 1 /\ a >= M31 - b /\ a - (M31 - b) <= 2               \* a + b - (2^31 - 1) in 0..2, without leaving 32-bit integers
Chain5(s) == << s[1], Rot31(s[1], 8), Rot31(s[5], 20), Rot31(s[11], 21), Rot31(s[14], 17), Rot31(s[16], 15) >>
RECURSIVE ChainHits(_, _, _, _)
ChainHits(terms, j, acc, u) == IF j > 6 THEN BoundarySum(acc, u)
                               ELSE BoundarySum(acc, terms[j]) \/ ChainHits(terms, j + 1, Add31(acc, terms[j]), u)
FirstRoundBoundary(key, iv) == LET z0 == Load(key, iv) IN ChainHits(Chain5(z0.s), 2, z0.s[1], W31(FW(z0)))
\* ---- anchors: the three official test vectors ----
Zero16 == [j \in 1..16 |-> 0]
FF16 == [j \in 1..16 |-> 255]
K3 == <<\h3d,\h4c,\h4b,\he9,\h6a,\h82,\hfd,\hae,\hb5,\h8f,\h64,\h1d,\hb1,\h7b,\h45,\h5b>>
IV3 == <<\h84,\h31,\h9a,\ha8,\hde,\h69,\h15,\hca,\h1f,\h6b,\hda,\h6b,\hfb,\hd8,\hc7,\h66>>
ASSUME KeyStream(Zero16, Zero16, 2) = << <<\h27be,\hde74>>, <<\h0180,\h82da>> >>
ASSUME KeyStream(FF16, FF16, 2) = << <<\h0657,\hcfa0>>, <<\h7096,\h398b>> >>
ASSUME KeyStream(K3, IV3, 2) = << <<\h14f1,\hc272>>, <<\h3279,\hc419>> >>
=============================================================================
