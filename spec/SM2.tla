-------------------------------- MODULE SM2 --------------------------------
(***************************************************************************)
(* GB/T 32918 (SM2) at the real 256-bit parameters, standard-shaped (L0):   *)
(* part 2 signatures (ZA, e, Sign, Verify), part 4 encryption (KDF, Enc,    *)
(* Dec), part 3 key agreement (w = 127, one-byte tags), and the SEC1 point  *)
(* encodings.  Curve arithmetic is the affine group law of Weierstrass.tla. *)
(* Anchored by the GM/T 0003.5 Annex examples (ASSUMEs at the end).         *)
(***************************************************************************)
EXTENDS SM3, BigNat, SM2Anchors
PBytes == <<\hFF,\hFF,\hFF,\hFE,\hFF,\hFF,\hFF,\hFF,\hFF,\hFF,\hFF,\hFF,\hFF,\hFF,\hFF,\hFF,\hFF,\hFF,\hFF,\hFF,\h00,\h00,\h00,\h00,\hFF,\hFF,\hFF,\hFF,\hFF,\hFF,\hFF,\hFF>>
NBytes == <<\hFF,\hFF,\hFF,\hFE,\hFF,\hFF,\hFF,\hFF,\hFF,\hFF,\hFF,\hFF,\hFF,\hFF,\hFF,\hFF,\h72,\h03,\hDF,\h6B,\h21,\hC6,\h05,\h2B,\h53,\hBB,\hF4,\h09,\h39,\hD5,\h41,\h23>>
ABytes == <<\hFF,\hFF,\hFF,\hFE,\hFF,\hFF,\hFF,\hFF,\hFF,\hFF,\hFF,\hFF,\hFF,\hFF,\hFF,\hFF,\hFF,\hFF,\hFF,\hFF,\h00,\h00,\h00,\h00,\hFF,\hFF,\hFF,\hFF,\hFF,\hFF,\hFF,\hFC>>
BBytes == <<\h28,\hE9,\hFA,\h9E,\h9D,\h9F,\h5E,\h34,\h4D,\h5A,\h9E,\h4B,\hCF,\h65,\h09,\hA7,\hF3,\h97,\h89,\hF5,\h15,\hAB,\h8F,\h92,\hDD,\hBC,\hBD,\h41,\h4D,\h94,\h0E,\h93>>
GXBytes == <<\h32,\hC4,\hAE,\h2C,\h1F,\h19,\h81,\h19,\h5F,\h99,\h04,\h46,\h6A,\h39,\hC9,\h94,\h8F,\hE3,\h0B,\hBF,\hF2,\h66,\h0B,\hE1,\h71,\h5A,\h45,\h89,\h33,\h4C,\h74,\hC7>>
GYBytes == <<\hBC,\h37,\h36,\hA2,\hF4,\hF6,\h77,\h9C,\h59,\hBD,\hCE,\hE3,\h6B,\h69,\h21,\h53,\hD0,\hA9,\h87,\h7C,\hC6,\h2A,\h47,\h40,\h02,\hDF,\h32,\hE5,\h21,\h39,\hF0,\hA0>>
\* (p+1)/4 = 3fffffffbfffffffffffffffffffffffffffffffc00000004000000000000000
SqrtExpBytes == <<\h3F,\hFF,\hFF,\hFF,\hBF,\hFF,\hFF,\hFF,\hFF,\hFF,\hFF,\hFF,\hFF,\hFF,\hFF,\hFF,\hFF,\hFF,\hFF,\hFF,\hC0,\h00,\h00,\h00,\h40,\h00,\h00,\h00,\h00,\h00,\h00,\h00>>
PP == BFromBE(PBytes)
NN == BFromBE(NBytes)
AA == BFromBE(ABytes)
BB == BFromBE(BBytes)
C == INSTANCE Weierstrass WITH WP <- PP, WA <- AA, WB <- BB, WSqrtExp <- BFromBE(SqrtExpBytes)
Inf == C!Inf
G == <<BFromBE(GXBytes), BFromBE(GYBytes)>>
ASSUME C!OnCurve(G)
B32(x) == BToBE(x, 32)
Mul(k, pt) == C!ScalarMulBytes(k, pt)             \* k: big-endian bytes (any length)
MulN(k, pt) == C!ScalarMulBytes(B32(k), pt)       \* k: BigNat
PubOf(dbytes) == Mul(dbytes, G)
ASSUME MulN(NN, G) = Inf                          \* G has order n

\* ---------------- point encodings (SEC1 / GB/T 32918.1 4.2.8-4.2.9) ----------------
EncodePoint(pt, compressed) == IF compressed THEN <<2 + C!Parity(pt[2])>> \o B32(pt[1]) ELSE <<4>> \o B32(pt[1]) \o B32(pt[2])
\* <<"ok", P>> | <<"err">> | <<"either", P>> (hybrid forms 06/07: a decoder may accept or reject)
DecUncompressed(x, y) == IF BLt(x, PP) /\ BLt(y, PP) /\ C!OnCurve(<<x, y>>) THEN <<"ok", <<x, y>>>> ELSE <<"err">>
DecHybrid(r, ybit) == IF r[1] = "ok" /\ C!Parity(r[2][2]) = ybit THEN <<"either", r[2]>> ELSE <<"err">>
DecCompressed2(x, ybit, l) == IF l[1] = "ok" THEN <<"ok", l[2]>> ELSE <<"err">>
DecCompressed(x, ybit) == IF BLt(x, PP) THEN DecCompressed2(x, ybit, C!Lift(x, ybit)) ELSE <<"err">>
DecodePoint(b) == IF Len(b) = 0 THEN <<"err">>
                  ELSE IF b[1] = 4 THEN (IF Len(b) = 65 THEN DecUncompressed(BFromBE(SubSeq(b, 2, 33)), BFromBE(SubSeq(b, 34, 65))) ELSE <<"err">>)
                  ELSE IF b[1] \in {2, 3} THEN (IF Len(b) = 33 THEN DecCompressed(BFromBE(SubSeq(b, 2, 33)), b[1] - 2) ELSE <<"err">>)
                  ELSE IF b[1] \in {6, 7} THEN (IF Len(b) = 65 THEN DecHybrid(DecUncompressed(BFromBE(SubSeq(b, 2, 33)), BFromBE(SubSeq(b, 34, 65))), b[1] - 6) ELSE <<"err">>)
                  ELSE <<"err">>

\* ---------------- part 2: digital signature ----------------
ZA(uid, pt) == Hash(<<(Len(uid)*8) \div 256, (Len(uid)*8) % 256>> \o uid \o ABytes \o BBytes \o GXBytes \o GYBytes \o B32(pt[1]) \o B32(pt[2]))
EDigest(uid, pt, msg) == Hash(ZA(uid, pt) \o msg)
InRangeN(x) == x # BZero /\ BLt(x, NN)                                   \* 1 <= x <= n-1
InvN(x) == BPowMod(x, BSub(NN, <<2>>), NN)
\* verification equation on the integer e (= the digest read as an integer, NOT reduced -- (e + x1) mod n reduces it)
VerFinal(r, e, pt) == pt # Inf /\ BAddMod(e, pt[1], NN) = r
Ver3(r, s, t, e, pk) == t # BZero /\ VerFinal(r, e, C!PAdd(MulN(s, G), MulN(t, pk)))
VerifyRS(pk, e, r, s) == InRangeN(r) /\ InRangeN(s) /\ Ver3(r, s, BAddMod(r, s, NN), e, pk)
VerifyDigest(pk, ebytes, sig) == Len(sig) = 64 /\ VerifyRS(pk, BFromBE(ebytes), BFromBE(SubSeq(sig, 1, 32)), BFromBE(SubSeq(sig, 33, 64)))
Verify(pk, uid, msg, sig) == Len(sig) = 64 /\ VerifyDigest(pk, EDigest(uid, pk, msg), sig)
\* signing with nonce k: <<"ok", r, s>> or <<"retry">> (r = 0, r + k = n, s = 0)
SignS(d, k, r) == BMulMod(InvN(BAddMod(<<1>>, d, NN)), BSubMod(k, BMulMod(r, d, NN), NN), NN)
SignRS2(r, s) == IF s = BZero THEN <<"retry">> ELSE <<"ok", r, s>>
SignRS(d, k, r) == IF r = BZero \/ BAdd(r, k) = NN THEN <<"retry">> ELSE SignRS2(r, SignS(d, k, r))
SignX(d, e, k, kG) == SignRS(d, k, BAddMod(e, kG[1], NN))
SignDigest(d, ebytes, k) == SignX(d, BFromBE(ebytes), k, MulN(k, G))     \* d, k: BigNat with 1 <= k <= n-1
SigBytes(sg) == B32(sg[2]) \o B32(sg[3])
\* the nonce a signer must have used: k = s(1+d) + r d mod n
NonceOf(d, r, s) == BAddMod(BMulMod(s, BAddMod(<<1>>, d, NN), NN), BMulMod(r, d, NN), NN)

\* ---------------- part 4: public key encryption ----------------
U32BE(ct) == << ct \div 16777216, (ct \div 65536) % 256, (ct \div 256) % 256, ct % 256 >>
\* blocks ct .. to appended to acc; two levels of bounded recursion (32 blocks per chunk) so that the evaluation stack stays shallow for a
\* key stream of 2^16 bytes (a 2048-deep recursion made every collection of the JVM scan a deep stack: 25 minutes instead of seconds);
\* each level looks at its accumulator, which forces it there (TLC passes arguments unevaluated)
RECURSIVE KdfC(_,_,_,_)
KdfC(z, ct, to, acc) == IF Len(acc) >= 0 /\ ct > to THEN acc ELSE KdfC(z, ct + 1, to, acc \o Hash(z \o U32BE(ct)))
RECURSIVE KdfG(_,_,_,_)
KdfG(z, ct, nb, acc) == IF Len(acc) >= 0 /\ ct > nb THEN acc ELSE KdfG(z, ct + 32, nb, KdfC(z, ct, IF ct + 31 < nb THEN ct + 31 ELSE nb, acc))
KDF(z, klen) == SubSeq(KdfG(z, 1, (klen + 31) \div 32, <<>>), 1, klen)
XorS(a, b) == [j \in 1..Len(a) |-> a[j] ^^ b[j]]
AllZero(t) == \A j \in 1..Len(t) : t[j] = 0
Assemble(c1, c2, c3, order) == IF order = "c1c2c3" THEN c1 \o c2 \o c3 ELSE c1 \o c3 \o c2
EncT(msg, c1b, sp, t, order) == IF AllZero(t) THEN <<"retry">>
                                ELSE <<"ok", Assemble(c1b, TLCEval(XorS(msg, t)), Hash(B32(sp[1]) \o msg \o B32(sp[2])), order)>>
EncS(msg, c1b, sp, order) == EncT(msg, c1b, sp, KDF(B32(sp[1]) \o B32(sp[2]), Len(msg)), order)
\* pk public key, k nonce (BigNat): <<"ok", ciphertext bytes>> or <<"retry">>
Encrypt(pk, k, msg, order, compressed) == EncS(msg, EncodePoint(MulN(k, G), compressed), MulN(k, pk), order)
\* decryption: <<"ok", m>> | <<"err">> | <<"either", m>> (hybrid C1 / empty body: the property is silent)
C1Len(compressed) == IF compressed THEN 33 ELSE 65
C2Of(ct, cl, order) == IF order = "c1c2c3" THEN SubSeq(ct, cl + 1, Len(ct) - 32) ELSE SubSeq(ct, cl + 33, Len(ct))
C3Of(ct, cl, order) == IF order = "c1c2c3" THEN SubSeq(ct, Len(ct) - 31, Len(ct)) ELSE SubSeq(ct, cl + 1, cl + 32)
DecM(tag, c2, c3, sp, t) == IF AllZero(t) THEN <<"err">>
                            ELSE IF Hash(B32(sp[1]) \o TLCEval(XorS(c2, t)) \o B32(sp[2])) = c3 THEN <<tag, TLCEval(XorS(c2, t))>> ELSE <<"err">>
DecS(tag, c2, c3, sp) == IF sp = Inf THEN <<"err">> ELSE DecM(tag, c2, c3, sp, KDF(B32(sp[1]) \o B32(sp[2]), Len(c2)))
DecP(d, dp, c2, c3) == IF dp[1] = "err" \/ dp[2] = Inf THEN <<"err">> ELSE DecS(IF dp[1] = "either" THEN "either" ELSE "ok", c2, c3, MulN(d, dp[2]))
PrefixOK(b, compressed) == IF compressed THEN b \in {2, 3} ELSE b \in {4, 6, 7}
Decrypt(d, ct, order, compressed) ==
   IF Len(ct) < C1Len(compressed) + 32 THEN <<"err">>
   ELSE IF ~PrefixOK(ct[1], compressed) THEN <<"err">>
   ELSE IF Len(ct) = C1Len(compressed) + 32 THEN <<"either", <<>>>>       \* empty body: not a ciphertext of a non-empty message; silent
   ELSE DecP(d, DecodePoint(SubSeq(ct, 1, C1Len(compressed))), C2Of(ct, C1Len(compressed), order), C3Of(ct, C1Len(compressed), order))

\* ---------------- part 3: key agreement (w = ceil(ceil(log2 n)/2) - 1 = 127) ----------------
Xbar(pt) == BFromBE([j \in 1..16 |-> IF j = 1 THEN 128 + (B32(pt[1])[17] % 128) ELSE B32(pt[1])[16 + j]])    \* 2^127 + (x mod 2^127)
TScalar(d, r, R) == BAddMod(d, BMulMod(Xbar(R), r, NN), NN)                      \* t = (d + xbar * r) mod n
SharedPt(t, Ppeer, Rpeer) == MulN(t, C!PAdd(Ppeer, MulN(Xbar(Rpeer), Rpeer)))   \* [h t](P + [xbar]R), h = 1
KxInner(v, za, zb, ra, rb) == Hash(B32(v[1]) \o za \o zb \o B32(ra[1]) \o B32(ra[2]) \o B32(rb[1]) \o B32(rb[2]))
KxConf(tag, v, inner) == Hash(<<tag>> \o B32(v[2]) \o inner)
KxKey(v, za, zb, klen) == KDF(B32(v[1]) \o B32(v[2]) \o za \o zb, klen)
\* everything one honest run determines, from the responder's side: [K, SB, SA, V]; za/zb = Z of initiator/responder
KxAll3(v, inner, za, zb, klen) == [k |-> KxKey(v, za, zb, klen), sb |-> KxConf(2, v, inner), sa |-> KxConf(3, v, inner), v |-> v]
\* V (= U) is the point at infinity: the agreement fails (B5 / A7), there are no values
KxAll2(v, RA, RB, za, zb, klen) == IF v = Inf THEN [k |-> <<>>, sb |-> <<>>, sa |-> <<>>, v |-> Inf] ELSE KxAll3(v, KxInner(v, za, zb, RA, RB), za, zb, klen)
KxResponder(dB, rB, RB, PA, RA, za, zb, klen) == KxAll2(SharedPt(TScalar(dB, rB, RB), PA, RA), RA, RB, za, zb, klen)
KxInitiator(dA, rA, RA, PB, RB, za, zb, klen) == KxAll2(SharedPt(TScalar(dA, rA, RA), PB, RB), RA, RB, za, zb, klen)

\* ---------------- anchors: GM/T 0003.5 Annex (SM2 recommended curve) ----------------
ID16 == <<49,50,51,52,53,54,55,56,49,50,51,52,53,54,55,56>>
MsgSig == <<109,101,115,115,97,103,101,32,100,105,103,101,115,116>>          \* "message digest"
SigAnnex == SignDigest(BFromBE(DA), EDigest(ID16, PubOf(DA), MsgSig), BFromBE(KN))
ASSUME SigAnnex = <<"ok", BFromBE(SIGR), BFromBE(SIGS)>>
ASSUME Verify(PubOf(DA), ID16, MsgSig, SIGR \o SIGS)
ASSUME ~Verify(PubOf(DA), ID16, MsgSig \o <<0>>, SIGR \o SIGS)
MsgEnc == <<101,110,99,114,121,112,116,105,111,110,32,115,116,97,110,100,97,114,100>>   \* "encryption standard"
EncAnnex == Encrypt(PubOf(DA), BFromBE(KN), MsgEnc, "c1c3c2", FALSE)
ASSUME EncAnnex[1] = "ok" /\ SubSeq(EncAnnex[2], 2, 33) = ENCC1X /\ SubSeq(EncAnnex[2], 66, 97) = ENCC3 /\ SubSeq(EncAnnex[2], 98, Len(EncAnnex[2])) = ENCC2
ASSUME Decrypt(BFromBE(DA), EncAnnex[2], "c1c3c2", FALSE) = <<"ok", MsgEnc>>
PAx == PubOf(KXDA)
PBx == PubOf(KXDB)
KxAnnexB == KxResponder(BFromBE(KXDB), BFromBE(KXRB), Mul(KXRB, G), PAx, Mul(KXRA, G), ZA(ID16, PAx), ZA(ID16, PBx), 16)
ASSUME KxAnnexB.k = KXK /\ KxAnnexB.sb = KXSB /\ KxAnnexB.sa = KXSA
ASSUME KxInitiator(BFromBE(KXDA), BFromBE(KXRA), Mul(KXRA, G), PBx, Mul(KXRB, G), ZA(ID16, PAx), ZA(ID16, PBx), 16) = KxAnnexB
=============================================================================
