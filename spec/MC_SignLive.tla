----------------------------- MODULE MC_SignLive -----------------------------
(***************************************************************************)
(* E1 for C20 (termination): the retry loop of SM2 signing on a toy group   *)
(* Z_n "in the exponent" (x([k]G) modelled by an arbitrary injective-ish     *)
(* function of k).  A private key d is admitted by the constructor iff       *)
(* d in [1, n-2] (MAXD = n-2); the loop draws k, computes r = (e + x1) mod n *)
(* and s = (1+d)^-1 (k - r d) mod n and retries on r = 0, r + k = n, s = 0.   *)
(* Under a fair source (every k is drawn again and again) signing terminates *)
(* for every admitted key and digest.  Negative configuration MAXD = n-1:    *)
(* for d = n-1, (1+d)^-1 = 0, s is always 0 and TLC exhibits the lasso.      *)
(***************************************************************************)
EXTENDS Integers, TLC
CONSTANTS n, MAXD
RECURSIVE PowN(_,_)
PowN(x, e) == IF e = 0 THEN 1 ELSE (x * PowN(x, e-1)) % n
InvN(x) == PowN(x, n-2)
X1(k) == ((k * k) + 1) % n                 \* stand-in for x([k]G) mod n
VARIABLES sl_d, sl_e, sl_phase, sl_sig
vars == <<sl_d, sl_e, sl_phase, sl_sig>>
Init == sl_d \in 1..MAXD /\ sl_e \in 0..(n-1) /\ sl_phase = "loop" /\ sl_sig = <<0,0>>
R(k) == (sl_e + X1(k)) % n
S(k) == (InvN((1 + sl_d) % n) * (((k - (R(k) * sl_d)) % n) + n)) % n
Good(k) == R(k) # 0 /\ (R(k) + k) # n /\ S(k) # 0
Draw(k) == /\ sl_phase = "loop"
           /\ IF Good(k) THEN sl_phase' = "done" /\ sl_sig' = <<R(k), S(k)>> ELSE UNCHANGED <<sl_phase, sl_sig>>
           /\ UNCHANGED <<sl_d, sl_e>>
Next == \E k \in 1..(n-1) : Draw(k)
Spec == Init /\ [][Next]_vars /\ \A k \in 1..(n-1) : SF_vars(Draw(k) /\ Good(k))
Terminates == <>(sl_phase = "done")
SigInRange == sl_phase = "done" => sl_sig[1] \in 1..(n-1) /\ sl_sig[2] \in 1..(n-1)
=============================================================================
