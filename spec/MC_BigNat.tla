----------------------------- MODULE MC_BigNat -----------------------------
(***************************************************************************)
(* Cross-check of the Java overrides of BigNat against the pure TLA+         *)
(* definitions, on boundary operands (0, 1, 255, 256, 2^64-1, 2^64, values   *)
(* around the SM2/SM9 moduli) and a pseudo-random family, all pairs.         *)
(***************************************************************************)
EXTENDS BigNat
P2 == <<\hFF,\hFF,\hFF,\hFE,\hFF,\hFF,\hFF,\hFF,\hFF,\hFF,\hFF,\hFF,\hFF,\hFF,\hFF,\hFF,\hFF,\hFF,\hFF,\hFF,\h00,\h00,\h00,\h00,\hFF,\hFF,\hFF,\hFF,\hFF,\hFF,\hFF,\hFF>>
N2 == <<\hFF,\hFF,\hFF,\hFE,\hFF,\hFF,\hFF,\hFF,\hFF,\hFF,\hFF,\hFF,\hFF,\hFF,\hFF,\hFF,\h72,\h03,\hDF,\h6B,\h21,\hC6,\h05,\h2B,\h53,\hBB,\hF4,\h09,\h39,\hD5,\h41,\h23>>
Rnd(seed, n) == Canon([j \in 1..n |-> ((seed * 73 + j * 151 + (j * j * 7)) % 256)])
CONSTANT Small
OpsFull == { <<>>, <<1>>, <<255>>, <<1,0>>, <<255,255,255,255,255,255,255,255>>, <<1,0,0,0,0,0,0,0,0>>,
         P2, N2, BSubDef(P2, <<1>>), Rnd(1, 32), Rnd(3, 31), Rnd(4, 17), Rnd(5, 40) }
Ops == IF Small THEN { <<>>, <<1>>, <<255,255,255,255,255,255,255,255>>, N2, Rnd(4, 17) } ELSE OpsFull
Mods == IF Small THEN { <<1,1>>, N2 } ELSE { <<7>>, <<1,1>>, P2, N2 }
VARIABLES ba, bb, bphase
Init == ba = <<>> /\ bb = <<>> /\ bphase = "pick"
\* enumeration in Next so that the workers share it
Next == bphase = "pick" /\ \E x \in Ops, y \in Ops : ba' = x /\ bb' = y /\ bphase' = "check"
Basic == bphase = "check" =>
         /\ BCmp(ba, bb) = BCmpDef(ba, bb)
         /\ BAdd(ba, bb) = BAddDef(ba, bb)
         /\ (BGeqDef(ba, bb) => BSub(ba, bb) = BSubDef(ba, bb))
         /\ BMul(ba, bb) = BMulDef(ba, bb)
         /\ BBitLen(ba) = BBitLenDef(ba)
         /\ BFromBE(<<0, 0>> \o ba) = ba /\ BToBE(ba, 70) = BToBEDef(ba, 70) /\ BToBE(ba, 8) = BToBEDef(ba, 8)
         /\ \A b \in {0, 1, 7, 8, 63, 64, 255, 256} : BBit(ba, b) = BBitDef(ba, b)
Modular == bphase = "check" => \A m \in Mods :
                           /\ BMod(ba, m) = BModDef(ba, m)
                           /\ BAddMod(ba, bb, m) = BAddModDef(ba, bb, m)
                           /\ BSubMod(ba, bb, m) = BSubModDef(ba, bb, m)
                           /\ BMulMod(ba, bb, m) = BMulModDef(ba, bb, m)
Power == bphase = "check" /\ Len(bb) <= 1 => \A m \in Mods : BPowMod(ba, bb, m) = BPowModDef(ba, bb, m)
Inv == Basic /\ Modular /\ Power
\* Fermat sanity of the pure definition at full width (one evaluation): 3^(p-1) = 1 mod p -- keeps BPowModDef honest
ASSUME BPowMod(<<3>>, BSubDef(P2, <<1>>), P2) = <<1>>
ASSUME Small \/ BPowModDef(<<3>>, <<1, 0, 1>>, P2) = BPowMod(<<3>>, <<1, 0, 1>>, P2)
=============================================================================
