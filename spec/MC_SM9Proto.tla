----------------------------- MODULE MC_SM9Proto -----------------------------
(***************************************************************************)
(* E1 for C10 / C17: SM9 encryption and key exchange in a bilinear group    *)
(* "in the exponent": G1 = G2 = GT = Z_N (N prime), generators = 1,          *)
(* e(a, b) = a*b mod N, g^x = g*x.  H1 is an arbitrary function table        *)
(* (all tables explored), KDF and MAC are free constructors.  A channel      *)
(* adversary may replace C1 / C2 / C3 (encryption) or R_A / R_B (exchange)   *)
(* by ANY other value, or by OFF (a point that is not on the curve).         *)
(*  enc:  Dec(Enc(M)) = M for all ke, h, r, M; a ciphertext with any         *)
(*        replaced component is rejected unless KEYCHECK is dropped ...      *)
(*  kex:  untampered => SK_A = SK_B; a replaced R makes the two keys differ; *)
(*        OFF is rejected by its receiver.                                   *)
(* Negative configurations: NOMAC (decryption without the C3 comparison) and *)
(* NOCURVE (no on-curve test of the received point) must be refuted.         *)
(***************************************************************************)
EXTENDS Integers, TLC
CONSTANTS N, MODE, NOMAC, NOCURVE
Z == 0..(N-1)
Zs == 1..(N-1)
OFF == -1
RECURSIVE PowN(_,_)
PowN(x, e) == IF e = 0 THEN 1 ELSE (x * PowN(x, e-1)) % N
InvN(x) == PowN(x, N-2)
KDF(c1, w, id) == <<"KDF", c1, w, id>>
MACf(k, c2) == <<"MAC", k, c2>>
Xor(m, k) == <<"XOR", m, k>>                 \* free constructor: C2 = M xor K1;  Unxor recovers M only with the same K
Unxor(c2, k) == IF c2[1] = "XOR" /\ c2[3] = k THEN c2[2] ELSE <<"garbage", c2, k>>
VARIABLES pke, ph, pr, pr2, pmsg, pc, pt1, pt2, pout
vars == <<pke, ph, pr, pr2, pmsg, pc, pt1, pt2, pout>>
Init == /\ pke \in Zs /\ ph \in [{"A", "B"} -> Zs] /\ (ph["A"] + pke) % N # 0 /\ (ph["B"] + pke) % N # 0
        /\ pr \in Zs /\ pr2 \in Zs /\ pmsg \in {1, 2} /\ pc = "start" /\ pt1 = "none" /\ pt2 = "none" /\ pout = <<>>
De(id) == (pke * InvN((ph[id] + pke) % N)) % N                 \* extracted key of id (exponent of P2)
Q(id) == (ph[id] + pke) % N                                   \* Q_id = [H1(id)]P1 + Ppub-e
\* ---- encryption to B ----
C1v == (pr * Q("B")) % N
Wv == (pke * pr) % N                                          \* g^r, g = e(Ppub-e, P2) = ke
EncOut == <<C1v, Xor(pmsg, <<"K1", KDF(C1v, Wv, "B")>>), MACf(<<"K2", KDF(C1v, Wv, "B")>>, Xor(pmsg, <<"K1", KDF(C1v, Wv, "B")>>))>>
Dec(c1, c2, c3) == IF c1 = OFF /\ ~NOCURVE THEN <<"err">>
                   ELSE LET c1v == IF c1 = OFF THEN 3 ELSE c1           \* an unchecked off-curve point is still "computed with"
                            w == (c1v * De("B")) % N
                            k == KDF(c1v, w, "B")
                        IN IF ~NOMAC /\ MACf(<<"K2", k>>, c2) # c3 THEN <<"err">> ELSE <<"ok", Unxor(c2, <<"K1", k>>)>>
TamperEnc == /\ pc = "start" /\ MODE = "enc"
             /\ \/ pt1' = "none" /\ pout' = Dec(EncOut[1], EncOut[2], EncOut[3])
                \/ \E v \in (Z \cup {OFF}) \ {EncOut[1]} : pt1' = "C1" /\ pout' = Dec(v, EncOut[2], EncOut[3])
                \/ pt1' = "C2" /\ pout' = Dec(EncOut[1], Xor(3 - pmsg, <<"K1", KDF(C1v, Wv, "B")>>), EncOut[3])
                \/ pt1' = "C3" /\ pout' = Dec(EncOut[1], EncOut[2], <<"junk">>)
             /\ pc' = "done" /\ UNCHANGED <<pke, ph, pr, pr2, pmsg, pt2>>
EncRoundTrip == pc = "done" /\ MODE = "enc" /\ pt1 = "none" => pout = <<"ok", pmsg>>
EncTamper == pc = "done" /\ MODE = "enc" /\ pt1 # "none" => pout = <<"err">>
\* ---- key exchange A (initiator, rA = pr) <-> B (responder, rB = pr2) ----
RAv == (pr * Q("B")) % N
RBv == (pr2 * Q("A")) % N
KeyB(ra) == IF ra = OFF /\ ~NOCURVE THEN <<"err">>
            ELSE LET rav == IF ra = OFF THEN 3 ELSE ra
                     g1 == (rav * De("B")) % N   g2 == (pke * pr2) % N   g3 == (g1 * pr2) % N
                 IN <<"ok", <<"SK", "A", "B", ra, RBv, g1, g2, g3>>>>
KeyA(rb) == IF rb = OFF /\ ~NOCURVE THEN <<"err">>
            ELSE LET rbv == IF rb = OFF THEN 3 ELSE rb
                     g1 == (pke * pr) % N   g2 == (rbv * De("A")) % N   g3 == (g2 * pr) % N
                 IN <<"ok", <<"SK", "A", "B", RAv, rb, g1, g2, g3>>>>
TamperKex == /\ pc = "start" /\ MODE = "kex"
             /\ \E a \in {RAv} \cup ((Z \cup {OFF}) \ {RAv}), b \in {RBv} \cup ((Z \cup {OFF}) \ {RBv}) :
                   /\ pt1' = (IF a = RAv THEN "none" ELSE IF a = OFF THEN "off" ELSE "other")
                   /\ pt2' = (IF b = RBv THEN "none" ELSE IF b = OFF THEN "off" ELSE "other")
                   /\ pout' = <<KeyA(b), KeyB(a)>>
             /\ pc' = "done" /\ UNCHANGED <<pke, ph, pr, pr2, pmsg>>
KexAgree == pc = "done" /\ MODE = "kex" /\ pt1 = "none" /\ pt2 = "none" => pout[1][1] = "ok" /\ pout[1] = pout[2]
KexTamper == pc = "done" /\ MODE = "kex" /\ (pt1 # "none" \/ pt2 # "none") => (pout[1] # pout[2] \/ (pout[1][1] = "err" /\ pout[2][1] = "err"))
KexOffCurve == pc = "done" /\ MODE = "kex" => (pt1 = "off" => pout[2] = <<"err">>) /\ (pt2 = "off" => pout[1] = <<"err">>)
Next == TamperEnc \/ TamperKex
Inv == EncRoundTrip /\ EncTamper /\ KexAgree /\ KexTamper /\ KexOffCurve
=============================================================================
