--------------------------------- MODULE BN ---------------------------------
(***************************************************************************)
(* The SM9 pairing setting (GM/T 0044.1), textbook-shaped (L0):             *)
(*   Fp12 = Fp[w]/(w^12 + 2)  -- one polynomial ring, NOT the code's tower; *)
(*   the tower u = w^6, v = w^3 is only an embedding (Emb2/Emb4);           *)
(*   G1 = E(Fp): y^2 = x^3 + 5;  G2 = E'(Fp2): y^2 = x^3 + 5u (affine);      *)
(*   R-ate pairing: Miller loop over 6t+2 with lines evaluated through the  *)
(*   untwist psi(x,y) = (x w^-2, y w^-3), two Frobenius steps, final        *)
(*   exponent (p^12-1)/N BY DEFINITION (one big power).                      *)
(* Constants (p, N, 6t+2, (p^12-1)/N, generators) are in BNC.tla.            *)
(***************************************************************************)
EXTENDS BigNat, BNC
Z0 == <<>>
One == <<1>>
Two == <<2>>
Three == <<3>>
Five == <<5>>
Mul(a,b) == BMulMod(a,b,P)
Add(a,b) == BAddMod(a,b,P)
Sub(a,b) == BSubMod(a,b,P)
Neg(a) == BSubMod(Z0,a,P)
Inv(a) == BPowMod(a, PM2, P)
B32(x) == BToBE(x, 32)
\* ---- Fp2 = Fp[u]/(u^2+2), element <<a0,a1>> ----
F2Mul(a,b) == << Sub(Mul(a[1],b[1]), Mul(Two, Mul(a[2],b[2]))), Add(Mul(a[1],b[2]), Mul(a[2],b[1])) >>
F2Add(a,b) == << Add(a[1],b[1]), Add(a[2],b[2]) >>
F2Sub(a,b) == << Sub(a[1],b[1]), Sub(a[2],b[2]) >>
F2Neg(a) == << Neg(a[1]), Neg(a[2]) >>
F2InvD(a,d) == << Mul(a[1],d), Neg(Mul(a[2],d)) >>
F2Inv(a) == F2InvD(a, Inv(Add(Mul(a[1],a[1]), Mul(Two, Mul(a[2],a[2])))))
F2Conj(a) == << a[1], Neg(a[2]) >>
F2Scale(a,k) == << Mul(a[1],k), Mul(a[2],k) >>
F2Zero == <<Z0, Z0>>
\* ---- Fp12 = Fp[w]/(w^12+2): 12-tuple, index i+1 holds the coefficient of w^i ----
RECURSIVE SumTo(_,_,_,_)
SumTo(a, b, k, i) == IF i > 11 THEN Z0 ELSE
   IF k - i < 0 \/ k - i > 11 THEN SumTo(a,b,k,i+1) ELSE Add(Mul(a[i+1], b[k-i+1]), SumTo(a,b,k,i+1))
Red12(c) == TLCEval([k \in 1..12 |-> IF k <= 11 THEN Sub(c[k-1], Add(c[k+11], c[k+11])) ELSE c[11]])
F12Mul(a,b) == Red12(TLCEval([k \in 0..22 |-> SumTo(a,b,k,0)]))
F12One == TLCEval([k \in 1..12 |-> IF k = 1 THEN One ELSE Z0])
F12Zero == TLCEval([k \in 1..12 |-> Z0])
F12Add(a,b) == TLCEval([i \in 1..12 |-> Add(a[i], b[i])])
F12Sub(a,b) == TLCEval([i \in 1..12 |-> Sub(a[i], b[i])])
F12Neg(a) == TLCEval([i \in 1..12 |-> Neg(a[i])])
RECURSIVE PowBits(_,_,_,_)
PowBits(acc, a, byte, j) == IF j < 0 THEN acc ELSE
   PowBits(IF (byte \div (2^j)) % 2 = 1 THEN F12Mul(F12Mul(acc,acc), a) ELSE F12Mul(acc,acc), a, byte, j-1)
RECURSIVE PowBytes(_,_,_,_,_)
PowBytes(acc, a, e, from, to) == IF from > to THEN acc ELSE PowBytes(PowBits(acc, a, e[from], 7), a, e, from+1, to)
RECURSIVE PowGroups(_,_,_,_)
PowGroups(acc, a, e, g) == IF (g-1)*16 >= Len(e) THEN acc ELSE
   PowGroups(PowBytes(acc, a, e, (g-1)*16+1, IF g*16 < Len(e) THEN g*16 ELSE Len(e)), a, e, g+1)
F12Pow(a, e) == PowGroups(F12One, a, e, 1)                    \* e: big-endian bytes / digits
\* inverse by the norm-free definition: a^(p^12 - 2) is too long; use x with a*x = 1 found as a^(N_inv) is not available either.
\* The specification therefore never inverts in Fp12 directly; verdicts about inversion are stated multiplicatively (a * out = 1).
\* embeddings of the tower: Fp2 (b0 + b1 u) -> b0 + b1 w^6 ; Fp4 (a0 + a1 v) -> a0 + a1 w^3 ; Fp2 * w^k
Emb(a, k) == TLCEval([i \in 1..12 |-> IF i = k+1 THEN a[1] ELSE IF i = k+7 THEN a[2] ELSE Z0])
Emb2(a) == Emb(a, 0)
Emb4(a) == F12Add(Emb(a[1], 0), Emb(a[2], 3))               \* a = <<a0, a1>>, each an Fp2 pair
Emb12(c) == F12Add(F12Add(Emb4(c[1]), F12Mul(Emb4(c[2]), Emb(<<One,Z0>>, 1))), F12Mul(Emb4(c[3]), Emb(<<One,Z0>>, 2)))     \* c0 + c1 w + c2 w^2
\* library / standard byte order of GT elements: coefficients of w^(6k+3j+i) for i = 2,1,0 ; j = 1,0 ; k = 1,0
F12Bytes(e) == B32(e[12]) \o B32(e[6]) \o B32(e[9]) \o B32(e[3]) \o B32(e[11]) \o B32(e[5]) \o B32(e[8]) \o B32(e[2]) \o B32(e[10]) \o B32(e[4]) \o B32(e[7]) \o B32(e[1])
Chunk(b, j) == BFromBE(SubSeq(b, 32*(j-1)+1, 32*j))
F12FromBytes(b) == << Chunk(b,12), Chunk(b,8), Chunk(b,4), Chunk(b,10), Chunk(b,6), Chunk(b,2), Chunk(b,11), Chunk(b,7), Chunk(b,3), Chunk(b,9), Chunk(b,5), Chunk(b,1) >>
F2FromBytes(b) == << BFromBE(SubSeq(b, 33, 64)), BFromBE(SubSeq(b, 1, 32)) >>                    \* bytes are c1 || c0
F2Bytes(a) == B32(a[2]) \o B32(a[1])
F4FromBytes(b) == << F2FromBytes(SubSeq(b, 65, 128)), F2FromBytes(SubSeq(b, 1, 64)) >>
F4Bytes(a) == F2Bytes(a[2]) \o F2Bytes(a[1])
\* ---- G1: y^2 = x^3 + 5 over Fp (affine, Inf) ----
Inf == <<"inf">>
G1OnCurve(pt) == pt = Inf \/ (BLt(pt[1], P) /\ BLt(pt[2], P) /\ Mul(pt[2],pt[2]) = Add(Mul(Mul(pt[1],pt[1]),pt[1]), Five))
G1S3(p, l, x3) == <<x3, Sub(Mul(l, Sub(p[1], x3)), p[2])>>
G1D2(p, l) == G1S3(p, l, Sub(Sub(Mul(l,l), p[1]), p[1]))
G1Dbl(p) == IF p = Inf \/ p[2] = Z0 THEN Inf ELSE G1D2(p, Mul(Mul(Three, Mul(p[1],p[1])), Inv(Mul(Two, p[2]))))
G1A2(p, q, l) == G1S3(p, l, Sub(Sub(Mul(l,l), p[1]), q[1]))
G1Add(p, q) == IF p = Inf THEN q ELSE IF q = Inf THEN p ELSE
   IF p[1] = q[1] THEN (IF p[2] = q[2] THEN G1Dbl(p) ELSE Inf) ELSE G1A2(p, q, Mul(Sub(q[2], p[2]), Inv(Sub(q[1], p[1]))))
G1Neg(p) == IF p = Inf THEN Inf ELSE <<p[1], Neg(p[2])>>
RECURSIVE G1Bits(_,_,_,_)
G1Bits(acc, p, byte, j) == IF j < 0 THEN acc ELSE G1Bits(IF (byte \div (2^j)) % 2 = 1 THEN G1Add(G1Dbl(acc), p) ELSE G1Dbl(acc), p, byte, j-1)
RECURSIVE G1Bytes(_,_,_,_)
G1Bytes(acc, p, k, i) == IF i > Len(k) THEN acc ELSE G1Bytes(G1Bits(acc, p, k[i], 7), p, k, i+1)
G1Mul(k, p) == G1Bytes(Inf, p, k, 1)                          \* k: big-endian bytes / digits
\* ---- G2: the twist E': y^2 = x^3 + 5u over Fp2 (affine, Inf) ----
TwistB == <<Z0, Five>>
G2OnCurve(q) == q = Inf \/ F2Mul(q[2], q[2]) = F2Add(F2Mul(F2Mul(q[1], q[1]), q[1]), TwistB)
TStep3(T, l, x3) == << <<x3, F2Sub(F2Mul(l, F2Sub(T[1],x3)), T[2])>>, l >>
TDbl2(T, l) == TStep3(T, l, F2Sub(F2Mul(l,l), F2Add(T[1],T[1])))
TDbl(T) == TDbl2(T, F2Mul(F2Mul(<<Three,Z0>>, F2Mul(T[1],T[1])), F2Inv(F2Mul(<<Two,Z0>>, T[2]))))       \* <<2T, slope>>
TAdd2(T, Q, l) == TStep3(T, l, F2Sub(F2Sub(F2Mul(l,l), T[1]), Q[1]))
TAdd(T,Q) == TAdd2(T, Q, F2Mul(F2Sub(Q[2],T[2]), F2Inv(F2Sub(Q[1],T[1]))))                               \* <<T+Q, slope>>, T # +-Q
TNeg(Q) == IF Q = Inf THEN Inf ELSE << Q[1], F2Neg(Q[2]) >>
G2Dbl(q) == IF q = Inf \/ q[2] = F2Zero THEN Inf ELSE TDbl(q)[1]
G2Add(a, b) == IF a = Inf THEN b ELSE IF b = Inf THEN a ELSE IF a[1] = b[1] THEN (IF a[2] = b[2] THEN G2Dbl(a) ELSE Inf) ELSE TAdd(a, b)[1]
RECURSIVE G2Bits(_,_,_,_)
G2Bits(acc, q, byte, j) == IF j < 0 THEN acc ELSE G2Bits(IF (byte \div (2^j)) % 2 = 1 THEN G2Add(G2Dbl(acc), q) ELSE G2Dbl(acc), q, byte, j-1)
RECURSIVE G2Bytes(_,_,_,_)
G2Bytes(acc, q, k, i) == IF i > Len(k) THEN acc ELSE G2Bytes(G2Bits(acc, q, k[i], 7), q, k, i+1)
G2Mul(k, q) == G2Bytes(Inf, q, k, 1)
GenG1 == <<P1X, P1Y>>
GenG2 == << <<P2X0,P2X1>>, <<P2Y0,P2Y1>> >>
\* ---- R-ate pairing ----
\* line through the untwisted points, evaluated at P in G1 and scaled by w^3:  yP w^3 - lambda xP w^2 + (lambda xT - yT)
Line(T, l, Pt) == F12Add(F12Add(Emb(<<Pt[2],Z0>>, 3), Emb(F2Scale(l, Neg(Pt[1])), 2)), Emb(F2Sub(F2Mul(l,T[1]), T[2]), 0))
Gamma == BPowMod(Neg(Two), GAMMAEXP, P)                       \* w^(p-1) = (-2)^((p-1)/12)
GI == Inv(Gamma)
Frob1(Q) == << F2Scale(F2Conj(Q[1]), Mul(GI,GI)), F2Scale(F2Conj(Q[2]), Mul(GI,Mul(GI,GI))) >>      \* pi(Q) on the twist
RECURSIVE Miller(_,_,_,_,_)
MAddStep(f1, T2, a, Q, Pt, i) == Miller(F12Mul(f1, Line(T2, a[2], Pt)), a[1], Q, Pt, i-1)
MDblStep(f, T, d, Q, Pt, i) ==
   IF BBit(LOOP, i) = 1
   THEN MAddStep(F12Mul(F12Mul(f,f), Line(T, d[2], Pt)), d[1], TAdd(d[1], Q), Q, Pt, i)
   ELSE Miller(F12Mul(F12Mul(f,f), Line(T, d[2], Pt)), d[1], Q, Pt, i-1)
Miller(f, T, Q, Pt, i) == IF i < 0 THEN <<f, T>> ELSE MDblStep(f, T, TDbl(T), Q, Pt, i)
Fin2(f1, a1, a2, Pt) == F12Mul(f1, Line(a1[1], a2[2], Pt))
Fin1(m, a1, Q2, Pt) == Fin2(F12Mul(m[1], Line(m[2], a1[2], Pt)), a1, TAdd(a1[1], Q2), Pt)
Fin0(m, Q1, Q2, Pt) == Fin1(m, TAdd(m[2], Q1), Q2, Pt)
PairingPre(Pt, Q) == Fin0(Miller(F12One, Q, Q, Pt, BBitLen(LOOP) - 2), Frob1(Q), TNeg(Frob1(Frob1(Q))), Pt)
\* e(P, Q) for P in G1 \ {O}, Q in G2 \ {O}; 1 if either is the point at infinity
Pairing(Pt, Q) == IF Pt = Inf \/ Q = Inf THEN F12One ELSE F12Pow(PairingPre(Pt,Q), FEXP)
=============================================================================
