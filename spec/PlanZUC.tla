------------------------------ MODULE PlanZUC ------------------------------
(***************************************************************************)
(* E2 plan generator for C08 (histories): the request layer of the ZUC      *)
(* generator.  State: the list of request sizes so far.  TLC enumerates     *)
(* EVERY composition of EVERY total <= TOTAL into request sizes, with up to *)
(* ZMAX interspersed zero-length requests; each is printed as a plan and    *)
(* replayed on one real generator; TraceZUC judges every request.           *)
(***************************************************************************)
EXTENDS Naturals, Sequences, TLC, Json
CONSTANTS TOTAL, ZMAX
VARIABLES preqs, pproduced, pzeros
PInit == preqs = <<>> /\ pproduced = 0 /\ pzeros = 0
Req(n) == /\ pproduced + n <= TOTAL /\ (n = 0 => pzeros < ZMAX)
          /\ preqs' = Append(preqs, n) /\ pproduced' = pproduced + n /\ pzeros' = IF n = 0 THEN pzeros + 1 ELSE pzeros
PNext == \E n \in 0..TOTAL : Req(n)
Emit == preqs # <<>> => PrintT(<<"PLAN", ToJson([reqs |-> preqs])>>)
=============================================================================
