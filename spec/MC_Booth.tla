---------------------------- MODULE MC_Booth ----------------------------
(* E1 for C13: the signed-window recoding of gm-sm9/src/u256.rs::sm9_u256_get_booth on scalars of LIMBS limbs of LB bits,
   window size W: the digits reconstruct the scalar and lie in [-2^(W-1), 2^(W-1)]; the top digit is non-negative. *)
EXTENDS Integers, TLC
CONSTANTS LB, LIMBS, W
BITS == LB * LIMBS
NWIN == (BITS + W - 1) \div W
Mask == 2^W - 1
Limb(k, n) == (k \div (2^(LB*n))) % (2^LB)
Band(x, m) == x % (m + 1)                       \* x & (2^W - 1)
Shl(x, s) == (x * (2^s)) % (2^LB)                \* limb-wide left shift (wrapping, as u64 <<)
Booth(k, i) ==
  IF i = 0 THEN Band(Shl(Limb(k,0), 1), Mask) - Band(Limb(k,0), Mask)
  ELSE LET j0 == i * W - 1
           n == j0 \div LB
           j == j0 % LB
           w0 == Limb(k, n) \div (2^j)
           wbits == IF (LB - j) < (W + 1) /\ n < LIMBS - 1
                    THEN w0 + Shl(Limb(k, n+1), LB - j)       \* `|=` of disjoint bit ranges
                    ELSE w0
       IN Band(wbits, Mask) - Band(wbits \div 2, Mask)
RECURSIVE Recon(_,_)
Recon(k, i) == IF i = NWIN THEN 0 ELSE Booth(k, i) * (2^(W*i)) + Recon(k, i+1)
VARIABLE bk
Init == bk = -1
Next == bk = -1 /\ bk' \in 0..(2^BITS - 1)
Reconstructs == bk >= 0 => Recon(bk, 0) = bk
InRange == bk >= 0 => \A i \in 0..(NWIN-1) : Booth(bk, i) >= -(2^(W-1)) /\ Booth(bk, i) <= 2^(W-1)
TopNonNeg == bk >= 0 => Booth(bk, NWIN-1) >= 0
=====================================================================
