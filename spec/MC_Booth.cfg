CONSTANTS LB = 4 LIMBS = 4 W = 3
INIT Init
NEXT Next
INVARIANTS Reconstructs InRange TopNonNeg
CHECK_DEADLOCK FALSE
