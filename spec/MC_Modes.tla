------------------------------ MODULE MC_Modes ------------------------------
(***************************************************************************)
(* E1 for C07: BlockModes over a toy cipher -- blocks of B = 2 symbols of 2 *)
(* bits (16 block values), a family of keyed permutations                    *)
(*   E(k, n) = PI[(n * (2*(k % 8) + 1) + (k \div 8)) % 16]   (PI non-linear) *)
(* with D its inverse BY DEFINITION (CHOOSE).  For every mode, key, IV and   *)
(* EVERY data string of 0..MaxLen symbols:                                   *)
(*   round trip, output lengths, totality of decryption on arbitrary input, *)
(*   IV-length rule; and the counter law +1 mod SYM^B incl. wrap-around.     *)
(***************************************************************************)
EXTENDS Naturals, Sequences, Bitwise, TLC, FiniteSets
CONSTANTS MaxLen, Keys, BADCTR, LocalMax        \* the local-form agreement is checked for data strings of at most LocalMax symbols
TB == 2
TSYM == 4
PI == <<7, 12, 1, 10, 15, 4, 9, 2, 11, 0, 13, 6, 3, 8, 5, 14>>      \* a fixed permutation of 0..15 (index n+1)
Num(b) == b[1] * 4 + b[2]
Blk2(n) == <<n \div 4, n % 4>>
TE(key, b) == Blk2(PI[((Num(b) * (2 * (key % 8) + 1) + (key \div 8)) % 16) + 1])
TD(key, c) == CHOOSE b \in (0..3) \X (0..3) : TE(key, b) = c
TXor(a, b) == a ^^ b
M == INSTANCE BlockModes WITH B <- TB, SYM <- TSYM, E <- TE, D <- TD, SymXor <- TXor
ASSUME \A key \in Keys : \A c \in (0..3) \X (0..3) : \E b \in (0..3) \X (0..3) : TE(key, b) = c     \* every E(k,.) is a permutation
Modes == {"cbc", "cfb", "ofb", "ctr"}
VARIABLES mmode, mkey, miv, mdata, mphase
Init == mmode \in Modes /\ mkey \in Keys /\ miv = <<>> /\ mdata = <<>> /\ mphase = "iv"
Next == \/ mphase = "iv" /\ \E v \in (0..3) \X (0..3) : miv' = v /\ mphase' = "data" /\ UNCHANGED <<mmode, mkey, mdata>>
        \/ mphase = "data" /\ mdata' = <<>> /\ mphase' = "grow" /\ UNCHANGED <<mmode, mkey, miv>>
        \/ mphase = "grow" /\ Len(mdata) < MaxLen /\ \E s \in 0..3 : mdata' = Append(mdata, s) /\ UNCHANGED <<mmode, mkey, miv, mphase>>
RoundTrip2(ct) == /\ M!DecOutcome(mmode, mkey, miv, ct) = <<"ok", mdata>>
                  /\ Len(ct) = IF mmode = "cbc" THEN TB * ((Len(mdata) \div TB) + 1) ELSE Len(mdata)
RoundTrip == mphase = "grow" => RoundTrip2(M!ModeEnc(mmode, mkey, miv, mdata))
\* decryption is total on arbitrary input (mdata read as a ciphertext) and errs exactly on bad length / bad final byte
DecTotal2(o) == /\ o[1] \in {"ok", "err"}
                /\ (mmode # "cbc" => o[1] = "ok" /\ Len(o[2]) = Len(mdata))
                /\ (mmode = "cbc" /\ (Len(mdata) = 0 \/ Len(mdata) % TB # 0) => o = <<"err">>)
                /\ (mmode = "cbc" /\ o[1] = "ok" => Len(o[2]) < Len(mdata) /\ Len(mdata) - Len(o[2]) \in 1..TB)
DecTotal == mphase = "grow" => DecTotal2(M!DecOutcome(mmode, mkey, miv, mdata))
IvRule == mphase = "grow" => \A bad \in {<<>>, <<1>>, <<1,2,3>>} :
              M!EncOutcome(mmode, mkey, bad, mdata) = <<"err">> /\ M!DecOutcome(mmode, mkey, bad, mdata) = <<"err">>
\* counter law, with a deliberately wrong increment (no carry) for the negative configuration
BadInc(c) == [c EXCEPT ![TB] = (c[TB] + 1) % TSYM]
CtrLaw == \A c \in (0..3) \X (0..3) : Num(IF BADCTR THEN BadInc(c) ELSE M!CtrNext(c)) = (Num(c) + 1) % 16
ASSUME BADCTR \/ CtrLaw
\* the LOCAL form (used by the trace specification for large inputs) accepts exactly the recursive result: for the right output, for every single-symbol
\* alteration of it, for a wrong length, and -- up to 3 symbols -- for EVERY candidate string; both directions (mdata read as plaintext and as ciphertext)
Alter(o, pos, v) == [o EXCEPT ![pos] = v]
Cands(o) == {o} \cup {Alter(o, pos, v) : pos \in 1..Len(o), v \in 0..3} \cup {o \o <<0>>} \cup (IF Len(o) > 0 THEN {SubSeq(o, 1, Len(o) - 1)} ELSE {})
                \cup (IF Len(o) <= 3 THEN UNION {[1..n -> 0..3] : n \in 0..3} ELSE {})
EncLocalAgrees2(ct) == \A o \in Cands(ct) : M!EncLocalOK(mmode, mkey, miv, mdata, "ok", o) = (o = ct)
EncLocalAgrees == mphase = "grow" /\ Len(mdata) <= LocalMax => EncLocalAgrees2(M!ModeEnc(mmode, mkey, miv, mdata)) /\ ~M!EncLocalOK(mmode, mkey, miv, mdata, "err", <<>>)
DecLocalAgrees2(x) == IF x[1] = "err" THEN M!DecLocalOK(mmode, mkey, miv, mdata, "err", <<>>) /\ ~M!DecLocalOK(mmode, mkey, miv, mdata, "ok", <<>>)
                      ELSE (\A o \in Cands(x[2]) : M!DecLocalOK(mmode, mkey, miv, mdata, "ok", o) = (o = x[2])) /\ ~M!DecLocalOK(mmode, mkey, miv, mdata, "err", <<>>)
DecLocalAgrees == mphase = "grow" /\ Len(mdata) <= LocalMax => DecLocalAgrees2(M!DecOutcome(mmode, mkey, miv, mdata))
LocalIvRule == mphase = "grow" /\ Len(mdata) <= LocalMax => \A bad \in {<<>>, <<1>>, <<1,2,3>>} : M!EncLocalOK(mmode, mkey, bad, mdata, "err", <<>>) /\ ~M!EncLocalOK(mmode, mkey, bad, mdata, "ok", mdata)
                                                                    /\ M!DecLocalOK(mmode, mkey, bad, mdata, "err", <<>>)
AddCtrLaw == \A c \in (0..3) \X (0..3), i \in 0..40 : Num(M!AddCtr(c, i)) = (Num(c) + i) % 16
ASSUME AddCtrLaw
Inv == RoundTrip /\ DecTotal /\ IvRule /\ CtrLaw /\ EncLocalAgrees /\ DecLocalAgrees /\ LocalIvRule
=============================================================================
