CONSTANTS P = 11 B = 10 SYM = 12 DROP = "prefix"
INIT Init
NEXT Next
INVARIANT Inv
CHECK_DEADLOCK FALSE
