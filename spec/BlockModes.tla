----------------------------- MODULE BlockModes -----------------------------
(***************************************************************************)
(* Modes of operation over an arbitrary block cipher, as state machines:    *)
(* CBC with PKCS#7 padding, full-block CFB, OFB, CTR with a big-endian      *)
(* counter over the whole block.  Parametric in the block size B, the       *)
(* symbol range (bytes are 0..SYM-1), and the keyed permutation E/D (given  *)
(* as operators through INSTANCE substitution).  Instantiated with SM4      *)
(* (B=16, SYM=256) by SM4Modes and with toy permutations by MC_Modes.       *)
(* State of a mode = the feedback register; one action per block.           *)
(***************************************************************************)
EXTENDS Naturals, Sequences, TLC
CONSTANTS B, SYM, E(_,_), D(_,_), SymXor(_,_)
XorB(a, b) == [i \in 1..Len(a) |-> SymXor(a[i], b[i])]
Blk(d, i) == SubSeq(d, B*i + 1, B*i + B)                       \* i-th block, 0-based
\* counter: +1 modulo SYM^B, big-endian
RECURSIVE Inc(_,_)
Inc(c, i) == IF i = 0 THEN c ELSE IF c[i] = SYM - 1 THEN Inc([c EXCEPT ![i] = 0], i-1) ELSE [c EXCEPT ![i] = c[i] + 1]
CtrNext(c) == TLCEval(Inc(c, B))
\* PKCS#7
PadLen(d) == B - (Len(d) % B)
Pkcs7(d) == d \o [i \in 1..PadLen(d) |-> PadLen(d)]
\* ---- CBC ----
RECURSIVE CbcE(_,_,_,_,_)
RECURSIVE CbcEStep(_,_,_,_,_)
CbcE(k, d, i, prev, out) == IF B*i >= Len(d) THEN out ELSE CbcEStep(k, d, i, out, E(k, TLCEval(XorB(Blk(d,i), prev))))
CbcEStep(k, d, i, out, c) == CbcE(k, d, i+1, c, out \o c)
CbcEnc(k, iv, d) == CbcE(k, TLCEval(Pkcs7(d)), 0, iv, <<>>)
RECURSIVE CbcD(_,_,_,_,_)
CbcD(k, c, i, prev, out) == IF B*i >= Len(c) THEN out ELSE CbcD(k, c, i+1, Blk(c,i), out \o TLCEval(XorB(D(k, Blk(c,i)), prev)))
\* decryption result: <<"ok", plaintext>> or <<"err">>; only the LAST padding byte is inspected (the property says so)
Unpad(p) == IF Len(p) = 0 THEN <<"err">> ELSE IF p[Len(p)] < 1 \/ p[Len(p)] > B THEN <<"err">> ELSE <<"ok", SubSeq(p, 1, Len(p) - p[Len(p)])>>
CbcDec(k, iv, c) == IF Len(c) = 0 \/ Len(c) % B # 0 THEN <<"err">> ELSE Unpad(CbcD(k, c, 0, iv, <<>>))
\* ---- stream modes: register update differs ----
RECURSIVE Strm(_,_,_,_,_,_,_)
RECURSIVE StrmStep(_,_,_,_,_,_,_,_,_)
RECURSIVE StrmStep2(_,_,_,_,_,_,_,_,_,_)
\* dec = TRUE only matters for CFB (feedback is always the ciphertext)
Strm(mode, dec, k, d, i, reg, out) ==
   IF B*i >= Len(d) THEN out
   ELSE StrmStep(mode, dec, k, d, i, reg, out, E(k, reg), IF B*i + B <= Len(d) THEN B ELSE Len(d) - B*i)
StrmStep(mode, dec, k, d, i, reg, out, ks, ln) == StrmStep2(mode, dec, k, d, i, reg, out, ks, ln, TLCEval(XorB(SubSeq(d, B*i+1, B*i+ln), SubSeq(ks, 1, ln))))
StrmStep2(mode, dec, k, d, i, reg, out, ks, ln, o) ==
   Strm(mode, dec, k, d, i+1,
        IF mode = "cfb" THEN (IF ln < B THEN reg ELSE IF dec THEN SubSeq(d, B*i+1, B*i+B) ELSE o)
        ELSE IF mode = "ofb" THEN ks ELSE CtrNext(reg), out \o o)
ModeEnc(mode, k, iv, d) == IF mode = "cbc" THEN CbcEnc(k, iv, d) ELSE Strm(mode, FALSE, k, d, 0, iv, <<>>)
\* full API-level outcome including the IV-length rule
EncOutcome(mode, k, iv, d) == IF Len(iv) # B THEN <<"err">> ELSE <<"ok", ModeEnc(mode, k, iv, d)>>
DecOutcome(mode, k, iv, c) == IF Len(iv) # B THEN <<"err">> ELSE IF mode = "cbc" THEN CbcDec(k, iv, c) ELSE <<"ok", Strm(mode, TRUE, k, c, 0, iv, <<>>)>>
=============================================================================
