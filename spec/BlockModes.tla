----------------------------- MODULE BlockModes -----------------------------
(***************************************************************************)
(* Modes of operation over an arbitrary block cipher, as state machines:    *)
(* CBC with PKCS#7 padding, full-block CFB, OFB, CTR with a big-endian      *)
(* counter over the whole block.  Parametric in the block size B, the       *)
(* symbol range (bytes are 0..SYM-1), and the keyed permutation E/D (given  *)
(* as operators through INSTANCE substitution).  Instantiated with SM4      *)
(* (B=16, SYM=256) by SM4Modes and with toy permutations by MC_Modes.       *)
(* State of a mode = the feedback register; one action per block.           *)
(***************************************************************************)
EXTENDS Naturals, Sequences, TLC
CONSTANTS B, SYM, E(_,_), D(_,_), SymXor(_,_)
XorB(a, b) == [i \in 1..Len(a) |-> SymXor(a[i], b[i])]
Blk(d, i) == SubSeq(d, B*i + 1, B*i + B)                       \* i-th block, 0-based
\* counter: +1 modulo SYM^B, big-endian
RECURSIVE Inc(_,_)
Inc(c, i) == IF i = 0 THEN c ELSE IF c[i] = SYM - 1 THEN Inc([c EXCEPT ![i] = 0], i-1) ELSE [c EXCEPT ![i] = c[i] + 1]
CtrNext(c) == TLCEval(Inc(c, B))
\* PKCS#7
PadLen(d) == B - (Len(d) % B)
Pkcs7(d) == d \o [i \in 1..PadLen(d) |-> PadLen(d)]
\* ---- CBC ----
RECURSIVE CbcE(_,_,_,_,_)
RECURSIVE CbcEStep(_,_,_,_,_)
CbcE(k, d, i, prev, out) == IF B*i >= Len(d) THEN out ELSE CbcEStep(k, d, i, out, E(k, TLCEval(XorB(Blk(d,i), prev))))
CbcEStep(k, d, i, out, c) == CbcE(k, d, i+1, c, out \o c)
CbcEnc(k, iv, d) == CbcE(k, TLCEval(Pkcs7(d)), 0, iv, <<>>)
RECURSIVE CbcD(_,_,_,_,_)
CbcD(k, c, i, prev, out) == IF B*i >= Len(c) THEN out ELSE CbcD(k, c, i+1, Blk(c,i), out \o TLCEval(XorB(D(k, Blk(c,i)), prev)))
\* decryption result: <<"ok", plaintext>> or <<"err">>; only the LAST padding byte is inspected (the property says so)
Unpad(p) == IF Len(p) = 0 THEN <<"err">> ELSE IF p[Len(p)] < 1 \/ p[Len(p)] > B THEN <<"err">> ELSE <<"ok", SubSeq(p, 1, Len(p) - p[Len(p)])>>
CbcDec(k, iv, c) == IF Len(c) = 0 \/ Len(c) % B # 0 THEN <<"err">> ELSE Unpad(CbcD(k, c, 0, iv, <<>>))
\* ---- stream modes: register update differs ----
RECURSIVE Strm(_,_,_,_,_,_,_)
RECURSIVE StrmStep(_,_,_,_,_,_,_,_,_)
RECURSIVE StrmStep2(_,_,_,_,_,_,_,_,_,_)
\* dec = TRUE only matters for CFB (feedback is always the ciphertext)
Strm(mode, dec, k, d, i, reg, out) ==
   IF B*i >= Len(d) THEN out
   ELSE StrmStep(mode, dec, k, d, i, reg, out, E(k, reg), IF B*i + B <= Len(d) THEN B ELSE Len(d) - B*i)
StrmStep(mode, dec, k, d, i, reg, out, ks, ln) == StrmStep2(mode, dec, k, d, i, reg, out, ks, ln, TLCEval(XorB(SubSeq(d, B*i+1, B*i+ln), SubSeq(ks, 1, ln))))
StrmStep2(mode, dec, k, d, i, reg, out, ks, ln, o) ==
   Strm(mode, dec, k, d, i+1,
        IF mode = "cfb" THEN (IF ln < B THEN reg ELSE IF dec THEN SubSeq(d, B*i+1, B*i+B) ELSE o)
        ELSE IF mode = "ofb" THEN ks ELSE CtrNext(reg), out \o o)
\* ---- LOCAL form of the same definitions.  A string o of the right length IS the mode's output iff every block satisfies the one-step equation
\*      written with the neighbouring blocks of d and o themselves (induction on the block index; for OFB the previous key-stream block is
\*      o xor d of the previous block).  No recursion over the blocks: it evaluates on inputs of any size, each block on its own.
\*      MC_Modes checks, on the toy cipher, that the local form accepts exactly the recursive output (every candidate string up to 3 symbols,
\*      every single-symbol alteration of the right output beyond that). ----
NBlk(n) == (n + B - 1) \div B
BlkP(d, i) == SubSeq(d, B*i + 1, IF B*i + B <= Len(d) THEN B*i + B ELSE Len(d))           \* the i-th block, the last one possibly short
RECURSIVE AddCtrR(_,_,_)
AddCtrR(c, j, carry) == IF j = 0 \/ carry = 0 THEN c ELSE AddCtrR([c EXCEPT ![j] = (c[j] + carry) % SYM], j - 1, (c[j] + carry) \div SYM)
AddCtr(c, i) == TLCEval(AddCtrR(c, B, i))                                                  \* counter + i modulo SYM^B
RegL(mode, dec, iv, d, o, i) == IF mode = "ctr" THEN AddCtr(iv, i) ELSE IF i = 0 THEN iv
                                ELSE IF mode = "cfb" THEN (IF dec THEN Blk(d, i-1) ELSE Blk(o, i-1)) ELSE TLCEval(XorB(Blk(o, i-1), Blk(d, i-1)))
StrmLocal(mode, dec, k, iv, d, o) == Len(o) = Len(d) /\ \A i \in 0..(NBlk(Len(d)) - 1) :
                                        BlkP(o, i) = XorB(BlkP(d, i), SubSeq(E(k, RegL(mode, dec, iv, d, o, i)), 1, Len(BlkP(d, i))))
CbcEncLocal2(k, iv, p, o) == Len(o) = Len(p) /\ \A i \in 0..((Len(p) \div B) - 1) : Blk(o, i) = E(k, XorB(Blk(p, i), IF i = 0 THEN iv ELSE Blk(o, i-1)))
CbcEncLocal(k, iv, d, o) == CbcEncLocal2(k, iv, TLCEval(Pkcs7(d)), o)
\* CBC decryption: the last plaintext block decides the padding; then every block of the output is compared (the last one up to the padding)
CbcPlainBlk(k, iv, c, i) == XorB(D(k, Blk(c, i)), IF i = 0 THEN iv ELSE Blk(c, i-1))
CbcDecLocal3(k, iv, c, o, nb, pad) == IF pad < 1 \/ pad > B THEN <<"err">>
                                      ELSE IF Len(o) = Len(c) - pad /\ (\A i \in 0..(nb - 2) : Blk(o, i) = CbcPlainBlk(k, iv, c, i))
                                              /\ SubSeq(o, B*(nb-1) + 1, Len(o)) = SubSeq(CbcPlainBlk(k, iv, c, nb - 1), 1, B - pad) THEN <<"ok", o>> ELSE <<"ok", <<>>, "differs">>
CbcDecLocal2(k, iv, c, o, nb, lastp) == CbcDecLocal3(k, iv, c, o, nb, lastp[B])
\* <<"err">> | <<"ok", o>> (o is the plaintext) | <<"ok", <<>>, "differs">> (decryption succeeds with another plaintext)
CbcDecLocal(k, iv, c, o) == IF Len(c) = 0 \/ Len(c) % B # 0 THEN <<"err">> ELSE CbcDecLocal2(k, iv, c, o, Len(c) \div B, CbcPlainBlk(k, iv, c, (Len(c) \div B) - 1))
\* API-level: is <<outcome, out>> what the mode produces?  (same meaning as outcome/out = EncOutcome / DecOutcome)
EncLocalOK(mode, k, iv, d, outcome, o) == IF Len(iv) # B THEN outcome = "err"
                                          ELSE outcome = "ok" /\ (IF mode = "cbc" THEN CbcEncLocal(k, iv, d, o) ELSE StrmLocal(mode, FALSE, k, iv, d, o))
DecLocalOK(mode, k, iv, c, outcome, o) == IF Len(iv) # B THEN outcome = "err"
                                          ELSE IF mode = "cbc" THEN (IF CbcDecLocal(k, iv, c, o)[1] = "err" THEN outcome = "err" ELSE outcome = "ok" /\ CbcDecLocal(k, iv, c, o) = <<"ok", o>>)
                                          ELSE outcome = "ok" /\ StrmLocal(mode, TRUE, k, iv, c, o)
ModeEnc(mode, k, iv, d) == IF mode = "cbc" THEN CbcEnc(k, iv, d) ELSE Strm(mode, FALSE, k, d, 0, iv, <<>>)
\* full API-level outcome including the IV-length rule
EncOutcome(mode, k, iv, d) == IF Len(iv) # B THEN <<"err">> ELSE <<"ok", ModeEnc(mode, k, iv, d)>>
DecOutcome(mode, k, iv, c) == IF Len(iv) # B THEN <<"err">> ELSE IF mode = "cbc" THEN CbcDec(k, iv, c) ELSE <<"ok", Strm(mode, TRUE, k, c, 0, iv, <<>>)>>
=============================================================================
