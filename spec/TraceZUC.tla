----------------------------- MODULE TraceZUC -----------------------------
(***************************************************************************)
(* Trace specification for gm-zuc (C08 keystream/requests, C18 EEA3/EIA3).  *)
(* Session = one generator object.  zuc.new sets the specification state to *)
(* Start(key, iv); every zuc.req(n) must return exactly the next n words of *)
(* the specification's stream and advances the state -- whatever the split. *)
(***************************************************************************)
EXTENDS EEA3, ZUCJump, Json, IOUtils
Events == ndJsonDeserialize(IOEnv.TRACE)
N == Len(Events)
VARIABLES tpos, tst, tlast
IsStart(j) == j = 1 \/ Events[j].sess # Events[j-1].sess
St0 == [zs |-> <<>>, produced |-> 0]
Verdict(e, ok, class, kind) == <<e.id, IF ok THEN "ok" ELSE "dev", e.prop, class, IF ok THEN "-" ELSE kind>>
New1(e) == /\ tst' = [zs |-> Start(e.key, e.iv), produced |-> 0]
           /\ tlast' = Verdict(e, e.outcome = "ok", IF Len(e.key) = 16 /\ Len(e.iv) = 16 /\ FirstRoundBoundary(e.key, e.iv) THEN "new.add31-boundary" ELSE "new", e.outcome)
ReqClass(e) == (IF e.n = 0 THEN "zero-length" ELSE IF tst.produced = 0 THEN "first" ELSE "continued")
               \o (IF "special" \in DOMAIN e /\ e.special = 1 /\ RZero(tst.zs, e.n) THEN ".r-zero" ELSE "")
\* on a deviation the specification state still advances by n words (resync), so later requests are judged on their own
Req2(e, r) == /\ tst' = [zs |-> r[2], produced |-> tst.produced + e.n]
              /\ tlast' = Verdict(e, e.outcome = "ok" /\ e.out = r[1], ReqClass(e), IF e.outcome # "ok" THEN e.outcome ELSE "wrong-keystream")
Req1(e) == Req2(e, Request(tst.zs, e.n))
\* a SKIP: the driver let the library produce e.n words that are not judged (2^27 words cannot be recomputed here) and logged the generator's
\* state through the gm_rs_verif accessor.  The LFSR part of that state IS checked -- in work mode the register is a linear recurrence over
\* GF(2^31 - 1), independent of F, so the specification jumps it by x^n modulo the feedback polynomial (ZUCJump.tla); the two memory words of F
\* are taken from the log (the keystream words requested next are judged from the state so obtained).
StateOK(e) == Len(e.s) = 16 /\ (\A j \in 1..16 : e.s[j] \in 1..2147483647) /\ IsWord(e.r1) /\ IsWord(e.r2)
Skip1(e) == /\ tst' = IF StateOK(e) THEN [zs |-> [s |-> e.s, r1 |-> e.r1, r2 |-> e.r2], produced |-> tst.produced + 1] ELSE tst
            /\ tlast' = Verdict(e, e.outcome = "ok" /\ StateOK(e) /\ e.s = JumpLFSR(tst.zs.s, e.n), "skip", IF e.outcome # "ok" THEN e.outcome ELSE "wrong-lfsr-state")
\* (a call whose derived IV puts an addition of the first initialisation round on the reduction boundary is its own class)
Bnd(key, iv) == IF Len(key) = 16 /\ FirstRoundBoundary(key, iv) THEN ".add31-boundary" ELSE ""
LenClass(len) == IF len = 0 THEN "len0" ELSE IF len % 32 = 0 THEN "len%32=0" ELSE IF len % 32 = 1 THEN "len%32=1" ELSE IF len % 32 = 31 THEN "len%32=31" ELSE "len-other"
Eea1(e) == /\ tst' = tst
           /\ tlast' = Verdict(e, e.outcome = "ok" /\ e.out = Eea(e.key, e.count, e.bearer, e.dir, e.len, e.msg), "eea." \o LenClass(e.len) \o Bnd(e.key, EeaIV(e.count, e.bearer, e.dir)),
                               IF e.outcome # "ok" THEN e.outcome ELSE "wrong-output")
Eia1(e) == /\ tst' = tst
           /\ tlast' = Verdict(e, e.outcome = "ok" /\ e.mac = Eia(e.key, e.count, e.bearer, e.dir, e.len, e.msg), "eia." \o LenClass(e.len) \o Bnd(e.key, EiaIV(e.count, e.bearer, e.dir)),
                               IF e.outcome # "ok" THEN e.outcome ELSE "wrong-mac")
Step(e) == IF e.op = "zuc.new" THEN New1(e)
           ELSE IF e.op = "zuc.req" THEN Req1(e)
           ELSE IF e.op = "zuc.skip" THEN Skip1(e)
           ELSE IF e.op = "eea.encrypt" THEN Eea1(e)
           ELSE IF e.op = "eia.mac" THEN Eia1(e)
           ELSE tst' = tst /\ tlast' = <<e.id, "dev", e.prop, "unknown-op", e.op>>
TInit == tpos \in {j \in 1..N : IsStart(j)} /\ tst = St0 /\ tlast = <<>>
TNext == tpos <= N /\ (tlast = <<>> \/ ~IsStart(tpos)) /\ tpos' = tpos + 1 /\ Step(Events[tpos])
Report == tlast # <<>> => PrintT(<<"V", ToJson(tlast)>>)
=============================================================================
