CONSTANTS TOTAL = 8 ZMAX = 1
INIT PInit
NEXT PNext
INVARIANT Emit
CHECK_DEADLOCK FALSE
