CONSTANT W = 7
INIT Init
NEXT Next
INVARIANT Inv
CHECK_DEADLOCK FALSE
