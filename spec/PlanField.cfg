CONSTANT NK = 2
INIT Init
NEXT Next
INVARIANT Emit
CHECK_DEADLOCK FALSE
