----------------------------- MODULE LemmaMont -----------------------------
(***************************************************************************)
(* E5: the final correction of the Montgomery multiplication (mont_mul in   *)
(* fp64.rs / fn64.rs / gm-sm9 fp.rs): with z = a*b <= (M-1)^2 and m such    *)
(* that z + m*M = t*R (t = the upper half incl. the carry of the 512-bit    *)
(* addition), the code returns  t-R+(R-M) if carry, t-M if t >= M, else t.  *)
(* Lemma: the result is in [0, M), equals t or t - M, and the carry branch  *)
(* does not overflow.  (Products of two unknowns are avoided: z, m, t are   *)
(* related by one linear equation.)                                          *)
(***************************************************************************)
EXTENDS Integers
CONSTANT
  \* @type: Int;
  M
R == 2^256
CInitN2 == M = 115792089210356248756420345214020892766061623724957744567843809356293439045923
CInitP2 == M = 115792089210356248756420345214020892766250353991924191454421193933289684991999
CInitP9 == M = 82434016654578246444830763105245969129603161266935169637912592173415460324733
VARIABLES
  \* @type: Int;
  z,
  \* @type: Int;
  m,
  \* @type: Int;
  t
Init == /\ z \in 0..((M-1)*(M-1)) /\ m \in 0..(R-1) /\ t \in 0..(2*R)
        /\ z + m * M = t * R
Next == UNCHANGED <<z,m,t>>
Impl == IF t >= R THEN (t - R) + (R - M) ELSE IF t >= M THEN t - M ELSE t
Inv == /\ Impl >= 0 /\ Impl < M
       /\ (Impl = t \/ Impl = t - M)
       /\ (t >= R => (t - R) + (R - M) < R)
\* negative control (must be refuted): without the conditional subtraction the result is not always canonical
InvNoSub == t < M
=============================================================================
