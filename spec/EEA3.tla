------------------------------- MODULE EEA3 -------------------------------
(***************************************************************************)
(* 128-EEA3 and 128-EIA3 (3GPP TS 35.221) over the ZUC module.               *)
(* Words are <<hi16, lo16>>; COUNT is a word; messages are word sequences.   *)
(***************************************************************************)
EXTENDS ZUC
EeaIV(count, bearer, dir) == WBytes(count) \o << (bearer * 8 + dir * 4) % 256, 0, 0, 0 >> \o WBytes(count) \o << (bearer * 8 + dir * 4) % 256, 0, 0, 0 >>
EiaIV(count, bearer, dir) == << WBytes(count)[1], WBytes(count)[2], WBytes(count)[3], WBytes(count)[4], (bearer * 8) % 256, 0, 0, 0,
                               WBytes(count)[1] ^^ (dir * 128), WBytes(count)[2], WBytes(count)[3], WBytes(count)[4], (bearer * 8) % 256, 0, dir * 128, 0 >>
NW(len) == (len + 31) \div 32
\* keep the first r bits (1..31) of a word
MaskHi(w, r) == IF r >= 16 THEN << w[1], (w[2] \div (2^(32-r))) * (2^(32-r)) >> ELSE << (w[1] \div (2^(16-r))) * (2^(16-r)), 0 >>
EeaWord(m, ks, j, n, len) == IF j = n /\ len % 32 # 0 THEN MaskHi(WXor(m[j], ks[j]), len % 32) ELSE WXor(m[j], ks[j])
EeaK(msg, ks, len) == [j \in 1..NW(len) |-> EeaWord(msg, ks, j, NW(len), len)]
Eea(key, count, bearer, dir, len, msg) == EeaK(msg, KeyStream(key, EeaIV(count, bearer, dir), NW(len)), len)
\* EIA3: T = XOR of z_i over the set bits i of M, xor z_LENGTH, xor z_{32(L-1)}; z_i = 32 keystream bits from bit i
BitOf(m, b) == IF (b % 32) < 16 THEN (m[(b \div 32) + 1][1] \div (2^(15-(b % 32)))) % 2 ELSE (m[(b \div 32) + 1][2] \div (2^(31-(b % 32)))) % 2
ZAt2(a, b, r) == IF r = 0 THEN a ELSE WOr(WShl(a, r), WShr(b, 32 - r))
ZAt(ks, b) == ZAt2(ks[(b \div 32) + 1], IF (b % 32) = 0 THEN <<0,0>> ELSE ks[(b \div 32) + 2], b % 32)
\* Three levels of bounded recursion -- 64 bits, 64 chunks, then groups of 4096 bits -- keep the evaluation stack shallow for any LENGTH.
\* TLC passes operator arguments unevaluated: an accumulator that is only handed on builds a chain of suspended computations as long as the
\* message, evaluated all at once at the end (deep Java recursion).  Each level therefore LOOKS at its accumulator (Seen(t), always true),
\* which forces it there and then.
RECURSIVE EiaAccG(_,_,_,_,_,_)
RECURSIVE EiaAccH(_,_,_,_,_)
RECURSIVE EiaAcc(_,_,_,_,_)
Min2(a, b) == IF a < b THEN a ELSE b
Seen(t) == t[1] >= 0
EiaAcc(m, ks, b, to, t) == IF Seen(t) /\ b > to THEN t ELSE EiaAcc(m, ks, b+1, to, IF BitOf(m, b) = 1 THEN WXor(t, ZAt(ks, b)) ELSE t)
\* chunks g .. gto-1 of 64 bits each
EiaAccG(m, ks, g, gto, len, t) == IF Seen(t) /\ (g >= gto \/ g*64 >= len) THEN t ELSE EiaAccG(m, ks, g+1, gto, len, EiaAcc(m, ks, g*64, Min2(g*64+63, len-1), t))
\* groups h, h+1, ... of 64 chunks each
EiaAccH(m, ks, h, len, t) == IF Seen(t) /\ h*4096 >= len THEN t ELSE EiaAccH(m, ks, h+1, len, EiaAccG(m, ks, h*64, h*64+64, len, t))
EiaK(m, ks, len) == WXor(WXor(EiaAccH(m, ks, 0, len, <<0,0>>), ZAt(ks, len)), ks[NW(len) + 2])
Eia(key, count, bearer, dir, len, msg) == EiaK(msg, KeyStream(key, EiaIV(count, bearer, dir), NW(len) + 2), len)
\* ---- anchors: 3GPP test sets ----
CK1 == <<\h17,\h3d,\h14,\hba,\h50,\h03,\h73,\h1d,\h7a,\h60,\h04,\h94,\h70,\hf0,\h0a,\h29>>
M1 == << <<\h6cf6,\h5340>>, <<\h7355,\h52ab>>, <<\h0c97,\h52fa>>, <<\h6f90,\h25fe>>, <<\h0bd6,\h75d9>>, <<\h0058,\h75b2>>, <<0,0>> >>
C1 == << <<\ha6c8,\h5fc6>>, <<\h6afb,\h8533>>, <<\haafc,\h2518>>, <<\hdfe7,\h8494>>, <<\h0ee1,\he4b0>>, <<\h3023,\h8cc8>>, <<0,0>> >>
ASSUME Eea(CK1, <<\h6603,\h5492>>, 15, 0, 193, M1) = C1
IK2 == <<\hc9,\he6,\hce,\hc4,\h60,\h7c,\h72,\hdb,\h00,\h0a,\hef,\ha8,\h83,\h85,\hab,\h0a>>
M2 == << <<\h983b,\h41d4>>, <<\h7d78,\h0c9e>>, <<\h1ad1,\h1d7e>>, <<\hb703,\h91b1>>, <<\hde0b,\h35da>>, <<\h2dc6,\h2f83>>, <<\he7b7,\h8d63>>,
         <<\h06ca,\h0ea0>>, <<\h7e94,\h1b7b>>, <<\he913,\h48f9>>, <<\hfcb1,\h70e2>>, <<\h217f,\hecd9>>, <<\h7f9f,\h68ad>>, <<\hb16e,\h5d7d>>,
         <<\h21e5,\h69d2>>, <<\h80ed,\h775c>>, <<\hebde,\h3f40>>, <<\h93c5,\h3881>>, <<0,0>> >>
ASSUME Eia(IK2, <<\ha940,\h59da>>, 10, 1, 577, M2) = <<\hfae8,\hff0b>>
ASSUME Eia(Zero16, <<0,0>>, 0, 0, 1, << <<0,0>> >>) = <<\hc8a9,\h595e>>             \* EIA3 test set 1
=============================================================================
