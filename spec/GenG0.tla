---- MODULE GenG0 ----
EXTENDS BN, TLC, Json
VARIABLE gx
Init == gx = 0
Next == gx = 0 /\ gx' = 1 /\ PrintT(<<"G0", ToJson(Pairing(GenG1, GenG2))>>)
====
