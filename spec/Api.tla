-------------------------------- MODULE Api --------------------------------
(***************************************************************************)
(* C20: every public entry point that consumes externally supplied bytes is *)
(* a TOTAL function into {ok, err}: the specification has no `panic` and no  *)
(* `timeout` outcome.  Where a length rule of the standards determines the  *)
(* class, it is stated here (LenRule); everything else about the value is   *)
(* the business of the functional properties (C01..C19).                     *)
(***************************************************************************)
EXTENDS Naturals, Sequences
Outcomes == {"ok", "err"}
\* entry point -> rule on the length of its untrusted argument: "must be rejected" lengths
MustReject(op, len) ==
   IF op = "sm2.verify" THEN len # 64                                  \* signature r || s
   ELSE IF op = "sm2.pk_new" THEN len \notin {33, 65}                  \* SEC1 compressed / uncompressed
   ELSE IF op = "sm2.sk_new" THEN len # 32
   ELSE IF op = "sm2.decrypt.uncomp" THEN len < 65 + 32 + 1            \* C1 || C3 || C2 with a non-empty C2
   ELSE IF op = "sm2.decrypt.comp" THEN len < 33 + 32 + 1
   ELSE IF op = "sm4.new" THEN len < 16                                \* a 128-bit key (longer input: the property is silent)
   ELSE IF op \in {"sm4.enc_block", "sm4.dec_block"} THEN len < 16
   ELSE IF op = "sm4.mode_iv" THEN len # 16
   ELSE IF op = "sm4.cbc_dec" THEN len = 0 \/ len % 16 # 0
   ELSE IF op = "sm9.decrypt" THEN len < 65 + 32 + 1
   ELSE FALSE
Allowed(op, len, outcome) == outcome \in Outcomes /\ (MustReject(op, len) => outcome = "err")
=============================================================================
