CONSTANTS MaxPad = 1100 MaxMach = 330
INIT Init
NEXT Next
INVARIANT Inv
CHECK_DEADLOCK FALSE
