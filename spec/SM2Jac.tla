------------------------------- MODULE SM2Jac -------------------------------
(***************************************************************************)
(* Representation layer of gm-sm2's curve arithmetic: field elements are    *)
(* stored in Montgomery form (a*R mod p, R = 2^256), points in Jacobian     *)
(* coordinates (X : Y : Z) with x = X/Z^2, y = Y/Z^3 and Z = 0 for the      *)
(* point at infinity.  Denote maps a stored point to the affine point of    *)
(* Weierstrass.tla it denotes; verdicts about the library's point           *)
(* operations are stated on denotations (L0), independent of formulas.      *)
(***************************************************************************)
EXTENDS SM2
R256 == <<1>> \o [j \in 1..32 |-> 0]
RModP == BMod(R256, PP)
RInvP == BPowMod(RModP, BSub(PP, <<2>>), PP)
RModN == BMod(R256, NN)
RInvN == BPowMod(RModN, BSub(NN, <<2>>), NN)
FromMont(a) == BMulMod(a, RInvP, PP)                 \* value represented by the stored limb string a
ToMont(v) == BMulMod(v, RModP, PP)
Canonical(a) == BLt(a, PP)
\* stored point: record [x, y, z] of 32-byte strings
JX(p) == BFromBE(p.x)
JY(p) == BFromBE(p.y)
JZ(p) == BFromBE(p.z)
JCanon(p) == Canonical(JX(p)) /\ Canonical(JY(p)) /\ Canonical(JZ(p))
DenoteZ(x, y, zi) == << BMulMod(x, BMulMod(zi, zi, PP), PP), BMulMod(y, BMulMod(zi, BMulMod(zi, zi, PP), PP), PP) >>
Denote(p) == IF JZ(p) = BZero THEN Inf ELSE DenoteZ(FromMont(JX(p)), FromMont(JY(p)), C!FInv(FromMont(JZ(p))))
ValidInput(p) == JCanon(p) /\ C!OnCurve(Denote(p))
\* Jacobian curve equation Y^2 = X^3 + a X Z^4 + b Z^6 (what `is_valid` must decide), on represented values
JacOnCurve3(x, y, z2, z4) == C!FSqr(y) = C!FAdd(C!FAdd(C!FMul(C!FSqr(x), x), C!FMul(C!FMul(AA, x), z4)), C!FMul(BB, C!FMul(z4, z2)))
JacOnCurve2(x, y, z2) == JacOnCurve3(x, y, z2, C!FSqr(z2))
JacOnCurve(p) == JacOnCurve2(FromMont(JX(p)), FromMont(JY(p)), C!FSqr(FromMont(JZ(p))))
=============================================================================
