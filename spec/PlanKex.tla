------------------------------- MODULE PlanKex -------------------------------
(***************************************************************************)
(* E2 plan for C15/C17: the channel adversary of the key agreement.  TLC    *)
(* enumerates EVERY subset of the four messages {RA, RB, SB, SA} together   *)
(* with a tamper kind; the driver runs each with real keys and TraceSM2     *)
(* judges every step against GB/T 32918.3.                                   *)
(***************************************************************************)
EXTENDS Naturals, Sequences, FiniteSets, TLC, Json
Msgs == {"RA", "RB", "SB", "SA"}
Kinds == {"other", "offcurve", "infinity", "bitflip", "rerand"}
VARIABLES ksub, kkind
Init == ksub = {} /\ kkind = "none"
Next == kkind = "none" /\ \E s \in SUBSET Msgs, k \in Kinds : (s = {} => k = "other") /\ ksub' = s /\ kkind' = k
InSub(m) == IF m \in ksub THEN 1 ELSE 0
Emit == kkind # "none" => PrintT(<<"PLAN", ToJson([ra |-> InSub("RA"), rb |-> InSub("RB"), sb |-> InSub("SB"), sa |-> InSub("SA"), kind |-> kkind])>>)
=============================================================================
