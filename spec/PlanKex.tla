------------------------------- MODULE PlanKex -------------------------------
(***************************************************************************)
(* E2 plan for C15/C17: the channel adversary of the key agreement.  TLC    *)
(* enumerates EVERY subset of the four messages {RA, RB, SB, SA} together   *)
(* with a tamper kind; the driver runs each with real keys and TraceSM2     *)
(* judges every step against GB/T 32918.3.                                   *)
(* Second family ("forge"): the malicious responder of an invalid-curve     *)
(* attack.  R_B is NOT on the curve and S_B is the confirmation value the    *)
(* initiator itself would compute from that point (the addition formulas do  *)
(* not involve b, so U = [t_A](P_B + [xbar]R_B) is well defined) -- computed  *)
(* here by the specification for the Annex keys.  A must reject it for the   *)
(* curve equation alone; an implementation that relies on the S_B comparison *)
(* accepts it.                                                                *)
(***************************************************************************)
EXTENDS SM2, FiniteSets, Json
Msgs == {"RA", "RB", "SB", "SA"}
Kinds == {"other", "offcurve", "infinity", "bitflip", "rerand"}
VARIABLES ksub, kkind
Init == ksub = {} /\ kkind = "none"
Next == kkind = "none" /\ \E s \in SUBSET Msgs, k \in Kinds : (s = {} => k = "other") /\ ksub' = s /\ kkind' = k
InSub(m) == IF m \in ksub THEN 1 ELSE 0
\* ---- forged (off-curve R_B, matching S_B) for the Annex keys, klen 16 ----
FRA == Mul(KXRA, G)
FRB == Mul(KXRB, G)
OffCurve == << <<FRB[1], C!FAdd(FRB[2], <<1>>)>>, <<C!FAdd(FRB[1], <<1>>), FRB[2]>>, <<FRA[1], FRB[2]>>, << <<5>>, <<1>> >>, <<FRB[2], FRB[1]>> >>
ForgeOf(rb) == KxInitiator(BFromBE(KXDA), BFromBE(KXRA), FRA, PBx, rb, ZA(ID16, PAx), ZA(ID16, PBx), 16)
ForgeRec(rb, f) == [kind |-> "forge", da |-> KXDA, db |-> KXDB, ra |-> KXRA, rbx |-> B32(rb[1]), rby |-> B32(rb[2]), sb |-> f.sb, usable |-> IF f.v = C!Inf THEN 0 ELSE 1]
ASSUME \A j \in 1..Len(OffCurve) : ~C!OnCurve(OffCurve[j])
ASSUME \A j \in 1..Len(OffCurve) : PrintT(<<"PLAN", ToJson(ForgeRec(OffCurve[j], ForgeOf(OffCurve[j])))>>)
\* an unlucky honest initiator: for the ephemeral scalar k, the private key dA = -xbar([k]G) k (mod n) makes P_A + [xbar]R_A the point at
\* infinity, so the responder's V is O whatever t_B is: step B5 must fail (there is no x_V to hash)
VzKs == << KXRA, KXRB, B32(BFromBE(<<5>>)) >>
VzDa(k) == BSubMod(BZero, BMulMod(Xbar(Mul(k, G)), BFromBE(k), NN), NN)
VzRec(k) == [kind |-> "vzero", da |-> B32(VzDa(k)), db |-> KXDB, ra |-> k, check |-> IF C!PAdd(MulN(VzDa(k), G), MulN(Xbar(Mul(k, G)), Mul(k, G))) = C!Inf THEN 1 ELSE 0]
ASSUME \A j \in 1..Len(VzKs) : PrintT(<<"PLAN", ToJson(VzRec(VzKs[j]))>>)
\* an unlucky honest RESPONDER: for its ephemeral scalar k, the static key dB = -xbar([k]G) k (mod n) makes t_B = dB + xbar(R_B) k = 0, so V = [t_B](P_A + [xbar]R_A)
\* is O although P_A + [xbar]R_A is not: step B5 must fail (a test of the point BEFORE the multiplication by t_B does not see it)
TzRec(k) == [kind |-> "tzero", da |-> KXDA, db |-> B32(VzDa(k)), rb |-> k, check |-> IF BAddMod(VzDa(k), BMulMod(Xbar(Mul(k, G)), BFromBE(k), NN), NN) = BZero /\ VzDa(k) # BZero THEN 1 ELSE 0]
ASSUME \A j \in 1..Len(VzKs) : PrintT(<<"PLAN", ToJson(TzRec(VzKs[j]))>>)
\* an honest run whose derived key is ALL ZERO (klen = 1: one run in 256): GB/T 32918.3 has no "key stream is zero" rejection -- that belongs to the encryption
\* scheme --, so both parties must finish with the key 00.  The responder's ephemeral scalar is searched among 2, 3, ... for the Annex keys, rA = Annex rA.
IdAlice == <<97, 108, 105, 99, 101>>
IdBob == <<98, 111, 98>>
KzScalar(i) == <<i \div 256, i % 256>>
KzV(i) == SharedPt(TScalar(BFromBE(KXDB), BFromBE(KzScalar(i)), MulN(BFromBE(KzScalar(i)), G)), PAx, FRA)
RECURSIVE FindKz(_, _)
FindKz(i, lim) == IF i > lim THEN 0 ELSE IF KzV(i) # C!Inf /\ KxKey(KzV(i), ZA(IdAlice, PAx), ZA(IdBob, PBx), 1) = <<0>> THEN i ELSE FindKz(i + 1, lim)
KzRec(i) == [kind |-> "kzero", da |-> KXDA, db |-> KXDB, ra |-> KXRA, rb |-> B32(BFromBE(KzScalar(i))), check |-> IF i = 0 THEN 0 ELSE 1]
ASSUME PrintT(<<"PLAN", ToJson(KzRec(FindKz(2, 3000)))>>)
Emit == kkind # "none" => PrintT(<<"PLAN", ToJson([ra |-> InSub("RA"), rb |-> InSub("RB"), sb |-> InSub("SB"), sa |-> InSub("SA"), kind |-> kkind])>>)
=============================================================================
