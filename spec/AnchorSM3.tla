----------------------------- MODULE AnchorSM3 -----------------------------
(* Anchors SM3.tla against OpenSSL-3.0-made digests (corpus/sm3_openssl_bytes.ndjson). *)
EXTENDS SM3, Json
Vec == ndJsonDeserialize("../corpus/sm3_openssl_bytes.ndjson")
VARIABLES apos, afin
Init == apos \in 1..Len(Vec) /\ afin = FALSE
Next == ~afin /\ afin' = TRUE /\ apos' = apos
AnchorOK == afin => Hash(Vec[apos].msg) = Vec[apos].digest
=============================================================================
