CONSTANTS P = 23 B = 15 FIXED = FALSE MODE = "add" NIB = 2
INIT Init
NEXT Next
INVARIANT Inv
CHECK_DEADLOCK FALSE
