INIT Init
NEXT Next
INVARIANT Emit
INVARIANT EmitZ
CONSTANT Stride = 3
CHECK_DEADLOCK FALSE
