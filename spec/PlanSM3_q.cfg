INIT Init
NEXT Next
INVARIANT Emit
INVARIANT EmitZ
INVARIANT EmitS
CONSTANT Stride = 3
CHECK_DEADLOCK FALSE
