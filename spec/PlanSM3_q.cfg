INIT Init
NEXT Next
INVARIANT Emit
CONSTANT Stride = 3
CHECK_DEADLOCK FALSE
