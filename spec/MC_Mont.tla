---------------------------- MODULE MC_Mont ----------------------------
(* E1 for C11/C13: the register-level Montgomery multiplication, addition and subtraction of gm-sm2/fields/fp64.rs
   (and gm-sm9/fields/fp.rs) with word size R = 2^K, for every prime modulus with top bit set and every pair of
   canonical operands.  Division-free checks against the definitions. *)
EXTENDS Integers, TLC
CONSTANT K
R == 2^K
IsPrime(q) == q > 1 /\ \A d \in 2..(q-1) : q % d # 0
Moduli == { q \in (R \div 2 + 1)..(R-1) : IsPrime(q) }
PPrime(q) == CHOOSE x \in 0..(R-1) : (x * q + 1) % R = 0          \* -q^-1 mod R
RInv(q) == CHOOSE x \in 0..(q-1) : (x * R) % q = 1
\* as in the code: z = a*b; t = (low(z) * p') mod R; z + t*p; r = high; carry / >= p corrections
MontMul(a, b, q) ==
  LET z == a * b
      t == ((z % R) * PPrime(q)) % R
      sum == z + t * q
      c == sum >= R * R                     \* carry out of the double-width addition
      r == (sum \div R) % R
  IN IF c THEN (r + (R - q)) % R ELSE IF r >= q THEN r - q ELSE r
FpAdd(a, b, q) == LET raw == a + b  r == raw % R  c == raw >= R
                  IN IF c THEN (r + (R - q)) % R ELSE IF r >= q THEN r - q ELSE r
FpSub(a, b, q) == LET raw == (a - b + R) % R  bor == a < b
                  IN IF bor THEN (raw - (R - q) + R) % R ELSE raw
VARIABLES mq, ma, mb
Init == mq = 0 /\ ma = 0 /\ mb = 0
Next == \/ (mq = 0 /\ mq' \in Moduli /\ ma' = 0 /\ mb' = 0)
        \/ (mq # 0 /\ ma = 0 /\ mb = 0 /\ mq' = mq /\ ma' \in 0..(mq-1) /\ mb' \in 0..(mq-1))
MulOk == mq # 0 => MontMul(ma, mb, mq) = (ma * mb * RInv(mq)) % mq
AddOk == mq # 0 => FpAdd(ma, mb, mq) = (ma + mb) % mq
SubOk == mq # 0 => FpSub(ma, mb, mq) = (ma - mb + mq) % mq
=====================================================================
