-------------------------------- MODULE SM9 --------------------------------
(***************************************************************************)
(* GM/T 0044 (SM9) at the real parameters, standard-shaped (L0):            *)
(*   H1 / H2 (hash to [1, N-1], hlen = 320 bits), KDF, MAC(K2, Z) = SM3(Z||K2)*)
(*   key extraction (hid 01 sign, 02 exchange, 03 encrypt),                 *)
(*   part 2 signatures, part 4 encryption (C1||C3||C2), part 3 key exchange.*)
(* The pairing is BN!Pairing (textbook).  For honest events the value        *)
(* g = e(P1, [k]P2) = e([k]P1, P2) is also available as G0^k with            *)
(* G0 = e(P1, P2) (BNG0; equality with the definition is an ASSUME of        *)
(* AnchorSM9 and bilinearity itself is property C12's business).             *)
(***************************************************************************)
EXTENDS BN, BNG0, Bitwise
H3 == INSTANCE SM3
Sm3(bytes) == H3!Hash(bytes)
NM1 == BSub(N, <<1>>)
NM2 == BSub(N, <<2>>)
\* ---- H1 / H2: Ha = first 40 bytes of SM3(prefix||Z||00000001) || SM3(prefix||Z||00000002); h = (Ha mod (N-1)) + 1 ----
Ha(prefix, z) == SubSeq(Sm3(<<prefix>> \o z \o <<0,0,0,1>>) \o Sm3(<<prefix>> \o z \o <<0,0,0,2>>), 1, 40)
HFromHa(ha) == BAdd(BMod(BFromBE(ha), NM1), <<1>>)
HRange(prefix, z) == HFromHa(Ha(prefix, z))
H1(id, hid) == HRange(1, id \o <<hid>>)
H2(msg, wbytes) == HRange(2, msg \o wbytes)
\* (chunked like SM2.tla's KDF: shallow evaluation stack for long outputs, accumulators forced per level)
U32B(ct) == <<ct \div 16777216, (ct \div 65536) % 256, (ct \div 256) % 256, ct % 256>>
RECURSIVE KdfC(_,_,_,_)
KdfC(z, ct, to, acc) == IF Len(acc) >= 0 /\ ct > to THEN acc ELSE KdfC(z, ct + 1, to, acc \o Sm3(z \o U32B(ct)))
RECURSIVE KdfG(_,_,_,_)
KdfG(z, ct, nb, acc) == IF Len(acc) >= 0 /\ ct > nb THEN acc ELSE KdfG(z, ct + 32, nb, KdfC(z, ct, IF ct + 31 < nb THEN ct + 31 ELSE nb, acc))
KDF(z, klen) == SubSeq(KdfG(z, 1, (klen + 31) \div 32, <<>>), 1, klen)
MAC(k2, z) == Sm3(z \o k2)
XorS(a, b) == [j \in 1..Len(a) |-> a[j] ^^ b[j]]
AllZero(t) == \A j \in 1..Len(t) : t[j] = 0
InvN(x) == BPowMod(x, NM2, N)
InRangeN(x) == x # Z0 /\ BLt(x, N)
PtBytes(pt) == B32(pt[1]) \o B32(pt[2])                       \* x || y (64 bytes)
\* ---- master keys and extraction ----
PpubS(ks) == G2Mul(B32(ks), GenG2)                            \* signing master public key (in G2)
PpubE(ke) == G1Mul(B32(ke), GenG1)                            \* encryption / exchange master public key (in G1)
\* <<"ok", scalar t2>> or <<"none">> when H1 + k = 0 mod N
ExtractT(k, id, hid) == IF BAddMod(H1(id, hid), k, N) = Z0 THEN <<"none">> ELSE <<"ok", BMulMod(k, InvN(BAddMod(H1(id, hid), k, N)), N)>>
ExtractSign(ks, id) == IF ExtractT(ks, id, 1)[1] = "none" THEN <<"none">> ELSE <<"ok", G1Mul(B32(ExtractT(ks, id, 1)[2]), GenG1)>>
ExtractEnc(ke, id, hid) == IF ExtractT(ke, id, hid)[1] = "none" THEN <<"none">> ELSE <<"ok", G2Mul(B32(ExtractT(ke, id, hid)[2]), GenG2)>>
\* g = e(P1, Ppub-s) = e(Ppub-e, P2) = G0^k  (derived evaluator; the definitional form is GDef)
GPow(k) == F12Pow(G0Const, B32(k))
GDefS(ks) == Pairing(GenG1, PpubS(ks))
GDefE(ke) == Pairing(PpubE(ke), GenG2)
\* ---- part 2: signature with random r: <<"ok", h, S>> or <<"retry">> (l = 0) ----
SignL(h, r, ds) == IF BSubMod(r, h, N) = Z0 THEN <<"retry">> ELSE <<"ok", h, G1Mul(B32(BSubMod(r, h, N)), ds)>>
SignW(msg, w, r, ds) == SignL(H2(msg, F12Bytes(w)), r, ds)
Sign(g, ds, msg, r) == SignW(msg, F12Pow(g, B32(r)), r, ds)                 \* g = e(P1, Ppub-s)
\* verification (h as BigNat, S affine point, ppubs in G2):  h in [1,N-1], S on curve, H2(M || u * g^h) = h with u = e(S, [h1]P2 + Ppub-s)
VerifyW(h, msg, w) == H2(msg, F12Bytes(w)) = h
VerifyU(h, msg, t, u) == VerifyW(h, msg, F12Mul(u, t))
Verify(g, ppubs, id, msg, h, S) == /\ InRangeN(h) /\ S # Inf /\ G1OnCurve(S)
                                   /\ VerifyU(h, msg, F12Pow(g, B32(h)), Pairing(S, G2Add(G2Mul(B32(H1(id, 1)), GenG2), ppubs)))
\* ---- part 4: encryption: C1 = [r]QB, w = g^r, K = KDF(C1||w||ID, mlen+32), C2 = M xor K1, C3 = MAC(K2, C2); output C1||C3||C2 ----
QB(ppube, id, hid) == G1Add(G1Mul(B32(H1(id, hid)), GenG1), ppube)
EncK(msg, c1, k) == IF AllZero(SubSeq(k, 1, Len(msg))) THEN <<"retry">>
                    ELSE <<"ok", <<4>> \o PtBytes(c1) \o MAC(SubSeq(k, Len(msg)+1, Len(msg)+32), XorS(msg, SubSeq(k, 1, Len(msg)))) \o XorS(msg, SubSeq(k, 1, Len(msg)))>>
EncW(msg, id, c1, w) == EncK(msg, c1, KDF(PtBytes(c1) \o F12Bytes(w) \o id, Len(msg) + 32))
Encrypt(g, ppube, id, msg, r) == EncW(msg, id, G1Mul(B32(r), QB(ppube, id, 3)), F12Pow(g, B32(r)))        \* g = e(Ppub-e, P2)
\* decryption with de in G2: <<"ok", m>> | <<"err">>
DecodeC1(b) == IF b[1] # 4 THEN <<"err">>
               ELSE IF ~(BLt(BFromBE(SubSeq(b, 2, 33)), P) /\ BLt(BFromBE(SubSeq(b, 34, 65)), P)) THEN <<"err">>
               ELSE IF ~G1OnCurve(<<BFromBE(SubSeq(b, 2, 33)), BFromBE(SubSeq(b, 34, 65))>>) THEN <<"err">>
               ELSE <<"ok", <<BFromBE(SubSeq(b, 2, 33)), BFromBE(SubSeq(b, 34, 65))>>>>
DecK(c2, c3, k) == IF AllZero(SubSeq(k, 1, Len(c2))) THEN <<"err">>
                   ELSE IF MAC(SubSeq(k, Len(c2)+1, Len(c2)+32), c2) # c3 THEN <<"err">> ELSE <<"ok", XorS(c2, SubSeq(k, 1, Len(c2)))>>
DecW(c1b, c2, c3, id, w) == DecK(c2, c3, KDF(c1b \o F12Bytes(w) \o id, Len(c2) + 32))
DecP(de, id, ct, c1) == IF c1[1] = "err" THEN <<"err">>
                        ELSE DecW(SubSeq(ct, 2, 65), SubSeq(ct, 98, Len(ct)), SubSeq(ct, 66, 97), id, Pairing(c1[2], de))
Decrypt(de, id, ct) == IF Len(ct) < 65 + 32 + 1 THEN <<"err">> ELSE DecP(de, id, ct, DecodeC1(SubSeq(ct, 1, 65)))
\* ---- part 3: key exchange (hid = 02): RA = [rA]QB, RB = [rB]QA; g1 = e(Ppub-e,P2)^rA = e(RA, deB); g2 = e(Ppub-e,P2)^rB = e(RB, deA); g3 = g2^rA = g1^rB ----
KxKey(ida, idb, RA, RB, g1, g2, g3, klen) == KDF(ida \o idb \o PtBytes(RA) \o PtBytes(RB) \o F12Bytes(g1) \o F12Bytes(g2) \o F12Bytes(g3), klen)
\* responder B: receives RA (must be on the curve), has deB, draws rB
KxB2(ida, idb, RA, RB, g1, g, rB, klen) == KxKey(ida, idb, RA, RB, g1, F12Pow(g, B32(rB)), F12Pow(g1, B32(rB)), klen)
KxB(g, ppube, deB, ida, idb, RA, rB, klen) == KxB2(ida, idb, RA, G1Mul(B32(rB), QB(ppube, ida, 2)), Pairing(RA, deB), g, rB, klen)
\* initiator A: has rA, RA, receives RB, has deA
KxA2(ida, idb, RA, RB, g, g2, rA, klen) == KxKey(ida, idb, RA, RB, F12Pow(g, B32(rA)), g2, F12Pow(g2, B32(rA)), klen)
KxA(g, deA, ida, idb, rA, RA, RB, klen) == KxA2(ida, idb, RA, RB, g, Pairing(RB, deA), rA, klen)
=============================================================================
