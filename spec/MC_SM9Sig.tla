---------------------------- MODULE MC_SM9Sig ----------------------------
(* E1 for C09: SM9 signature (GM/T 0044.2) in a bilinear group "in the exponent": G1 = G2 = GT = Z_N (additive),
   e(a,b) = a*b mod N, generators = 1.  H1 is a function table chosen initially; H2 is a lazily sampled
   random oracle.  One sg_field of (h, S, M, ID, Ppub) may be altered before verification. *)
EXTENDS Integers, TLC
CONSTANTS N, TIGHT
Z == 0..(N-1)
Zs == 1..(N-1)
RECURSIVE PowN(_,_)
PowN(x, e) == IF e = 0 THEN 1 ELSE (x * PowN(x, e-1)) % N
InvN(x) == PowN(x, N-2)
IDs == {1, 2}          \* signer is ID 1
Msgs == {1, 2}
VARIABLES sg_pc, sg_ks, sg_h1, sg_r, sg_msg, sg_ro, sg_sig, sg_tam, sg_field, sg_verdict, sg_lucky
vars == <<sg_pc, sg_ks, sg_h1, sg_r, sg_msg, sg_ro, sg_sig, sg_tam, sg_field, sg_verdict, sg_lucky>>
NoSig == [h |-> 0, S |-> 0]
Init == /\ sg_pc = "sign" /\ sg_ks \in Zs /\ sg_h1 \in [IDs -> Zs] /\ (sg_h1[1] + sg_ks) % N # 0
        /\ sg_r \in Zs /\ sg_msg \in Msgs /\ sg_ro = [m \in Msgs |-> [w \in Z |-> 0]]
        /\ sg_sig = NoSig /\ sg_tam = [h |-> 0, S |-> 0, M |-> 0, ID |-> 0, K |-> 0] /\ sg_field = "none" /\ sg_verdict = "pending" /\ sg_lucky = FALSE
Ds == (sg_ks * InvN((sg_h1[1] + sg_ks) % N)) % N                          \* signing key of ID 1 (exponent in G1)
Sign == /\ sg_pc = "sign"
        /\ \E h \in Zs :                                          \* fresh oracle answer for (sg_msg, w), w = g^sg_r = sg_r*sg_ks
              /\ (sg_r - h) % N # 0                                   \* A5: l = 0 -> retry (not modelled further)
              /\ sg_ro' = [sg_ro EXCEPT ![sg_msg][(sg_r * sg_ks) % N] = h]
              /\ sg_sig' = [h |-> h, S |-> (((sg_r - h) % N) * Ds) % N]
        /\ sg_pc' = "tamper" /\ UNCHANGED <<sg_ks, sg_h1, sg_r, sg_msg, sg_tam, sg_field, sg_verdict, sg_lucky>>
Base == [h |-> sg_sig.h, S |-> sg_sig.S, M |-> sg_msg, ID |-> 1, K |-> sg_ks]
Tamper == /\ sg_pc = "tamper"
          /\ \/ sg_tam' = Base /\ sg_field' = "none"
             \/ \E v \in (0..N) \ {sg_sig.h} : sg_tam' = [Base EXCEPT !.h = v] /\ sg_field' = "h"          \* incl. 0 and N: out of range
             \/ \E v \in Z \ {sg_sig.S} : sg_tam' = [Base EXCEPT !.S = v] /\ sg_field' = "S"
             \/ \E v \in Msgs \ {sg_msg} : sg_tam' = [Base EXCEPT !.M = v] /\ sg_field' = "M"
             \/ sg_tam' = [Base EXCEPT !.ID = 2] /\ sg_field' = "ID"
             \/ \E v \in Zs \ {sg_ks} : sg_tam' = [Base EXCEPT !.K = v] /\ sg_field' = "K"
          /\ sg_pc' = "verify" /\ UNCHANGED <<sg_ks, sg_h1, sg_r, sg_msg, sg_ro, sg_sig, sg_verdict, sg_lucky>>
\* implementation-shaped verification: t = g^h, P = [sg_h1]P2 + Ppub, u = e(S,P), w = u*t
WPrime == ((sg_tam.S * ((sg_h1[sg_tam.ID] + sg_tam.K) % N)) + sg_tam.h * sg_tam.K) % N
Verify == /\ sg_pc = "verify"
          /\ IF sg_tam.h \notin Zs
             THEN sg_verdict' = "err" /\ sg_lucky' = sg_lucky
             ELSE IF sg_ro[sg_tam.M][WPrime] # 0
                  THEN sg_verdict' = (IF sg_ro[sg_tam.M][WPrime] = sg_tam.h THEN "accept" ELSE "reject") /\ sg_lucky' = sg_lucky
                  ELSE \E v \in Zs : sg_verdict' = (IF v = sg_tam.h THEN "accept" ELSE "reject") /\ sg_lucky' = (v = sg_tam.h)
          /\ sg_pc' = "done" /\ UNCHANGED <<sg_ks, sg_h1, sg_r, sg_msg, sg_ro, sg_sig, sg_tam, sg_field>>
Next == Sign \/ Tamper \/ Verify \/ (sg_pc = "done" /\ UNCHANGED vars)
\* ---- properties ----
Honest == sg_pc = "done" /\ sg_field = "none" => sg_verdict = "accept"
OutOfRange == sg_pc = "done" /\ sg_tam.h \notin Zs => sg_verdict = "err"
\* coincidences (probability ~1/N each, negligible at real size):
H1Collision == sg_field = "ID" /\ sg_h1[2] = sg_h1[1]
KIndependent == sg_field = "K" /\ (sg_sig.S + sg_sig.h) % N = 0          \* w does not depend on Ppub when S + h = 0
Forgery == sg_pc = "done" /\ sg_field # "none" /\ sg_verdict = "accept" => sg_lucky \/ (TIGHT /\ (H1Collision \/ KIndependent))
=====================================================================
