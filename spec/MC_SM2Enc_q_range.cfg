CONSTANTS P = 11 B = 10 SYM = 12 DROP = "range"
INIT Init
NEXT Next
INVARIANT Inv
CHECK_DEADLOCK FALSE
