------------------------------ MODULE SM2Codec ------------------------------
(***************************************************************************)
(* Encodings of SM2 keys and ciphertexts (C19):                              *)
(*  - hex (lower case) of the SEC1 byte strings;                             *)
(*  - SubjectPublicKeyInfo and PKCS#8 PrivateKeyInfo as DER templates        *)
(*    (id-ecPublicKey + sm2p256v1; fixed 26-byte / 36+5-byte framing exactly *)
(*    as OpenSSL 3.0 produces for SM2 keys -- anchored by the committed      *)
(*    OpenSSL-made documents);                                               *)
(*  - PEM armor (RFC 7468: base64, 64 characters per line, LF);               *)
(*  - the GM/T 0009 ciphertext SEQUENCE { x INTEGER, y INTEGER,               *)
(*    hash OCTET STRING, ct OCTET STRING } with a small DER codec (minimal    *)
(*    non-negative INTEGERs, short/long definite lengths).                    *)
(***************************************************************************)
EXTENDS SM2
\* ---------------- hex ----------------
HexDigit(v) == IF v < 10 THEN 48 + v ELSE 87 + v                                 \* '0'..'9', 'a'..'f'
HexEncode(b) == [j \in 1..(2 * Len(b)) |-> HexDigit(IF j % 2 = 1 THEN b[(j + 1) \div 2] \div 16 ELSE b[j \div 2] % 16)]
HexVal(c) == IF c >= 48 /\ c <= 57 THEN c - 48 ELSE IF c >= 97 /\ c <= 102 THEN c - 87 ELSE IF c >= 65 /\ c <= 70 THEN c - 55 ELSE 255
HexDecode(s) == IF Len(s) % 2 # 0 \/ \E j \in 1..Len(s) : HexVal(s[j]) = 255 THEN <<"err">>
                ELSE <<"ok", [j \in 1..(Len(s) \div 2) |-> HexVal(s[2*j - 1]) * 16 + HexVal(s[2*j])]>>
\* ---------------- base64 / PEM ----------------
B64Char(v) == IF v < 26 THEN 65 + v ELSE IF v < 52 THEN 71 + v ELSE IF v < 62 THEN v - 4 ELSE IF v = 62 THEN 43 ELSE 47
B64Group(b, o, n) ==        \* n = 1..3 bytes available at offset o (0-based)
   LET b1 == b[o+1]  b2 == IF n >= 2 THEN b[o+2] ELSE 0  b3 == IF n >= 3 THEN b[o+3] ELSE 0 IN
   << B64Char(b1 \div 4), B64Char((b1 % 4) * 16 + (b2 \div 16)),
      IF n >= 2 THEN B64Char((b2 % 16) * 4 + (b3 \div 64)) ELSE 61, IF n >= 3 THEN B64Char(b3 % 64) ELSE 61 >>
RECURSIVE B64R(_, _, _)
B64R(b, o, acc) == IF o >= Len(b) THEN acc ELSE B64R(b, o + 3, acc \o B64Group(b, o, IF Len(b) - o >= 3 THEN 3 ELSE Len(b) - o))
Base64(b) == B64R(b, 0, <<>>)
RECURSIVE Wrap64(_, _)
Wrap64(s, acc) == IF Len(s) = 0 THEN acc ELSE IF Len(s) <= 64 THEN acc \o s \o <<10>> ELSE Wrap64(SubSeq(s, 65, Len(s)), acc \o SubSeq(s, 1, 64) \o <<10>>)
Dashes == <<45,45,45,45,45>>
Ascii(str) == str         \* labels are given as code tuples below
BEGIN == <<66,69,71,73,78,32>>
ENDL == <<69,78,68,32>>
LabelPub == <<80,85,66,76,73,67,32,75,69,89>>                 \* "PUBLIC KEY"
LabelPriv == <<80,82,73,86,65,84,69,32,75,69,89>>             \* "PRIVATE KEY"
Pem(label, der) == Dashes \o BEGIN \o label \o Dashes \o <<10>> \o Wrap64(Base64(der), <<>>) \o Dashes \o ENDL \o label \o Dashes \o <<10>>
\* the same text with CRLF line endings
RECURSIVE CrLfR(_, _, _)
CrLfR(t, j, acc) == IF j > Len(t) THEN acc ELSE CrLfR(t, j + 1, IF t[j] = 10 THEN acc \o <<13, 10>> ELSE Append(acc, t[j]))
CrLf(t) == CrLfR(t, 1, <<>>)
\* ---------------- DER ----------------
LenBytes(n) == IF n < 128 THEN <<n>> ELSE IF n < 256 THEN <<129, n>> ELSE IF n < 65536 THEN <<130, n \div 256, n % 256>>
               ELSE <<131, n \div 65536, (n \div 256) % 256, n % 256>>      \* n < 2^24
TLV(tag, v) == <<tag>> \o LenBytes(Len(v)) \o v
RECURSIVE Strip(_)
Strip(b) == IF Len(b) > 1 /\ b[1] = 0 THEN Strip(Tail(b)) ELSE b
IntBody(b32) == IF Strip(b32)[1] >= 128 THEN <<0>> \o Strip(b32) ELSE Strip(b32)
EncInt(b32) == TLV(2, IntBody(b32))
EncOct(b) == TLV(4, b)
EncCipher(x, y, hash, ct) == TLV(48, EncInt(x) \o EncInt(y) \o EncOct(hash) \o EncOct(ct))
DecLen(b) == IF Len(b) = 0 THEN <<"err">>
             ELSE IF b[1] < 128 THEN <<"ok", b[1], Tail(b)>>
             ELSE IF b[1] = 129 /\ Len(b) >= 2 /\ b[2] >= 128 THEN <<"ok", b[2], SubSeq(b, 3, Len(b))>>
             ELSE IF b[1] = 130 /\ Len(b) >= 3 /\ b[2] > 0 THEN <<"ok", b[2]*256 + b[3], SubSeq(b, 4, Len(b))>>
             ELSE IF b[1] = 131 /\ Len(b) >= 4 /\ b[2] > 0 THEN <<"ok", b[2]*65536 + b[3]*256 + b[4], SubSeq(b, 5, Len(b))>>
             ELSE <<"err">>
DecTLV2(l) == IF l[1] = "err" THEN <<"err">> ELSE IF l[2] > Len(l[3]) THEN <<"err">> ELSE <<"ok", SubSeq(l[3], 1, l[2]), SubSeq(l[3], l[2]+1, Len(l[3]))>>
DecTLV(tag, b) == IF Len(b) < 2 THEN <<"err">> ELSE IF b[1] # tag THEN <<"err">> ELSE DecTLV2(DecLen(Tail(b)))
Pad32(m) == [j \in 1..32 |-> IF j <= 32 - Len(m) THEN 0 ELSE m[j - (32 - Len(m))]]
IntOk(v) == Len(v) >= 1 /\ v[1] < 128 /\ (Len(v) = 1 \/ v[1] # 0 \/ v[2] >= 128) /\ Len(Strip(v)) <= 32
DecInt2(t) == IF t[1] = "err" THEN <<"err">> ELSE IF ~IntOk(t[2]) THEN <<"err">> ELSE <<"ok", Pad32(Strip(t[2])), t[3]>>
DecInt(b) == DecInt2(DecTLV(2, b))
DecC4(x, y, h, c) == IF c[1] = "err" THEN <<"err">> ELSE IF c[3] # <<>> \/ Len(h) # 32 THEN <<"err">> ELSE <<"ok", x, y, h, c[2]>>
DecC3(x, y, h) == IF h[1] = "err" THEN <<"err">> ELSE DecC4(x, y, h[2], DecTLV(4, h[3]))
DecC2(x, y) == IF y[1] = "err" THEN <<"err">> ELSE DecC3(x, y[2], DecTLV(4, y[3]))
DecC1(x) == IF x[1] = "err" THEN <<"err">> ELSE DecC2(x[2], DecInt(x[3]))
DecC0(s) == IF s[1] = "err" THEN <<"err">> ELSE IF s[3] # <<>> THEN <<"err">> ELSE DecC1(DecInt(s[2]))
DecCipher(b) == DecC0(DecTLV(48, b))                      \* <<"ok", x32, y32, hash, ct>> or <<"err">>
ASSUME \A a \in 0..255, b \in {0, 1, 127, 128, 255} : DecInt(EncInt(Pad32(<<a, b>>))) = <<"ok", Pad32(<<a,b>>), <<>>>>
ASSUME DecInt(<<2, 2, 0, 5>>) = <<"err">> /\ DecInt(<<2, 1, 128>>) = <<"err">>
\* GM/T 0009 ciphertext of a raw C1||C3||C2 (uncompressed) ciphertext, and back
RawToDer(raw) == EncCipher(SubSeq(raw, 2, 33), SubSeq(raw, 34, 65), SubSeq(raw, 66, 97), SubSeq(raw, 98, Len(raw)))
DerToRaw2(dc) == IF dc[1] = "err" THEN <<"err">> ELSE <<"ok", <<4>> \o dc[2] \o dc[3] \o dc[4] \o dc[5]>>
DerToRaw(der) == DerToRaw2(DecCipher(der))
DecryptDer2(d, r) == IF r[1] = "err" THEN <<"err">> ELSE Decrypt(d, r[2], "c1c3c2", FALSE)
DecryptDer(d, der) == DecryptDer2(d, DerToRaw(der))
\* ---------------- key documents ----------------
SpkiHead == <<\h30,\h59,\h30,\h13,\h06,\h07,\h2a,\h86,\h48,\hce,\h3d,\h02,\h01,\h06,\h08,\h2a,\h81,\h1c,\hcf,\h55,\h01,\h82,\h2d,\h03,\h42,\h00>>
Spki(pt) == SpkiHead \o EncodePoint(pt, FALSE)
Pkcs8Head == <<\h30,\h81,\h87,\h02,\h01,\h00,\h30,\h13,\h06,\h07,\h2a,\h86,\h48,\hce,\h3d,\h02,\h01,\h06,\h08,\h2a,\h81,\h1c,\hcf,\h55,\h01,\h82,\h2d,\h04,\h6d,\h30,\h6b,\h02,\h01,\h01,\h04,\h20>>
Pkcs8Mid == <<\ha1,\h44,\h03,\h42,\h00>>
Pkcs8(d, pt) == Pkcs8Head \o B32(d) \o Pkcs8Mid \o EncodePoint(pt, FALSE)
\* template decoders: <<"ok", value>> when the document has exactly the canonical framing, <<"other">> otherwise (a general DER parser may
\* accept other framings: the specification does not judge those beyond "the result must be a valid key")
\* the other framings OpenSSL writes for the same keys: the public key in SEC1 COMPRESSED form (-conv_form compressed), and an ECPrivateKey without
\* the OPTIONAL publicKey field (RFC 5915).  A document of these shapes whose parts are consistent is a valid document for a valid key.
SpkiHeadC == <<\h30,\h39,\h30,\h13,\h06,\h07,\h2a,\h86,\h48,\hce,\h3d,\h02,\h01,\h06,\h08,\h2a,\h81,\h1c,\hcf,\h55,\h01,\h82,\h2d,\h03,\h22,\h00>>
SpkiC(pt) == SpkiHeadC \o EncodePoint(pt, TRUE)
Pkcs8Alg == <<\h02,\h01,\h00,\h30,\h13,\h06,\h07,\h2a,\h86,\h48,\hce,\h3d,\h02,\h01,\h06,\h08,\h2a,\h81,\h1c,\hcf,\h55,\h01,\h82,\h2d>>
Pkcs8HeadC == <<\h30,\h67>> \o Pkcs8Alg \o <<\h04,\h4d,\h30,\h4b,\h02,\h01,\h01,\h04,\h20>>
Pkcs8MidC == <<\ha1,\h24,\h03,\h22,\h00>>
Pkcs8C(d, pt) == Pkcs8HeadC \o B32(d) \o Pkcs8MidC \o EncodePoint(pt, TRUE)
Pkcs8HeadN == <<\h30,\h41>> \o Pkcs8Alg \o <<\h04,\h27,\h30,\h25,\h02,\h01,\h01,\h04,\h20>>
Pkcs8N(d) == Pkcs8HeadN \o B32(d)
ASSUME Pkcs8Head = <<\h30,\h81,\h87>> \o Pkcs8Alg \o <<\h04,\h6d,\h30,\h6b,\h02,\h01,\h01,\h04,\h20>>
ASSUME Len(Pkcs8HeadC) = 35 /\ Len(Pkcs8HeadN) = 35 /\ Len(SpkiHeadC) = 26
\* template decoders: <<"ok", value>> when the document has exactly one of these framings, <<"other">> otherwise (a general DER parser may
\* accept other framings: the specification does not judge those beyond "the result must be a valid key")
SpkiDecode(der) == IF Len(der) = 91 /\ SubSeq(der, 1, 26) = SpkiHead THEN DecodePoint(SubSeq(der, 27, 91))
                   ELSE IF Len(der) = 59 /\ SubSeq(der, 1, 26) = SpkiHeadC THEN DecodePoint(SubSeq(der, 27, 59)) ELSE <<"other">>
ValidPrivate(dbytes) == Len(dbytes) = 32 /\ BFromBE(dbytes) # BZero /\ BLt(BFromBE(dbytes), BSub(NN, <<1>>))          \* d in [1, n-2]
Pkcs8Decode(der) == IF Len(der) = 138 /\ SubSeq(der, 1, 36) = Pkcs8Head /\ SubSeq(der, 69, 73) = Pkcs8Mid THEN <<"ok", SubSeq(der, 37, 68)>>
                    ELSE IF Len(der) = 105 /\ SubSeq(der, 1, 35) = Pkcs8HeadC /\ SubSeq(der, 68, 72) = Pkcs8MidC /\ ValidPrivate(SubSeq(der, 36, 67))
                            /\ SubSeq(der, 73, 105) = EncodePoint(MulN(BFromBE(SubSeq(der, 36, 67)), G), TRUE) THEN <<"ok", SubSeq(der, 36, 67)>>
                    ELSE IF Len(der) = 67 /\ SubSeq(der, 1, 35) = Pkcs8HeadN THEN <<"ok", SubSeq(der, 36, 67)>>
                    ELSE <<"other">>
=============================================================================
