------------------------------- MODULE MC_SM3 -------------------------------
(***************************************************************************)
(* E1 model for SM3 (C01):                                                  *)
(*  - PadImpl (the loop of gm-sm3::pad) = Pad (standard) and the padding    *)
(*    invariants for EVERY length 0..MaxPad;                                *)
(*  - the 64-bit length field for giant lengths (bit length >= 2^32, which  *)
(*    does not fit a TLC integer) equals the byte-string shift of the       *)
(*    length -- an independent formulation of "l as 64 bits";               *)
(*  - block iteration: for every length 0..MaxMach and every split point k  *)
(*    the machine Finish(AbsorbTo(AbsorbTo(Init,k),n)) returns Hash(m).      *)
(***************************************************************************)
EXTENDS SM3, Gen
CONSTANTS MaxPad, MaxMach
VARIABLES mclen, mck
vars == <<mclen, mck>>
Msg(l) == GenMsg([k |-> "mix", seed |-> 77], l)
Init == mclen = 0 /\ mck = 0
Next == \/ mclen < MaxPad /\ mclen' = mclen + 1 /\ mck' = 0
        \/ mclen <= MaxMach /\ mck < mclen \div 64 /\ mck' = mck + 1 /\ mclen' = mclen
PadOK2(l, p, q) == /\ p = q
                   /\ Len(p) % 64 = 0
                   /\ Len(p) = 64 * ((l + 9 + 63) \div 64)
                   /\ SubSeq(p, 1, l) = Msg(l) /\ p[l+1] = 128
                   /\ \A i \in (l+2)..(Len(p)-8) : p[i] = 0
PadOK == PadOK2(mclen, Pad(Msg(mclen)), PadImpl(Msg(mclen)))
MachOK2(m, n) == Finish(AbsorbTo(AbsorbTo(SM3Init, m, mck), m, n), m) = Hash(m)
MachOK == mclen <= MaxMach => MachOK2(Msg(mclen), mclen \div 64)
\* ---- giant lengths: the length in bytes as 7 big-endian bytes, shifted left by 3 bits into 8 bytes ----
L7(lhi, llo) == << (lhi \div 16777216) % 256, (lhi \div 65536) % 256, (lhi \div 256) % 256, lhi % 256,
                   (llo \div 65536) % 256, (llo \div 256) % 256, llo % 256 >>
Shl3(b) == [i \in 1..8 |-> IF i = 1 THEN b[1] \div 32
                           ELSE ((b[i-1] % 32) * 8) + (IF i <= 7 THEN b[i] \div 32 ELSE 0)]
Giants == { <<0, 0>>, <<0, 1>>, <<1, 0>>, <<31, 16777215>>, <<32, 0>>, <<32, 1>>, <<8192, 0>>, <<2097152, 123456>>,
            <<536870911, 16777215>>, <<536870912, 0>>, <<2147483647, 16777215>>, <<255, 255>>, <<65535, 65535>> }
GiantOK == \A g \in Giants : Len64(g[1], g[2]) = Shl3(L7(g[1], g[2]))
\* the padded tail of a giant message: right number of zero bytes, whole blocks
GiantTailOK == \A g \in Giants : \A t \in {0, 1, 55, 56, 63} :
      LET tail == [i \in 1..t |-> 1] llo == (g[2] - (g[2] % 64)) + t
          pt == PadTail(tail, g[1], llo) IN
      /\ Len(pt) % 64 = 0 /\ Len(pt) \in {64, 128} /\ (Len(pt) = 128 <=> t >= 56)
      /\ SubSeq(pt, Len(pt) - 7, Len(pt)) = Shl3(L7(g[1], llo))
ASSUME GiantOK
ASSUME GiantTailOK
Inv == PadOK /\ MachOK
=============================================================================
