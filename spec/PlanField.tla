----------------------------- MODULE PlanField -----------------------------
(***************************************************************************)
(* E2 plan for C11: operands for the SM2 field / scalar arithmetic whose     *)
(* Montgomery products land just above the modulus.                          *)
(* SM2's p and n are within 2^224 of 2^256, so the final correction of a      *)
(* Montgomery multiplication has a branch -- "no carry out of 2^256, but the  *)
(* value is in [m, 2^256)" -- that random operands take with probability      *)
(* 2^-32.  It is taken (with overwhelming probability) exactly when the        *)
(* reduced result is SMALL, so the specification solves for such operands:     *)
(*   raw Montgomery product (mod p):  b = delta * R * a^-1       (a b R^-1 = delta) *)
(*   to_mont / from_mont (mod p):      a = delta * R^-1,  a = delta * R             *)
(*   plain product (mod n), each of its three internal steps small:                *)
(*        a = delta * R^-1 ;  b = delta * R^-1 * a^-1 ;  b = delta * a^-1          *)
(*   power (mod n) with a small result:  a = delta^(e^-1 mod (n-1)) is not          *)
(*        solvable in general -- covered by the product families.                   *)
(* delta ranges over 0, 1, 2, 2^64, 2^128, 2^223 and hash-derived values < 2^224. *)
(***************************************************************************)
EXTENDS SM2, Json
CONSTANT NK
VARIABLES pidx, pout
Seed(j, tag) == Hash(<<j, tag, 70, 76, 68>>)
RR == BFromBE(<<1>> \o [q \in 1..32 |-> 0])                 \* 2^256
Inv(x, m) == BPowMod(x, BSub(m, <<2>>), m)
Rm(m) == BMod(RR, m)
RInv(m) == Inv(Rm(m), m)
Deltas(j) == << BZero, <<1>>, <<2>>, BFromBE(<<1>> \o [q \in 1..8 |-> 0]), BFromBE(<<1>> \o [q \in 1..16 |-> 0]), BFromBE(<<128>> \o [q \in 1..27 |-> 0]),
                BFromBE(SubSeq(Seed(j, 1), 1, 28)), BFromBE(SubSeq(Seed(j, 2), 1, 20)) >>
Aof(j, m) == BAdd(BMod(BFromBE(Seed(j, 3)), BSub(m, <<1>>)), <<1>>)
Rec(kind, f, a, b) == [kind |-> kind, f |-> f, a |-> B32(a), b |-> B32(b)]
FpCases(j, a, d) == << Rec("fp", "mul", a, BMulMod(BMulMod(d, Rm(PP), PP), Inv(a, PP), PP)),
                       Rec("fp", "to_mont", BMulMod(d, RInv(PP), PP), BZero),
                       Rec("fp", "from_mont", BMulMod(d, Rm(PP), PP), BZero),
                       Rec("fp", "mul", BMulMod(d, Rm(PP), PP), <<1>>) >>
FnCases(j, a, d) == << Rec("fn", "mul", BMulMod(d, RInv(NN), NN), a),
                       Rec("fn", "mul", a, BMulMod(BMulMod(d, RInv(NN), NN), Inv(a, NN), NN)),
                       Rec("fn", "mul", a, BMulMod(d, Inv(a, NN), NN)) >>
RECURSIVE Cat(_, _)
Cat(seqs, i) == IF i > Len(seqs) THEN <<>> ELSE seqs[i] \o Cat(seqs, i + 1)
\* results that equal the modulus except in ONE 64-bit limb (m - 2^64, m - 2^128, m - 2^192): a final comparison with the modulus that skips
\* or mis-orders a limb decides them wrongly; and the same values as operands of additions (kind "add": a + b = m - 2^(64 i))
LimbBelow(m, i) == BSub(m, BFromBE(<<1>> \o [q \in 1..(8 * i) |-> 0]))
LimbCases(j) == Cat([i \in 1..3 |-> FpCases(j, Aof(j, PP), LimbBelow(PP, i)) \o FnCases(j, Aof(j, NN), LimbBelow(NN, i))
                                   \o << Rec("fp", "add", BSub(LimbBelow(PP, i), <<5>>), <<5>>), Rec("fn", "add", BSub(LimbBelow(NN, i), <<5>>), <<5>>),
                                         Rec("fp", "add", LimbBelow(PP, i), BFromBE(<<1>> \o [q \in 1..(8 * i) |-> 0])), Rec("fn", "add", LimbBelow(NN, i), BFromBE(<<1>> \o [q \in 1..(8 * i) |-> 0])) >>], 1)
\* sums that are EXACTLY the modulus (result 0) or one less / one more
ExactCases == << Rec("fp", "add", BSub(PP, <<5>>), <<5>>), Rec("fp", "add", BSub(PP, <<1>>), <<1>>), Rec("fp", "add", BSub(PP, <<5>>), <<4>>), Rec("fp", "add", BSub(PP, <<5>>), <<6>>),
                Rec("fn", "add", BSub(NN, <<5>>), <<5>>), Rec("fn", "add", BSub(NN, <<1>>), <<1>>), Rec("fn", "add", BSub(NN, <<5>>), <<4>>), Rec("fn", "add", BSub(NN, <<5>>), <<6>>) >>
Cases(j) == (IF j = 1 THEN LimbCases(j) \o ExactCases ELSE <<>>) \o Cat([q \in 1..Len(Deltas(j)) |-> FpCases(j, Aof(j, PP), Deltas(j)[q]) \o FnCases(j, Aof(j, NN), Deltas(j)[q])], 1)
\* two DIFFERENT curve points with the same y: for P = (x1, y) the other roots of x^3 + a x + b = y^2 are (-x1 +- sqrt(-3 x1^2 - 4a)) / 2
Half(v) == BMulMod(v, BPowMod(<<2>>, BSub(PP, <<2>>), PP), PP)
OtherX(x1, sq) == Half(BSubMod(sq, x1, PP))
Disc(x1) == BSubMod(BSubMod(BZero, BMulMod(<<3>>, BMulMod(x1, x1, PP), PP), PP), BMulMod(<<4>>, AA, PP), PP)
RECURSIVE SameY(_, _, _)
SameY(x, need, acc) == IF need = 0 \/ x > 300 THEN acc
                       ELSE IF C!Lift(<<x>>, 0)[1] = "ok" /\ C!Sqrt(Disc(<<x>>))[1] = "ok" /\ C!Sqrt(Disc(<<x>>))[2] # BZero /\ OtherX(<<x>>, C!Sqrt(Disc(<<x>>))[2]) # <<x>>
                            THEN SameY(x + 1, need - 1, Append(acc, [kind |-> "samey", x1 |-> B32(<<x>>), y |-> B32(C!Lift(<<x>>, 0)[2][2]), x2 |-> B32(OtherX(<<x>>, C!Sqrt(Disc(<<x>>))[2]))]))
                            ELSE SameY(x + 1, need, acc)
SameYCases == SameY(1, 3, <<>>)
ASSUME \A q \in 1..Len(SameYCases) : C!OnCurve(<<BFromBE(SameYCases[q].x2), BFromBE(SameYCases[q].y)>>) /\ SameYCases[q].x2 # SameYCases[q].x1
Init == pidx = 0 /\ pout = <<>>
Next == pidx < NK /\ pidx' = pidx + 1 /\ pout' = Cases(pidx + 1) \o (IF pidx = 0 THEN SameYCases ELSE <<>>)
Emit == \A j \in 1..Len(pout) : PrintT(<<"PLAN", ToJson(pout[j])>>)
=============================================================================
