import java.math.BigInteger;
import tlc2.value.impl.*;

/** TLC module overrides for BigNat.tla: canonical big-endian base-256 digit tuples <-> BigInteger. */
public class BigNat {
  static BigInteger toBig(Value v) {
    TupleValue t = (TupleValue) v.toTuple();
    byte[] b = new byte[t.elems.length + 1];
    for (int i = 0; i < t.elems.length; i++) b[i + 1] = (byte) ((IntValue) t.elems[i]).val;
    return new BigInteger(b);
  }
  static Value fromBig(BigInteger x, int len) {
    byte[] b = x.toByteArray();
    Value[] e = new Value[len];
    for (int i = 0; i < len; i++) { int j = b.length - len + i; e[i] = IntValue.gen(j >= 0 ? (b[j] & 0xff) : 0); }
    return new TupleValue(e);
  }
  static Value canon(BigInteger x) { return fromBig(x, (x.bitLength() + 7) / 8); }
  static Value str(String s) { return new StringValue(s); }
  public static Value BCmp(Value a, Value b) { int c = toBig(a).compareTo(toBig(b)); return str(c < 0 ? "lt" : c > 0 ? "gt" : "eq"); }
  public static Value BAdd(Value a, Value b) { return canon(toBig(a).add(toBig(b))); }
  public static Value BSub(Value a, Value b) { return canon(toBig(a).subtract(toBig(b))); }
  public static Value BMul(Value a, Value b) { return canon(toBig(a).multiply(toBig(b))); }
  public static Value BMod(Value a, Value m) { return canon(toBig(a).mod(toBig(m))); }
  public static Value BAddMod(Value a, Value b, Value m) { return canon(toBig(a).add(toBig(b)).mod(toBig(m))); }
  public static Value BSubMod(Value a, Value b, Value m) { return canon(toBig(a).subtract(toBig(b)).mod(toBig(m))); }
  public static Value BMulMod(Value a, Value b, Value m) { return canon(toBig(a).multiply(toBig(b)).mod(toBig(m))); }
  public static Value BPowMod(Value a, Value e, Value m) { return canon(toBig(a).modPow(toBig(e), toBig(m))); }
  public static Value BBitLen(Value a) { return IntValue.gen(toBig(a).bitLength()); }
  public static Value BBit(Value a, Value i) { return toBig(a).testBit(((IntValue) i).val) ? IntValue.gen(1) : IntValue.gen(0); }
  public static Value BFromBE(Value a) { return canon(toBig(a)); }
  public static Value BToBE(Value a, Value n) { return fromBig(toBig(a), ((IntValue) n).val); }
}
