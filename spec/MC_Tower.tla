---------------------------- MODULE MC_Tower ----------------------------
(* E1 for C13: the code's Fp2/Fp4 tower formulas (gm-sm9/src/fields/fp2.rs, fp4.rs) over the toy prime 13,
   where x^12+2 is irreducible as it is for the SM9 prime.  L0 = polynomial arithmetic in Fp[w]/(w^12+2)
   restricted to the subfields u = w^6 (Fp2) and v = w^3 (Fp4).  BUGGY = TRUE transcribes fp2.rs literally. *)
EXTENDS Integers, TLC
CONSTANTS P, BUGGY
F == 0..(P-1)
M(x) == x % P
RECURSIVE PowF(_,_)
PowF(x, e) == IF e = 0 THEN 1 ELSE M(x * PowF(x, e-1))
InvF(x) == PowF(x, P-2)
Neg(x) == M(P - x)
\* ---------- L1: Fp2 as in fp2.rs (u^2 = -2) ----------
F2 == F \X F
Zero2 == <<0,0>>
One2 == <<1,0>>
Add2(a,b) == <<M(a[1]+b[1]), M(a[2]+b[2])>>
Sub2(a,b) == <<M(a[1]-b[1]+P), M(a[2]-b[2]+P)>>
Neg2(a) == <<Neg(a[1]), Neg(a[2])>>
Dbl2(a) == Add2(a,a)
Mul2(a,b) == LET r0 == M(a[1]*b[1])  t == M(a[2]*b[2])
                 r1 == M(M((b[1]+b[2]) * (a[1]+a[2])) - r0 - t + 2*P)
             IN << M(r0 - 2*t + 2*P), r1 >>
Sqr2(a) == LET r1 == M(a[1]*a[2]) IN << M(M((a[1]+a[2]) * M(a[1] - 2*a[2] + 2*P)) + r1), M(2*r1) >>
Inv2(a) == IF a[1] = 0
           THEN << 0, Neg(InvF(IF BUGGY THEN a[2] ELSE M(2*a[2]))) >>      \* fp2.rs:145-147: `r1 = self.c1.fp_inv()` discards the doubling
           ELSE IF a[2] = 0 THEN << InvF(a[1]), 0 >>
           ELSE LET k == InvF(M(a[1]*a[1] + 2*a[2]*a[2])) IN << M(a[1]*k), Neg(M(a[2]*k)) >>
AMulU(a) == << Neg(M(2*a[2])), a[1] >>                                   \* a * u
SqrU(a) == << Neg(M(4*a[1]*a[2])), M(a[1]*a[1] - 2*a[2]*a[2] + 2*P*P) >> \* a^2 * u
\* ---------- L0 for Fp2: a0 + a1 u with u^2 = -2, schoolbook ----------
Mul2Def(a,b) == << M(a[1]*b[1] + (P-2)*a[2]*b[2]), M(a[1]*b[2] + a[2]*b[1]) >>
\* ---------- L1: Fp4 as in fp4.rs (v^2 = u) ----------
Add4(a,b) == <<Add2(a[1],b[1]), Add2(a[2],b[2])>>
Mul4(a,b) == LET m0 == Mul2(a[1],b[1])  t == Mul2(a[2],b[2])
                 r1 == Sub2(Sub2(Mul2(Add2(b[1],b[2]), Add2(a[1],a[2])), m0), t)
             IN << Add2(m0, AMulU(t)), r1 >>
Inv4(a) == LET k == Inv2(Sub2(SqrU(a[2]), Sqr2(a[1])))
           IN << Neg2(Mul2(a[1], k)), Mul2(a[2], k) >>
Mul4Def(a,b) == << Add2(Mul2Def(a[1],b[1]), Mul2Def(<<0,1>>, Mul2Def(a[2],b[2]))), Add2(Mul2Def(a[1],b[2]), Mul2Def(a[2],b[1])) >>
One4 == <<One2, Zero2>>
Zero4 == <<Zero2, Zero2>>
\* ---------- exhaustive checks, enumeration in Next so that workers share it ----------
VARIABLES tw_phase, tw_x, tw_y
Init == tw_phase = "start" /\ tw_x = Zero2 /\ tw_y = Zero2
Next == \/ /\ tw_phase = "start" /\ tw_phase' = "fp2" /\ tw_x' \in F2 /\ tw_y' \in F2
        \/ /\ tw_phase = "start" /\ tw_phase' = "fp4" /\ tw_x' \in F2 /\ tw_y' \in F2
Fp2MulOk == tw_phase = "fp2" => Mul2(tw_x,tw_y) = Mul2Def(tw_x,tw_y) /\ Sqr2(tw_x) = Mul2Def(tw_x,tw_x) /\ AMulU(tw_x) = Mul2Def(tw_x, <<0,1>>) /\ SqrU(tw_x) = Mul2Def(Mul2Def(tw_x,tw_x), <<0,1>>)
Fp2InvOk == tw_phase = "fp2" /\ tw_x # Zero2 => Mul2Def(tw_x, Inv2(tw_x)) = One2
\* Fp4 element <<tw_x, tw_y>> : all 13^4 = 28561 elements
Fp4InvOk == tw_phase = "fp4" /\ <<tw_x,tw_y>> # Zero4 => Mul4Def(<<tw_x,tw_y>>, Inv4(<<tw_x,tw_y>>)) = One4
Fp4MulOk == tw_phase = "fp4" => Mul4(<<tw_x,tw_y>>, <<tw_y,tw_x>>) = Mul4Def(<<tw_x,tw_y>>, <<tw_y,tw_x>>)
=====================================================================
