CONSTANTS W = 2 R = 4 BAD = FALSE
INIT Init
NEXT Next
INVARIANT Inverse
CHECK_DEADLOCK FALSE
