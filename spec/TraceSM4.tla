----------------------------- MODULE TraceSM4 -----------------------------
(***************************************************************************)
(* Trace specification for gm-sm4 (C02 block cipher, C07 modes).            *)
(* Session = one cipher object.  The session state is the round-key tuple   *)
(* the SPECIFICATION derives from the key given at construction; it never   *)
(* changes (rk' = rk: the object is immutable), so a result that depends on *)
(* the call history cannot be explained.                                    *)
(*   sm4.new   rk (read from the Debug rendering) = KeySchedule(key)         *)
(*   sm4.enc / sm4.dec   out = Enc/Dec(tst.rk, block)                         *)
(*   sm4.mode  (stateless at API level) outcome = Enc/DecOutcome(...)        *)
(***************************************************************************)
EXTENDS SM4Modes, Gen, Json, IOUtils
Events == ndJsonDeserialize(IOEnv.TRACE)
N == Len(Events)
VARIABLES tpos, tst, tlast
IsStart(i) == i = 1 \/ Events[i].sess # Events[i-1].sess
St0 == [rk |-> <<>>]
Verdict(e, ok, class, kind) == <<e.id, IF ok THEN "ok" ELSE "dev", e.prop, class, IF ok THEN "-" ELSE kind>>
BadOutcome(e) == e.outcome \in {"panic", "timeout"}
\* --- construction ---
New2(e, rk) == /\ tst' = [rk |-> rk]
               /\ tlast' = Verdict(e, e.outcome = "ok" /\ (e.rk = rk \/ e.rk = <<>>), IF e.rk = <<>> THEN "keyschedule-opaque" ELSE "keyschedule", IF e.outcome # "ok" THEN e.outcome ELSE "wrong-round-keys")
New1(e) == New2(e, KeySchedule(e.key))
\* --- single block ---
Blk2(e, exp) == /\ tst' = tst
                /\ tlast' = Verdict(e, e.outcome = "ok" /\ e.out = exp, e.op \o "." \o e.kind, IF e.outcome # "ok" THEN e.outcome ELSE "wrong-block")
\* a block of the wrong length must be refused (and must leave the object as it was: the following events of the session are judged as usual)
BlkBad(e) == /\ tst' = tst
             /\ tlast' = Verdict(e, e.outcome = "err", e.op \o "." \o e.kind, IF e.outcome = "ok" THEN "accepted-bad-length" ELSE e.outcome)
Blk1(e) == IF Len(e.block) # 16 THEN BlkBad(e) ELSE Blk2(e, IF e.op = "sm4.enc" THEN Enc(tst.rk, e.block) ELSE Dec(tst.rk, e.block))
\* --- modes ---
LenCls(n) == IF n = 0 THEN "len0" ELSE IF n < 16 THEN "partial" ELSE IF n = 16 THEN "one" ELSE IF n % 16 = 0 THEN "blocks" ELSE "blocks+tail"
RECURSIVE TrailFF(_,_)
TrailFF(iv, i) == IF i = 0 THEN 0 ELSE IF iv[i] = 255 THEN 1 + TrailFF(iv, i-1) ELSE 0
ModeClass(e, n) == e.mode \o "." \o e.dir \o "." \o (IF Len(e.iv) # 16 THEN "badiv"
                     ELSE IF e.mode = "ctr" /\ n > 16 /\ TrailFF(e.iv, 16) > 0 THEN (IF TrailFF(e.iv, 16) = 16 THEN "wrap" ELSE "carry")
                     ELSE LenCls(n))
\* CBC decryption where the tlast byte is in 1..16 but the padding bytes are not all equal: the property is silent
\* (a strict PKCS#7 check may reject) -> both outcomes allowed
PadConsistent(p) == \A i \in (Len(p) - p[Len(p)] + 1)..Len(p) : p[i] = p[Len(p)]
ModeOk(e, exp) == IF exp[1] = "err" THEN e.outcome = "err"
                  ELSE \/ e.outcome = "ok" /\ e.out = exp[2]
                       \/ e.lenient = 1 /\ e.outcome = "err"
Mode3(e, d, exp) == /\ tst' = tst
                    /\ tlast' = Verdict(e, ModeOk(e, exp), ModeClass(e, Len(d)),
                                       IF BadOutcome(e) THEN e.outcome ELSE IF exp[1] = "err" THEN "accepted-but-spec-rejects"
                                       ELSE IF e.outcome = "err" THEN "rejected-but-spec-accepts" ELSE "wrong-output")
\* strictness: for CBC decryption with inconsistent padding either outcome is allowed
LenientP(p) == IF p[Len(p)] \in 1..16 /\ ~PadConsistent(p) THEN 1 ELSE 0
Lenient(e, d, rk) == IF e.mode = "cbc" /\ e.dir = "dec" /\ Len(e.iv) = 16 /\ Len(d) > 0 /\ Len(d) % 16 = 0
                     THEN LenientP(M!CbcD(rk, d, 0, e.iv, <<>>)) ELSE 0
Mode2(e, d, rk) == Mode3([e EXCEPT !.lenient = Lenient(e, d, rk)], d, IF e.dir = "enc" THEN M!EncOutcome(e.mode, rk, e.iv, d) ELSE M!DecOutcome(e.mode, rk, e.iv, d))
\* LARGE inputs (more than 4096 bytes): judged with the local form of the modes (BlockModes: one equation per block, no recursion over the blocks;
\* equivalence with the recursive definitions checked by MC_Modes); the CBC leniency rule is evaluated on the last block
LargeLenient(e, d, rk) == e.mode = "cbc" /\ e.dir = "dec" /\ e.outcome = "err" /\ Len(e.iv) = 16 /\ Len(d) % 16 = 0
                          /\ LenientP(M!CbcPlainBlk(rk, e.iv, d, (Len(d) \div 16) - 1)) = 1
ModeL(e, d, rk) == /\ tst' = tst
                   /\ tlast' = Verdict(e, (IF e.dir = "enc" THEN M!EncLocalOK(e.mode, rk, e.iv, d, e.outcome, e.out) ELSE M!DecLocalOK(e.mode, rk, e.iv, d, e.outcome, e.out))
                                           \/ LargeLenient(e, d, rk),
                                       ModeClass(e, Len(d)) \o ".large", IF BadOutcome(e) THEN e.outcome ELSE "wrong-output")
Mode1b(e, d, rk) == IF Len(d) > 4096 THEN ModeL(e, d, rk) ELSE Mode2(e, d, rk)
Mode1(e) == Mode1b(e, MsgOf(e), KeySchedule(e.key))
Step(e) == IF e.op = "sm4.new" THEN New1(e)
           ELSE IF e.op \in {"sm4.enc", "sm4.dec"} THEN Blk1(e)
           ELSE IF e.op = "sm4.mode" THEN Mode1(e)
           ELSE tst' = tst /\ tlast' = <<e.id, "dev", e.prop, "unknown-op", e.op>>
TInit == tpos \in {i \in 1..N : IsStart(i)} /\ tst = St0 /\ tlast = <<>>
TNext == tpos <= N /\ (tlast = <<>> \/ ~IsStart(tpos)) /\ tpos' = tpos + 1 /\ Step(Events[tpos])
Report == tlast # <<>> => PrintT(<<"V", ToJson(tlast)>>)
=============================================================================
