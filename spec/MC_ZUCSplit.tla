---------------------------- MODULE MC_ZUCSplit ----------------------------
(***************************************************************************)
(* E1 for C08 (histories): the request layer refines the one-word-at-a-time *)
(* stream.  For a fixed (key, iv) and EVERY sequence of request sizes with  *)
(* total <= TOTAL (zero-length requests included, at most ZMAX), the words   *)
(* returned by successive Request(zs, n) calls, concatenated, equal the      *)
(* prefix of KeyStream(key, iv, TOTAL), and the machine state after the      *)
(* requests equals the state after that many single-word steps.              *)
(***************************************************************************)
EXTENDS ZUC
CONSTANTS TOTAL, ZMAX
KS == Request(Start(K3, IV3), TOTAL)[1]
VARIABLES szs, sout, szeros
Init == szs = Start(K3, IV3) /\ sout = <<>> /\ szeros = 0
Do(n, r) == szs' = r[2] /\ sout' = sout \o r[1] /\ szeros' = IF n = 0 THEN szeros + 1 ELSE szeros
Next == \E n \in 0..TOTAL : Len(sout) + n <= TOTAL /\ (n = 0 => szeros < ZMAX) /\ Do(n, Request(szs, n))
Prefix == sout = SubSeq(KS, 1, Len(sout))
RECURSIVE Single(_, _)
Single(zs, n) == IF n = 0 THEN zs ELSE Single(Produce(zs)[2], n - 1)
StateOK == szs = Single(Start(K3, IV3), Len(sout))
Inv == Prefix /\ StateOK
=============================================================================
