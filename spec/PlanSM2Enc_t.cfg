CONSTANT NK = 24
INIT Init
NEXT Next
INVARIANT Emit
CHECK_DEADLOCK FALSE
