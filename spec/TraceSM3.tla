----------------------------- MODULE TraceSM3 -----------------------------
(***************************************************************************)
(* Trace specification for gm-sm3 (property C01).  Every event recorded     *)
(* from the real library must be a step of the SM3 machine:                 *)
(*   sm3.hash   digest = Finish(AbsorbTo(tst, m), m)                          *)
(*   sm3.block  (hook) one observed compression V_i -> V_{i+1}               *)
(*   sm3.final  (hook) the padded tail and digest of a giant message         *)
(* A session is a run of events with the same `sess`; within a session the  *)
(* machine state (blocks absorbed, chaining value) is carried over when the *)
(* next message is a longer output of the same generator (prefix sharing).  *)
(* A deviation is recorded in the verdict and validation continues.         *)
(***************************************************************************)
EXTENDS SM3, Gen, Json, IOUtils
Events == ndJsonDeserialize(IOEnv.TRACE)
N == Len(Events)
VARIABLES tpos, tst, tlast
vars == <<tpos, tst, tlast>>
IsStart(i) == i = 1 \/ Events[i].sess # Events[i-1].sess
St0 == [k |-> "none", seed |-> 0, n |-> 0, v |-> IV]

LenClass(len) == IF len = 0 THEN "empty" ELSE IF len % 64 = 55 THEN "r55" ELSE IF len % 64 = 56 THEN "r56"
                 ELSE IF len % 64 = 63 THEN "r63" ELSE IF len % 64 = 0 THEN "r0" ELSE IF len < 64 THEN "short" ELSE "multi"
\* base machine state for message m of event e
Base(e, nfull) == IF e.gen.k # "raw" /\ tst.k = e.gen.k /\ tst.seed = e.gen.seed /\ tst.n <= nfull THEN [n |-> tst.n, v |-> tst.v] ELSE SM3Init
Verdict(e, ok, class, kind) == <<e.id, IF ok THEN "ok" ELSE "dev", "C01", class, IF ok THEN "-" ELSE kind>>
HashKind(e) == IF e.outcome # "ok" THEN e.outcome ELSE "wrong-digest"
\* --- sm3.hash ---
Hash3(e, m, st1, d) == /\ tst' = [k |-> e.gen.k, seed |-> e.gen.seed, n |-> st1.n, v |-> st1.v]
                       /\ tlast' = Verdict(e, e.outcome = "ok" /\ e.digest = d, IF e.gen.k = "raw" /\ Len(m) = 64 /\ InternalCoincidence(m) THEN "crafted-internal" ELSE IF e.gen.k = "raw" /\ CraftedValue(m) THEN "crafted-value" ELSE LenClass(Len(m)), HashKind(e))
Hash2(e, m, st1) == Hash3(e, m, st1, Finish(st1, m))
Hash1(e, m) == Hash2(e, m, AbsorbTo(Base(e, Len(m) \div 64), m, Len(m) \div 64))
\* --- sm3.block (hook): block index e.idx (0-based) of the generated message; chaining values before/after as 8 words ---
BlockBytes(e) == TLCEval([i \in 1..64 |-> GenByteAt(e.gen.k, e.gen.seed, e.idx, i - 1)])
W8(bytes) == << WOfBytes(bytes,0), WOfBytes(bytes,4), WOfBytes(bytes,8), WOfBytes(bytes,12), WOfBytes(bytes,16), WOfBytes(bytes,20), WOfBytes(bytes,24), WOfBytes(bytes,28) >>
Block1(e) == /\ tst' = tst
             /\ tlast' = Verdict(e, CF(W8(e.vin), BlockBytes(e), 0) = W8(e.vout), "hook-block", "wrong-compression")
\* --- sm3.final (hook): giant message of e.lhi*2^24 + e.llo bytes; vin = chaining value after all full blocks ---
TailBytes(e) == TLCEval([i \in 1..(e.llo % 64) |-> GenByteAt(e.gen.k, e.gen.seed, e.nfull, i - 1)])
Final2(e, pt) == /\ tst' = tst
                 /\ tlast' = Verdict(e, DigestBytes(IterG(W8(e.vin), pt, 0, Len(pt) \div 64)) = e.digest, "giant-final", "wrong-digest")
Final1(e) == Final2(e, TLCEval(PadTail(TailBytes(e), e.lhi, e.llo)))
Step(e) == IF e.op = "sm3.hash" THEN Hash1(e, MsgOf(e))
           ELSE IF e.op = "sm3.block" THEN Block1(e)
           ELSE IF e.op = "sm3.final" THEN Final1(e)
           ELSE tst' = tst /\ tlast' = <<e.id, "dev", "C01", "unknown-op", e.op>>
TInit == tpos \in {i \in 1..N : IsStart(i)} /\ tst = St0 /\ tlast = <<>>
TNext == tpos <= N /\ (tlast = <<>> \/ ~IsStart(tpos)) /\ tpos' = tpos + 1 /\ Step(Events[tpos])
Report == tlast # <<>> => PrintT(<<"V", ToJson(tlast)>>)
=============================================================================
