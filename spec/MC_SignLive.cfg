CONSTANTS n = 11 MAXD = 9
SPECIFICATION Spec
PROPERTY Terminates
INVARIANT SigInRange
CHECK_DEADLOCK FALSE
