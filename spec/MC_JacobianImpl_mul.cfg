CONSTANTS P = 23 B = 15 FIXED = TRUE MODE = "mul" NIB = 2
INIT Init
NEXT Next
INVARIANT Inv
CHECK_DEADLOCK FALSE
