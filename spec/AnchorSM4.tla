----------------------------- MODULE AnchorSM4 -----------------------------
(* Anchors the SM4 / mode definitions against OpenSSL-3.0-made vectors (corpus/sm4_openssl.ndjson): a mismatch
   here is a transcription error of the SPECIFICATION (tool error), never an alarm about the code. *)
EXTENDS SM4Modes, Json
Vec == ndJsonDeserialize("../corpus/sm4_openssl.ndjson")
VARIABLES apos, afin
Init == apos \in 1..Len(Vec) /\ afin = FALSE
Next == ~afin /\ afin' = TRUE /\ apos' = apos
RECURSIVE Ecb(_,_,_,_)
Ecb(rk, d, j, out) == IF 16*j >= Len(d) THEN out ELSE Ecb(rk, d, j+1, out \o Enc(rk, SubSeq(d, 16*j+1, 16*j+16)))
Ct(v, rk) == IF v.mode = "ecb" THEN Ecb(rk, v.pt, 0, <<>>) ELSE M!ModeEnc(v.mode, rk, v.iv, v.pt)
Pt(v, rk) == IF v.mode = "ecb" THEN <<"ok", v.pt>> ELSE M!DecOutcome(v.mode, rk, v.iv, v.ct)
OkAt(v, rk) == Ct(v, rk) = v.ct /\ Pt(v, rk) = <<"ok", v.pt>>
AnchorOK == afin => OkAt(Vec[apos], TLCEval(KeySchedule(Vec[apos].key)))
=============================================================================
