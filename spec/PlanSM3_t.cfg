INIT Init
NEXT Next
INVARIANT Emit
INVARIANT EmitZ
INVARIANT EmitS
CONSTANT Stride = 1
CHECK_DEADLOCK FALSE
