INIT Init
NEXT Next
INVARIANT Emit
CONSTANT Stride = 1
CHECK_DEADLOCK FALSE
