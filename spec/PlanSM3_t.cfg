INIT Init
NEXT Next
INVARIANT Emit
INVARIANT EmitZ
CONSTANT Stride = 1
CHECK_DEADLOCK FALSE
