------------------------------ MODULE MC_SM2Enc ------------------------------
(***************************************************************************)
(* E1 for C05 / C06: SM2 public-key encryption on a toy curve               *)
(* y^2 = x^3 - 3x + B over F_P with symbols 0..SYM-1 as "bytes", a toy KDF   *)
(* and a toy hash (arbitrary fixed functions; collisions exist and are part *)
(* of the universe).                                                         *)
(*  round trip: for EVERY key d, nonce k, message symbol, component order and *)
(*    C1 encoding (uncompressed / compressed with square root and parity):    *)
(*    Dec(Enc(M)) = M unless the KDF output is all zero (then Enc retries).    *)
(*  total decryption: for EVERY symbol string of ciphertext length            *)
(*    (prefix, x, y, C3, C2) the code-shaped decryptor DecImpl (the checks of *)
(*    gm-sm2 in their order) equals the declarative DecStd.                   *)
(*  Negative configurations (DROP): no on-curve check (invalid-curve points), *)
(*    coordinates reduced instead of rejected, any prefix accepted, no C3     *)
(*    comparison -- each must be REFUTED.                                     *)
(***************************************************************************)
EXTENDS Integers, Sequences, FiniteSets, TLC
CONSTANTS P, B, SYM, DROP
A == P - 3
F == 0..(P-1)
M(x) == x % P
RECURSIVE PowF(_,_)
PowF(x, e) == IF e = 0 THEN 1 ELSE M(x * PowF(x, e-1))
InvF(x) == PowF(x, P-2)
Inf == <<"inf">>
OnCurve(x, y) == M(y*y) = M(x*x*x + A*x + B)
Pts == { <<x,y>> \in F \X F : OnCurve(x,y) }
AffDbl(p) == IF p = Inf \/ p[2] = 0 THEN Inf ELSE
   LET l == M((3*p[1]*p[1] + A) * InvF(2*p[2]))
       x3 == M(l*l - 2*p[1] + 2*P)
   IN <<x3, M(l*(p[1] - x3 + P) - p[2] + P)>>
AffAdd(p, q) == IF p = Inf THEN q ELSE IF q = Inf THEN p ELSE
   IF p[1] = q[1] THEN (IF p[2] = q[2] THEN AffDbl(p) ELSE Inf) ELSE
   LET l == M((q[2] - p[2] + P) * InvF(q[1] - p[1] + P))
       x3 == M(l*l - p[1] - q[1] + 2*P)
   IN <<x3, M(l*(p[1] - x3 + P) - p[2] + P)>>
RECURSIVE Mul(_,_)
Mul(k, a) == IF k = 0 THEN Inf ELSE AffAdd(a, Mul(k-1, a))
NOrd == Cardinality(Pts) + 1
G == CHOOSE g \in Pts : TRUE
Kdf(x2, y2) == (3*x2 + 5*y2 + 1) % SYM                    \* toy KDF, klen = 1 symbol
Hsh(x2, m, y2) == (7*x2 + 11*m + 13*y2 + 5) % SYM          \* toy hash
XorS(a, b) == (a + SYM - b) % SYM                          \* an involution-free "xor": C2 = M - t, M = C2 + t
UnXor(c, b) == (c + b) % SYM
Sqrt(a) == IF \E r \in F : M(r*r) = a THEN <<"ok", CHOOSE r \in F : M(r*r) = a>> ELSE <<"none">>
\* ---- encryption (standard) ----
EncodeC1(pt, comp) == IF comp THEN <<2 + (pt[2] % 2), pt[1]>> ELSE <<4, pt[1], pt[2]>>
Enc(pk, k, m, order, comp) == LET c1 == Mul(k, G)  s == Mul(k, pk)  t == Kdf(s[1], s[2]) IN
   IF t = 0 THEN <<"retry">>
   ELSE <<"ok", EncodeC1(c1, comp) \o (IF order = "c1c2c3" THEN <<XorS(m, t), Hsh(s[1], m, s[2])>> ELSE <<Hsh(s[1], m, s[2]), XorS(m, t)>>)>>
\* ---- declarative decryption (L0) ----
DecodeStd(c, comp) == IF comp
   THEN (IF c[1] \in {2, 3} /\ c[2] < P /\ Sqrt(M(c[2]*c[2]*c[2] + A*c[2] + B))[1] = "ok"
         THEN (LET r == Sqrt(M(c[2]*c[2]*c[2] + A*c[2] + B))[2] IN <<"ok", <<c[2], IF r % 2 = c[1] - 2 THEN r ELSE M(P - r)>>>>) ELSE <<"err">>)
   ELSE (IF c[1] = 4 /\ c[2] < P /\ c[3] < P /\ OnCurve(c[2], c[3]) THEN <<"ok", <<c[2], c[3]>>>> ELSE <<"err">>)
Body(c, comp, order) == LET o == IF comp THEN 2 ELSE 3 IN IF order = "c1c2c3" THEN <<c[o+1], c[o+2]>> ELSE <<c[o+2], c[o+1]>>      \* <<C2, C3>>
DecStd(d, c, order, comp) == LET dp == DecodeStd(c, comp) IN
   IF dp[1] = "err" THEN <<"err">>
   ELSE LET s == Mul(d, dp[2])  b == Body(c, comp, order) IN
        IF s = Inf THEN <<"err">>
        ELSE IF Kdf(s[1], s[2]) = 0 THEN <<"err">>
        ELSE IF Hsh(s[1], UnXor(b[1], Kdf(s[1], s[2])), s[2]) # b[2] THEN <<"err">> ELSE <<"ok", UnXor(b[1], Kdf(s[1], s[2]))>>
\* ---- code-shaped decryption (L1): from_byte, then is_valid_affine_point, then the rest; DROP removes one check ----
FromByte(c, comp) == IF comp
   THEN (IF c[1] \notin {2, 3} THEN <<"err">>
         ELSE IF c[2] >= P /\ DROP # "range" THEN <<"err">>
         ELSE LET x == M(c[2])  q == Sqrt(M(x*x*x + A*x + B)) IN
              IF q[1] = "none" THEN <<"err">> ELSE <<"ok", <<x, IF q[2] % 2 = c[1] - 2 THEN q[2] ELSE M(P - q[2])>>>>)
   ELSE (IF c[1] # 4 /\ DROP # "prefix" THEN <<"err">>
         ELSE IF (c[2] >= P \/ c[3] >= P) /\ DROP # "range" THEN <<"err">>
         ELSE <<"ok", <<M(c[2]), M(c[3])>>>>)
DecImpl(d, c, order, comp) == LET fb == FromByte(c, comp) IN
   IF fb[1] = "err" THEN <<"err">>
   ELSE IF ~OnCurve(fb[2][1], fb[2][2]) /\ DROP # "curve" THEN <<"err">>
   ELSE LET s == Mul(d, fb[2])  b == Body(c, comp, order) IN       \* for an off-curve point the same chord-tangent formulas are applied
        IF s = Inf THEN <<"err">>
        ELSE IF Kdf(s[1], s[2]) = 0 THEN <<"err">>
        ELSE IF Hsh(s[1], UnXor(b[1], Kdf(s[1], s[2])), s[2]) # b[2] /\ DROP # "hash" THEN <<"err">> ELSE <<"ok", UnXor(b[1], Kdf(s[1], s[2]))>>
VARIABLES ephase, ed, ek, em, eorder, ecomp, ect
Orders == {"c1c2c3", "c1c3c2"}
Init == ephase = "pick" /\ ed = 1 /\ ek = 1 /\ em = 0 /\ eorder = "c1c2c3" /\ ecomp = FALSE /\ ect = <<>>
Next == \/ ephase = "pick" /\ \E d \in 1..(NOrd-2), k \in 1..(NOrd-1), m \in 0..(SYM-1), o \in Orders, cp \in BOOLEAN :
              ed' = d /\ ek' = k /\ em' = m /\ eorder' = o /\ ecomp' = cp /\ ect' = <<>> /\ ephase' = "roundtrip"
        \/ ephase = "pick" /\ \E d \in 1..(NOrd-2), o \in Orders, pc \in 0..7, x \in 0..(SYM-1), y \in 0..(SYM-1), u \in 0..(SYM-1), v \in 0..(SYM-1) :
              ed' = d /\ eorder' = o /\ ecomp' = FALSE /\ ect' = <<pc, x, y, u, v>> /\ ek' = 1 /\ em' = 0 /\ ephase' = "total"
        \/ ephase = "pick" /\ \E d \in 1..(NOrd-2), o \in Orders, pc \in 0..7, x \in 0..(SYM-1), u \in 0..(SYM-1), v \in 0..(SYM-1) :
              ed' = d /\ eorder' = o /\ ecomp' = TRUE /\ ect' = <<pc, x, u, v>> /\ ek' = 1 /\ em' = 0 /\ ephase' = "total"
RoundTrip2(e) == e[1] = "retry" \/ (DecStd(ed, e[2], eorder, ecomp) = <<"ok", em>> /\ DecImpl(ed, e[2], eorder, ecomp) = <<"ok", em>>)
RoundTrip == ephase = "roundtrip" => RoundTrip2(Enc(Mul(ed, G), ek, em, eorder, ecomp))
Total == ephase = "total" => DecImpl(ed, ect, eorder, ecomp) = DecStd(ed, ect, eorder, ecomp)
Inv == RoundTrip /\ Total
=============================================================================
