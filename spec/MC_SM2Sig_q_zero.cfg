CONSTANTS P = 11 B = 10 RR = 8 DROP = "zero"
INIT Init
NEXT Next
INVARIANT Inv
CHECK_DEADLOCK FALSE
