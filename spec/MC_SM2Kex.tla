---------------------------- MODULE MC_SM2Kex ----------------------------
(* E1 for C15: SM2 key agreement (GB/T 32918.3) as a 4-action protocol (A1, B2, A3, B4) on a toy cyclic group Z_n
   "in the exponent" (i stands for [i]G, 0 for the point at infinity, OFF for an off-curve point) with a channel
   adversary that may alter any subset of the four messages RA, RB, SB, SA.  Hashes are free constructors.
   Explored for ALL key pairs, ephemeral scalars and tamper choices.  INF_OK = TRUE is the negative
   configuration: a validity test that accepts the point at infinity (as Point::is_valid does) must be refuted by
   the Infinity invariant. *)
EXTENDS Integers, FiniteSets, TLC
CONSTANTS n, INF_OK
Pts == 0..(n-1)                       \* i stands for [i]G ; 0 = point at infinity
X(i) == IF i <= n - i THEN i ELSE n - i
Xbar(i) == 2 + (X(i) % 2)             \* toy version of 2^w + (x mod 2^w), w = 1
OFF == -1
Valid(p) == p # OFF /\ (INF_OK \/ p # 0)
S(tag, v, ra, rb) == <<"S", tag, v, ra, rb>>
KDF(v) == <<"KDF", v, "ZA", "ZB">>
VARIABLES kx_pc, kx_dA, kx_dB, kx_rA, kx_rB, kx_sent, kx_recv, kx_tampered, kx_accA, kx_accB, kx_KA, kx_KB, kx_S2
vars == <<kx_pc, kx_dA, kx_dB, kx_rA, kx_rB, kx_sent, kx_recv, kx_tampered, kx_accA, kx_accB, kx_KA, kx_KB, kx_S2>>
Msgs == {"RA","RB","SB","SA"}
NoneP == -2
NoneH == <<"none">>
Junk == <<"junk">>
Init == /\ kx_pc = "A1" /\ kx_dA \in 1..(n-2) /\ kx_dB \in 1..(n-2) /\ kx_rA \in 1..(n-1) /\ kx_rB \in 1..(n-1)
        /\ kx_sent = [RA |-> NoneP, RB |-> NoneP, SB |-> NoneH, SA |-> NoneH] /\ kx_recv = [RA |-> NoneP, RB |-> NoneP, SB |-> NoneH, SA |-> NoneH] /\ kx_tampered = {}
        /\ kx_accA = "pending" /\ kx_accB = "pending" /\ kx_KA = NoneH /\ kx_KB = NoneH /\ kx_S2 = NoneH
\* the channel: deliver faithfully or alter
AltPoint(p) == ((Pts \cup {OFF}) \ {p})
Deliver(m, v, alts) == \/ /\ kx_recv' = [kx_recv EXCEPT ![m] = v] /\ kx_tampered' = kx_tampered
                       \/ \E a \in alts : kx_recv' = [kx_recv EXCEPT ![m] = a] /\ kx_tampered' = kx_tampered \cup {m}
A1 == /\ kx_pc = "A1" /\ kx_sent' = [kx_sent EXCEPT !["RA"] = kx_rA] /\ Deliver("RA", kx_rA, AltPoint(kx_rA))
      /\ kx_pc' = "B2" /\ UNCHANGED <<kx_dA,kx_dB,kx_rA,kx_rB,kx_accA,kx_accB,kx_KA,kx_KB,kx_S2>>
B2 == /\ kx_pc = "B2"
      /\ LET ra == kx_recv["RA"] IN
         IF ~Valid(ra) THEN /\ kx_accB' = "fail" /\ kx_pc' = "done" /\ UNCHANGED <<kx_sent, kx_recv, kx_tampered, kx_KB, kx_S2>>
         ELSE LET tB == (kx_dB + Xbar(kx_rB) * kx_rB) % n
                  v  == (tB * (kx_dA + Xbar(ra) * ra)) % n
              IN IF v = 0 THEN /\ kx_accB' = "fail" /\ kx_pc' = "done" /\ UNCHANGED <<kx_sent, kx_recv, kx_tampered, kx_KB, kx_S2>>
                 ELSE /\ kx_KB' = KDF(v) /\ kx_S2' = S(3, v, ra, kx_rB)
                      /\ kx_sent' = [kx_sent EXCEPT !["RB"] = kx_rB, !["SB"] = S(2, v, ra, kx_rB)]
                      /\ \E p \in {kx_rB} \cup AltPoint(kx_rB), h \in {S(2, v, ra, kx_rB), Junk} :
                            /\ kx_recv' = [kx_recv EXCEPT !["RB"] = p, !["SB"] = h]
                            /\ kx_tampered' = kx_tampered \cup (IF p # kx_rB THEN {"RB"} ELSE {}) \cup (IF h # S(2, v, ra, kx_rB) THEN {"SB"} ELSE {})
                      /\ kx_pc' = "A3" /\ kx_accB' = kx_accB
      /\ UNCHANGED <<kx_dA,kx_dB,kx_rA,kx_rB,kx_accA,kx_KA>>
A3 == /\ kx_pc = "A3"
      /\ LET rb == kx_recv["RB"] IN
         IF ~Valid(rb) THEN /\ kx_accA' = "fail" /\ kx_pc' = "B4" /\ UNCHANGED <<kx_sent, kx_recv, kx_tampered, kx_KA>>
         ELSE LET tA == (kx_dA + Xbar(kx_rA) * kx_rA) % n
                  u  == (tA * (kx_dB + Xbar(rb) * rb)) % n
              IN IF u = 0 \/ S(2, u, kx_rA, rb) # kx_recv["SB"]
                 THEN /\ kx_accA' = "fail" /\ kx_pc' = "B4" /\ UNCHANGED <<kx_sent, kx_recv, kx_tampered, kx_KA>>
                 ELSE /\ kx_accA' = "ok" /\ kx_KA' = KDF(u) /\ kx_sent' = [kx_sent EXCEPT !["SA"] = S(3, u, kx_rA, rb)]
                      /\ Deliver("SA", S(3, u, kx_rA, rb), {Junk, kx_sent["SB"]})
                      /\ kx_pc' = "B4"
      /\ UNCHANGED <<kx_dA,kx_dB,kx_rA,kx_rB,kx_accB,kx_KB,kx_S2>>
B4 == /\ kx_pc = "B4"
      /\ \/ /\ kx_recv["SA"] # NoneH /\ kx_accB' = (IF kx_recv["SA"] = kx_S2 THEN "ok" ELSE "fail") /\ UNCHANGED <<kx_recv, kx_tampered>>
         \/ /\ kx_recv["SA"] = NoneH      \* A kx_sent nothing: the adversary may inject a replay or junk
            /\ \E h \in {Junk, kx_sent["SB"]} : /\ kx_recv' = [kx_recv EXCEPT !["SA"] = h] /\ kx_tampered' = kx_tampered \cup {"SA"}
                                              /\ kx_accB' = (IF h = kx_S2 THEN "ok" ELSE "fail")
      /\ kx_pc' = "done" /\ UNCHANGED <<kx_dA,kx_dB,kx_rA,kx_rB,kx_sent,kx_accA,kx_KA,kx_KB,kx_S2>>
Next == A1 \/ B2 \/ A3 \/ B4 \/ (kx_pc = "done" /\ UNCHANGED vars)
Done == kx_pc = "done"
TA == (kx_dA + Xbar(kx_rA) * kx_rA) % n
TB == (kx_dB + Xbar(kx_rB) * kx_rB) % n
Degenerate == TA = 0 \/ TB = 0            \* V = U = O: the standard says "fail"; probability ~2/n, negligible at real size
Honest == Done /\ kx_tampered = {} /\ ~Degenerate => kx_accA = "ok" /\ kx_accB = "ok" /\ kx_KA = kx_KB
HonestDegenerate == Done /\ kx_tampered = {} /\ Degenerate => kx_accA # "ok" /\ kx_accB # "ok"
AcceptA == kx_accA = "ok" => kx_recv["RB"] = kx_sent["RB"] /\ kx_recv["SB"] = kx_sent["SB"] /\ kx_recv["RA"] = kx_sent["RA"]
AcceptB == kx_accB = "ok" => kx_recv["RA"] = kx_sent["RA"] /\ kx_recv["RB"] = kx_sent["RB"] /\ kx_recv["SA"] = kx_sent["SA"] /\ kx_accA = "ok"
Agree == kx_accA = "ok" /\ kx_accB = "ok" => kx_KA = kx_KB
OffCurve == (kx_pc \in {"A3","done"} /\ kx_recv["RA"] = OFF => kx_accB = "fail") /\ (kx_pc \in {"B4","done"} /\ kx_recv["RB"] = OFF => kx_accA = "fail")
Infinity == (kx_pc \in {"A3","done"} /\ kx_recv["RA"] = 0 => kx_accB = "fail")      \* fails when INF_OK: B goes on with an invalid ephemeral point
AllSubsetsSeen == TRUE
=====================================================================
