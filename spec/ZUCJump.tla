------------------------------ MODULE ZUCJump ------------------------------
(***************************************************************************)
(* Skip-ahead for the ZUC LFSR in WORK mode.  There the register does not   *)
(* depend on F: s_{t+16} = 2^15 s_{t+15} + 2^17 s_{t+13} + 2^21 s_{t+10}     *)
(* + 2^20 s_{t+4} + (1 + 2^8) s_t  (mod p), p = 2^31 - 1, a linear           *)
(* recurrence over GF(p) (a cell holding p represents 0).  So the cells      *)
(* after n steps are fixed linear combinations of the cells before:          *)
(* s_{t+n+i} = sum_j r^(i)_j s_{t+j} with r^(i) = x^(n+i) mod f(x),          *)
(* f = x^16 - 2^15 x^15 - 2^17 x^13 - 2^21 x^10 - 2^20 x^4 - 257.            *)
(* x^n mod f by square-and-multiply (27 squarings for n = 2^27); products    *)
(* of 31-bit values in BigNat arithmetic (TLC integers are 32-bit).          *)
(* MC_ZUCJump checks JumpLFSR against n single steps of ZUC.tla's LFSRWork.   *)
(***************************************************************************)
EXTENDS BigNat, Integers, Sequences, TLC
LOCAL PJ == <<127, 255, 255, 255>>                         \* 2^31 - 1
LOCAL MulM(a, b) == BMulMod(a, b, PJ)
LOCAL AddM(a, b) == BAddMod(a, b, PJ)
LOCAL IntBJ(n) == BFromBE(<<n \div 16777216, (n \div 65536) % 256, (n \div 256) % 256, n % 256>>)
LOCAL ToInt4(q) == q[1] * 16777216 + q[2] * 65536 + q[3] * 256 + q[4]
LOCAL ToIntJ(b) == ToInt4(BToBE(b, 4))
\* coefficient of x^(j-1) in x^16 mod f
CoefJ(j) == IF j = 1 THEN <<1, 1>> ELSE IF j = 5 THEN <<16, 0, 0>> ELSE IF j = 11 THEN <<32, 0, 0>> ELSE IF j = 14 THEN <<2, 0, 0>> ELSE IF j = 16 THEN <<128, 0>> ELSE <<>>
\* polynomials of degree < 16 as 16-tuples of BigNat coefficients (index j <-> x^(j-1))
OneJ == TLCEval([j \in 1..16 |-> IF j = 1 THEN <<1>> ELSE <<>>])
\* (function constructors are evaluated on every application unless forced: TLCEval materialises them)
MulXJ(r) == TLCEval([j \in 1..16 |-> IF j = 1 THEN MulM(r[16], CoefJ(1)) ELSE AddM(r[j-1], MulM(r[16], CoefJ(j)))])
\* square: convolution (31 coefficients), then reduction of x^30 .. x^16 from the top
RECURSIVE ConvSum(_, _, _, _, _)
ConvSum(a, k, i, hi, acc) == IF i > hi THEN acc ELSE ConvSum(a, k, i + 1, hi, AddM(acc, MulM(a[i + 1], a[k - i + 1])))
ConvJ(a) == TLCEval([k1 \in 1..31 |-> ConvSum(a, k1 - 1, IF k1 - 1 > 15 THEN k1 - 16 ELSE 0, IF k1 - 1 < 15 THEN k1 - 1 ELSE 15, <<>>)])
\* fold the coefficient of x^(k-1) (k >= 17) into x^(k-17) .. x^(k-2)
FoldTop(d, k) == TLCEval([q \in 1..31 |-> IF q = k THEN <<>> ELSE IF q >= k - 16 /\ q <= k - 1 THEN AddM(d[q], MulM(d[k], CoefJ(q - (k - 17)))) ELSE d[q]])
RECURSIVE RedJ(_, _)
RedJ(d, k) == IF d[1] = d[1] /\ k < 17 THEN TLCEval([j \in 1..16 |-> d[j]]) ELSE RedJ(FoldTop(d, k), k - 1)
SqrJ(a) == RedJ(ConvJ(a), 31)
RECURSIVE PowJ(_, _, _)
PowJ(acc, n, b) == IF acc[1] = acc[1] /\ b < 0 THEN acc ELSE PowJ(IF (n \div (2^b)) % 2 = 1 THEN MulXJ(SqrJ(acc)) ELSE SqrJ(acc), n, b - 1)
TopBitJ(n) == IF n = 0 THEN -1 ELSE CHOOSE b \in 0..30 : n \div (2^b) = 1
XPowJ(n) == PowJ(OneJ, n, TopBitJ(n))                        \* n < 2^31
RECURSIVE DotJ(_, _, _, _)
DotJ(r, sb, j, acc) == IF j > 16 THEN acc ELSE DotJ(r, sb, j + 1, AddM(acc, MulM(r[j], sb[j])))
CellJ(r, sb) == IF DotJ(r, sb, 1, <<>>) = <<>> THEN 2147483647 ELSE ToIntJ(DotJ(r, sb, 1, <<>>))
RECURSIVE CellsJ(_, _, _, _)
CellsJ(r, sb, i, acc) == IF i > 16 THEN acc ELSE CellsJ(MulXJ(r), sb, i + 1, Append(acc, CellJ(r, sb)))
\* the 16 cells (as integers in 1..2^31-1) after n work-mode steps from cells s
JumpLFSR(s, n) == CellsJ(XPowJ(n), TLCEval([j \in 1..16 |-> IntBJ(s[j])]), 1, <<>>)
=============================================================================
