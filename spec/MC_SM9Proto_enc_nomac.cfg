CONSTANTS N = 7 MODE = "enc" NOMAC = TRUE NOCURVE = FALSE
INIT Init
NEXT Next
INVARIANT Inv
CHECK_DEADLOCK FALSE
