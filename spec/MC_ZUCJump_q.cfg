INIT Init
NEXT Next
INVARIANT Agree
CONSTANT Quick = TRUE
CHECK_DEADLOCK FALSE
