CONSTANTS MaxLen = 5 Keys = {0, 5, 43, 127} LocalMax = 5 BADCTR = FALSE
INIT Init
NEXT Next
INVARIANT Inv
CHECK_DEADLOCK FALSE
