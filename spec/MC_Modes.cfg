CONSTANTS MaxLen = 5 Keys = {0, 5, 43, 127} BADCTR = FALSE
INIT Init
NEXT Next
INVARIANT Inv
CHECK_DEADLOCK FALSE
