------------------------------ MODULE SM4Modes ------------------------------
(* The modes of BlockModes instantiated with SM4 (key = round-key tuple). *)
EXTENDS SM4
ByteXor(a, b) == a ^^ b
M == INSTANCE BlockModes WITH B <- 16, SYM <- 256, E <- Enc, D <- Dec, SymXor <- ByteXor
=============================================================================
