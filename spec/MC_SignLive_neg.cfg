CONSTANTS n = 11 MAXD = 10
SPECIFICATION Spec
PROPERTY Terminates
CHECK_DEADLOCK FALSE
