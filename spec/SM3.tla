------------------------------- MODULE SM3 -------------------------------
(***************************************************************************)
(* GB/T 32905-2016 (SM3) as an executable TLA+ definition.                  *)
(*   L0: Pad / CF / Hash straight from the standard.                        *)
(*   L1: PadImpl -- the padding loop of gm-sm3/src/lib.rs::pad.              *)
(*   Machine: Absorb / Finish over a state [n, v] (blocks absorbed,          *)
(*   chaining value) -- used by the trace specification to share prefixes    *)
(*   and by MC_SM3 to check block iteration against Hash.                    *)
(* Written in "parameter passing" style (see DESIGN.md section 3): TLC       *)
(* re-evaluates LET names in actions, operator parameters are evaluated once.*)
(***************************************************************************)
EXTENDS W32, TLC

P0(x) == WXor3(x, WRotl(x, 9), WRotl(x, 17))
P1(x) == WXor3(x, WRotl(x, 15), WRotl(x, 23))
FF(x, y, z, j) == IF j <= 15 THEN WXor3(x, y, z) ELSE WOr(WOr(WAnd(x, y), WAnd(x, z)), WAnd(y, z))
GG(x, y, z, j) == IF j <= 15 THEN WXor3(x, y, z) ELSE WOr(WAnd(x, y), WAnd(WNot(x), z))
T(j) == IF j <= 15 THEN <<\h79cc, \h4519>> ELSE <<\h7a87, \h9d8a>>
IV == << <<\h7380, \h166f>>, <<\h4914, \hb2b9>>, <<\h1724, \h42d7>>, <<\hda8a, \h0600>>,
         <<\ha96f, \h30bc>>, <<\h1631, \h38aa>>, <<\he38d, \hee4d>>, <<\hb0fb, \h0e4e>> >>

\* the 16 message words of the 64-byte block that starts at offset o (0-based) of byte sequence b
WordsOf(b, o) == <<
  WOfBytes(b, o),    WOfBytes(b, o+4),  WOfBytes(b, o+8),  WOfBytes(b, o+12),
  WOfBytes(b, o+16), WOfBytes(b, o+20), WOfBytes(b, o+24), WOfBytes(b, o+28),
  WOfBytes(b, o+32), WOfBytes(b, o+36), WOfBytes(b, o+40), WOfBytes(b, o+44),
  WOfBytes(b, o+48), WOfBytes(b, o+52), WOfBytes(b, o+56), WOfBytes(b, o+60) >>

\* message expansion W_16..W_67 (tuple index = j+1); chunked so recursion depth stays small
WNext(w, j) == WXor3(P1(WXor3(w[j-16], w[j-9], WRotl(w[j-3], 15))), WRotl(w[j-13], 7), w[j-6])
RECURSIVE ExpChunk(_, _, _)
ExpChunk(w, j, to) == IF j > to THEN w ELSE ExpChunk(Append(w, WNext(w, j)), j+1, to)
Expand(w) == ExpChunk(ExpChunk(ExpChunk(ExpChunk(w, 17, 29), 30, 42), 43, 55), 56, 68)

\* one round; s = <<A,B,C,D,E,F,G,H>>; W'_j = W_j xor W_{j+4}
R3(s, w, j, ss1, a12, tt2) == << WAdd4(FF(s[1],s[2],s[3],j), s[4], WXor(ss1, a12), WXor(w[j+1], w[j+5])),
                                 s[1], WRotl(s[2], 9), s[3], P0(tt2), s[5], WRotl(s[6], 19), s[7] >>
R2(s, w, j, ss1, a12) == R3(s, w, j, ss1, a12, WAdd4(GG(s[5],s[6],s[7],j), s[8], ss1, w[j+1]))
R1(s, w, j, a12) == R2(s, w, j, WRotl(WAdd3(a12, s[5], WRotl(T(j), j)), 7), a12)
Round(s, w, j) == R1(s, w, j, WRotl(s[1], 12))
RECURSIVE RChunk(_, _, _, _)
RChunk(s, w, j, to) == IF j > to THEN s ELSE RChunk(Round(s, w, j), w, j+1, to)
Rounds(s, w) == RChunk(RChunk(RChunk(RChunk(RChunk(RChunk(RChunk(RChunk(s, w, 0, 7), w, 8, 15), w, 16, 23), w, 24, 31), w, 32, 39), w, 40, 47), w, 48, 55), w, 56, 63)
XorV(v, s) == << WXor(v[1],s[1]), WXor(v[2],s[2]), WXor(v[3],s[3]), WXor(v[4],s[4]), WXor(v[5],s[5]), WXor(v[6],s[6]), WXor(v[7],s[7]), WXor(v[8],s[8]) >>
\* compression function: chaining value v, block = 64 bytes of pm at offset o
CF(v, pm, o) == XorV(v, Rounds(v, Expand(WordsOf(pm, o))))

\* ---- classification of a first block: does some round j >= 16 of its compression (from the IV) start with two of the registers fed to FF (A, B, C)
\*      or to GG (E, F, G) equal, or use a zero message word W_j / W'_j?  (2^-26 per random block; the driver carries searched blocks) ----
RoundSpecial(s, w, j) == s[1] = s[2] \/ s[2] = s[3] \/ s[1] = s[3] \/ s[5] = s[6] \/ s[6] = s[7] \/ s[5] = s[7]
                         \/ w[j+1] = <<0,0>> \/ WXor(w[j+1], w[j+5]) = <<0,0>>
RECURSIVE CoinR(_, _, _)
CoinR(s, w, j) == IF j > 63 THEN FALSE ELSE (j >= 16 /\ RoundSpecial(s, w, j)) \/ CoinR(Round(s, w, j), w, j + 1)
InternalCoincidence(block64) == CoinR(IV, Expand(WordsOf(block64, 0)), 0)
\* ---- a second classification: does ROUND 0 of the compression of a block (from chaining value v) feed one of the permutations a SPECIAL word --
\*      TT2 (the argument of P0), TT1 (the new A), or the argument of P1 in the first expanded word W_16 --, special meaning 0, a power of two, or
\*      a power of two plus / minus one (incl. ff..f)?  Such blocks are SOLVED for by PlanSM3 (round 0 is linear in W_0 / W_4). ----
Pow16 == {1, 2, 4, 8, 16, 32, 64, 128, 256, 512, 1024, 2048, 4096, 8192, 16384, 32768}
IsPow2W(x) == (x[1] = 0 /\ x[2] \in Pow16) \/ (x[2] = 0 /\ x[1] \in Pow16)
SpecialW(x) == x = <<0,0>> \/ IsPow2W(x) \/ IsPow2W(WAdd(x, <<0,1>>)) \/ IsPow2W(WAdd(x, <<65535,65535>>)) \/ x = <<65535,65535>>
WSub(a, b) == WAdd3(a, WNot(b), <<0,1>>)
SS1Of(v) == WRotl(WAdd3(WRotl(v[1], 12), v[5], T(0)), 7)
TT2C(v) == WAdd3(GG(v[5], v[6], v[7], 0), v[8], SS1Of(v))                         \* TT2 = TT2C + W_0
TT1C(v) == WAdd3(FF(v[1], v[2], v[3], 0), v[4], WXor(SS1Of(v), WRotl(v[1], 12)))   \* TT1 = TT1C + (W_0 xor W_4)
P1Arg16(w) == WXor3(w[1], w[8], WRotl(w[14], 15))
Round0Special(v, w) == SpecialW(WAdd(TT2C(v), w[1])) \/ SpecialW(WAdd(TT1C(v), WXor(w[1], w[5]))) \/ SpecialW(P1Arg16(w))
\* ---- and a third: does round 1 START with BOTH boolean functions equal to zero (FF_1(A,B,C) = A xor B xor C = 0 and GG_1(E,F,G) = 0)?  A legal state
\*      (2^-64 per round for random data) that code using 0 as an in-band "no value" marker mistakes for an error.  PlanSM3 solves for it:
\*      after round 0, A' = TT1, B' = A, C' = B <<< 9, E' = P0(TT2), F' = E, G' = F <<< 19; P0 is a bijection of order 32 (P0^-1 = P0^31). ----
RECURSIVE P0Pow(_, _)
P0Pow(x, k) == IF k = 0 THEN x ELSE P0Pow(P0(x), k - 1)
P0Inv(y) == P0Pow(y, 31)
ASSUME \A x \in {<<0,1>>, <<\h8000,0>>, <<\h1234,\h5678>>, <<65535,65535>>} : P0(P0Inv(x)) = x /\ P0Inv(P0(x)) = x
Round1BothZero(v, w) == FF(WAdd(TT1C(v), WXor(w[1], w[5])), v[1], WRotl(v[2], 9), 1) = <<0,0>>
                        /\ GG(P0(WAdd(TT2C(v), w[1])), v[5], WRotl(v[6], 19), 1) = <<0,0>>
\* ---- and a fourth: the three-operand SUM inside SS1 of round 1, (A <<< 12) + E + (T_1 <<< 1), is EXACTLY 2^32 or 2^33 (its 32-bit value is 0 with one or
\*      two carries out): a reduction written with > instead of >=, or a saturating conversion, goes wrong exactly there.  After round 0, A = TT1 and
\*      E = P0(TT2) are free (W_4 and W_0), so PlanSM3 solves for it. ----
SumCarry3(a, b, c) == ((a[2] + b[2] + c[2]) \div 65536 + a[1] + b[1] + c[1]) \div 65536            \* carry out of the 32-bit sum a + b + c: 0, 1 or 2
Round1SS1Wraps(v, w) == WAdd3(WRotl(WAdd(TT1C(v), WXor(w[1], w[5])), 12), P0(WAdd(TT2C(v), w[1])), WRotl(T(1), 1)) = <<0,0>>
\* message of 64 bytes (first block) or 128 bytes (second block, chaining value after the first)
CraftedValue(m) == IF Len(m) = 64 THEN Round0Special(IV, WordsOf(m, 0)) \/ Round1BothZero(IV, WordsOf(m, 0)) \/ Round1SS1Wraps(IV, WordsOf(m, 0))
                   ELSE IF Len(m) = 128 THEN Round0Special(CF(IV, m, 0), WordsOf(m, 64)) \/ Round1BothZero(CF(IV, m, 0), WordsOf(m, 64)) \/ Round1SS1Wraps(CF(IV, m, 0), WordsOf(m, 64)) ELSE FALSE
\* ---- padding (standard): bit "1", k zero bits with l+1+k = 448 mod 512, 64-bit length ----
\* byte level: 0x80, z zero bytes with (len+1+z) = 56 mod 64, eight length bytes.
\* The length is given as lhi*2^24 + llo (llo < 2^24) so that bit lengths >= 2^32 are expressible in 32-bit TLC integers.
ZeroBytes(k) == [i \in 1..k |-> 0]
PadZeros(len) == (119 - (len % 64)) % 64
Len64(lhi, llo) == << (lhi \div 536870912) % 256, (lhi \div 2097152) % 256, (lhi \div 8192) % 256, (lhi \div 32) % 256,
                      ((llo * 8) \div 16777216) + ((lhi % 32) * 8), ((llo * 8) \div 65536) % 256, ((llo * 8) \div 256) % 256, (llo * 8) % 256 >>
\* padded tail for a message whose last (partial) block is `tail` and whose total length is lhi*2^24+llo
PadTail(tail, lhi, llo) == tail \o <<128>> \o ZeroBytes(PadZeros(llo)) \o Len64(lhi, llo)
Pad(msg) == TLCEval(PadTail(msg, Len(msg) \div 16777216, Len(msg) % 16777216))

\* ---- L1: the loop of gm-sm3 `pad`: push 0x80; while len % 64 # 56 push 0; push (bitlen >> 56..0) ----
RECURSIVE PadLoop(_)
PadLoop(m) == IF Len(m) % 64 = 56 THEN m ELSE PadLoop(Append(m, 0))
PadImpl(msg) == PadLoop(Append(msg, 128)) \o Len64(Len(msg) \div 16777216, Len(msg) % 16777216)

\* ---- block iteration ----
RECURSIVE IterC(_, _, _, _)
IterC(v, pm, i, to) == IF i > to THEN v ELSE IterC(CF(v, pm, i*64), pm, i+1, to)
RECURSIVE IterG(_, _, _, _)
\* absorb blocks from..nb-1 (0-based) of pm, 32 blocks per recursion group
IterG(v, pm, from, nb) == IF from >= nb THEN v ELSE IterG(IterC(v, pm, from, IF from+31 < nb-1 THEN from+31 ELSE nb-1), pm, from+32, nb)
HashP(pm) == IterG(IV, pm, 0, Len(pm) \div 64)
HashW(msg) == HashP(Pad(msg))
DigestBytes(h) == WBytes(h[1]) \o WBytes(h[2]) \o WBytes(h[3]) \o WBytes(h[4]) \o WBytes(h[5]) \o WBytes(h[6]) \o WBytes(h[7]) \o WBytes(h[8])
Hash(msg) == DigestBytes(HashW(msg))          \* the 32-byte digest

\* ---- machine: state [n |-> full blocks absorbed, v |-> chaining value] ----
SM3Init == [n |-> 0, v |-> IV]
\* absorb the full blocks n+1..nfull of message m (m has at least nfull*64 bytes)
AbsorbTo(st, m, nfull) == [n |-> nfull, v |-> IterG(st.v, m, st.n, nfull)]
\* finish: pad the tail of m after st.n full blocks (total length Len(m))
FinishP(st, pt) == DigestBytes(IterG(st.v, pt, 0, Len(pt) \div 64))
Finish(st, m) == FinishP(st, TLCEval(PadTail(SubSeq(m, st.n*64 + 1, Len(m)), Len(m) \div 16777216, Len(m) % 16777216)))

\* ---- anchors: GB/T 32905 examples and OpenSSL-made digests ----
ASSUME Hash(<<97,98,99>>) = <<\h66,\hc7,\hf0,\hf4,\h62,\hee,\hed,\hd9,\hd1,\hf2,\hd4,\h6b,\hdc,\h10,\he4,\he2,\h41,\h67,\hc4,\h87,\h5c,\hf2,\hf7,\ha2,\h29,\h7d,\ha0,\h2b,\h8f,\h4b,\ha8,\he0>>
ASSUME Hash([i \in 1..64 |-> 97 + ((i-1) % 4)]) = <<\hde,\hbe,\h9f,\hf9,\h22,\h75,\hb8,\ha1,\h38,\h60,\h48,\h89,\hc1,\h8e,\h5a,\h4d,\h6f,\hdb,\h70,\he5,\h38,\h7e,\h57,\h65,\h29,\h3d,\hcb,\ha3,\h9c,\h0c,\h57,\h32>>
ASSUME Hash(<<>>) = <<\h1a,\hb2,\h1d,\h83,\h55,\hcf,\ha1,\h7f,\h8e,\h61,\h19,\h48,\h31,\he8,\h1a,\h8f,\h22,\hbe,\hc8,\hc7,\h28,\hfe,\hfb,\h74,\h7e,\hd0,\h35,\heb,\h50,\h82,\haa,\h2b>>
=============================================================================
