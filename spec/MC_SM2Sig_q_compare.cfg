CONSTANTS P = 11 B = 10 RR = 8 DROP = "compare"
INIT Init
NEXT Next
INVARIANT Inv
CHECK_DEADLOCK FALSE
