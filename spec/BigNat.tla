------------------------------- MODULE BigNat -------------------------------
(***************************************************************************)
(* Natural numbers beyond TLC's 32-bit integers: canonical big-endian        *)
(* base-256 digit sequences (no leading zero digit; zero is <<>>), so        *)
(* numeric equality is TLA+ equality.                                        *)
(*                                                                           *)
(* Every operator has a pure TLA+ definition (suffix Def: schoolbook          *)
(* arithmetic on digits).  The un-suffixed operators are the ones the rest   *)
(* of the specification uses; TLC evaluates them through the Java module     *)
(* override spec/java/BigNat.java (java.math.BigInteger) for speed.  The     *)
(* override is not trusted blindly: MC_BigNat evaluates both on boundary and *)
(* pseudo-random operands in the same TLC run and requires equality.         *)
(***************************************************************************)
EXTENDS Naturals, Sequences, TLC
IsDigits(a) == \A j \in 1..Len(a) : a[j] \in 0..255
RECURSIVE Canon(_)
Canon(a) == IF a = <<>> THEN <<>> ELSE IF a[1] = 0 THEN Canon(Tail(a)) ELSE a
\* ---- comparison: -1, 0, 1 as 0,1,2 to stay in Nat: returns "lt","eq","gt" ----
RECURSIVE CmpSame(_,_,_)
CmpSame(a, b, j) == IF j > Len(a) THEN "eq" ELSE IF a[j] < b[j] THEN "lt" ELSE IF a[j] > b[j] THEN "gt" ELSE CmpSame(a, b, j+1)
BCmpDef(a, b) == IF Len(a) < Len(b) THEN "lt" ELSE IF Len(a) > Len(b) THEN "gt" ELSE CmpSame(a, b, 1)
BGeqDef(a, b) == BCmpDef(a, b) # "lt"
\* ---- addition / subtraction on little-endian working copies ----
Rev(a) == [j \in 1..Len(a) |-> a[Len(a) + 1 - j]]
DigitAt(r, j) == IF j <= Len(r) THEN r[j] ELSE 0
RECURSIVE AddLE(_,_,_,_,_)
AddLE(ra, rb, j, carry, acc) ==
   IF j > Len(ra) /\ j > Len(rb) THEN (IF carry = 0 THEN acc ELSE Append(acc, carry))
   ELSE AddLE(ra, rb, j+1, (DigitAt(ra, j) + DigitAt(rb, j) + carry) \div 256, Append(acc, (DigitAt(ra, j) + DigitAt(rb, j) + carry) % 256))
BAddDef(a, b) == Canon(Rev(AddLE(Rev(a), Rev(b), 1, 0, <<>>)))
RECURSIVE SubLE(_,_,_,_,_)
SubLE(ra, rb, j, borrow, acc) ==                   \* requires a >= b
   IF j > Len(ra) THEN acc
   ELSE SubLE(ra, rb, j+1, IF DigitAt(ra, j) < DigitAt(rb, j) + borrow THEN 1 ELSE 0,
              Append(acc, (256 + DigitAt(ra, j) - DigitAt(rb, j) - borrow) % 256))
BSubDef(a, b) == Canon(Rev(SubLE(Rev(a), Rev(b), 1, 0, <<>>)))       \* a - b for a >= b
\* ---- multiplication: schoolbook, one digit of b at a time ----
RECURSIVE MulSmallLE(_,_,_,_,_)
MulSmallLE(ra, d, j, carry, acc) ==
   IF j > Len(ra) THEN (IF carry = 0 THEN acc ELSE Append(acc, carry))
   ELSE MulSmallLE(ra, d, j+1, (ra[j] * d + carry) \div 256, Append(acc, (ra[j] * d + carry) % 256))
Zeros(n) == [j \in 1..n |-> 0]
RECURSIVE MulAcc(_,_,_,_)
MulAcc(a, b, j, acc) == IF j > Len(b) THEN acc
   ELSE MulAcc(a, b, j+1, BAddDef(acc, Canon(Rev(MulSmallLE(Rev(a), b[j], 1, 0, <<>>)) \o Zeros(Len(b) - j))))
BMulDef(a, b) == MulAcc(a, b, 1, <<>>)
\* ---- remainder: bit-serial long division ----
BDbl(r) == BAddDef(r, r)
RedStep(r, m) == IF BGeqDef(r, m) THEN BSubDef(r, m) ELSE r
RECURSIVE ModBits(_,_,_,_)
ModBits(r, byte, b, m) == IF b < 0 THEN r ELSE ModBits(RedStep(BAddDef(BDbl(r), IF (byte \div (2^b)) % 2 = 1 THEN <<1>> ELSE <<>>), m), byte, b-1, m)
RECURSIVE ModBytes(_,_,_,_)
ModBytes(r, a, j, m) == IF j > Len(a) THEN r ELSE ModBytes(ModBits(r, a[j], 7, m), a, j+1, m)
BModDef(a, m) == ModBytes(<<>>, a, 1, m)
BAddModDef(a, b, m) == BModDef(BAddDef(a, b), m)
BSubModDef(a, b, m) == BModDef(BSubDef(BAddDef(BModDef(a, m), m), BModDef(b, m)), m)
BMulModDef(a, b, m) == BModDef(BMulDef(a, b), m)
RECURSIVE PowBitsDef(_,_,_,_,_)
PowBitsDef(acc, a, byte, b, m) == IF b < 0 THEN acc ELSE
   PowBitsDef(IF (byte \div (2^b)) % 2 = 1 THEN BMulModDef(BMulModDef(acc, acc, m), a, m) ELSE BMulModDef(acc, acc, m), a, byte, b-1, m)
RECURSIVE PowBytesDef(_,_,_,_,_)
PowBytesDef(acc, a, e, j, m) == IF j > Len(e) THEN acc ELSE PowBytesDef(PowBitsDef(acc, a, e[j], 7, m), a, e, j+1, m)
BPowModDef(a, e, m) == PowBytesDef(BModDef(<<1>>, m), a, e, 1, m)
BBitLenDef(a) == IF a = <<>> THEN 0 ELSE 8 * (Len(a) - 1) + (CHOOSE n \in 1..8 : a[1] < 2^n /\ a[1] >= 2^(n-1))
BBitDef(a, b) == IF b >= 8 * Len(a) THEN 0 ELSE (a[Len(a) - (b \div 8)] \div (2^(b % 8))) % 2
BFromBEDef(bytes) == Canon(bytes)                                          \* OS2IP
BToBEDef(a, n) == IF Len(a) >= n THEN SubSeq(a, Len(a) - n + 1, Len(a)) ELSE Zeros(n - Len(a)) \o a     \* I2OSP (low n bytes)

\* ---- the operators used by the specification (Java-overridden; definitions = the Def twins) ----
BCmp(a, b) == BCmpDef(a, b)
BAdd(a, b) == BAddDef(a, b)
BSub(a, b) == BSubDef(a, b)
BMul(a, b) == BMulDef(a, b)
BMod(a, m) == BModDef(a, m)
BAddMod(a, b, m) == BAddModDef(a, b, m)
BSubMod(a, b, m) == BSubModDef(a, b, m)
BMulMod(a, b, m) == BMulModDef(a, b, m)
BPowMod(a, e, m) == BPowModDef(a, e, m)
BBitLen(a) == BBitLenDef(a)
BBit(a, b) == BBitDef(a, b)
BFromBE(bytes) == BFromBEDef(bytes)
BToBE(a, n) == BToBEDef(a, n)
BToBE32(a) == BToBE(a, 32)
BLt(a, b) == BCmp(a, b) = "lt"
BGeq(a, b) == BCmp(a, b) # "lt"
BZero == <<>>
BOne == <<1>>
=============================================================================
