CONSTANTS P = 23 B = 15 RR = 32 DROP = "none"
INIT Init
NEXT Next
INVARIANT Inv
CHECK_DEADLOCK FALSE
