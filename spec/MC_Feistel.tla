----------------------------- MODULE MC_Feistel -----------------------------
(***************************************************************************)
(* E1 for C02: the design-level reason SM4 decryption inverts encryption.   *)
(* A 4-branch unbalanced Feistel network over W-bit branches with an         *)
(* ARBITRARY round function T (every function 0..2^W-1 -> 0..2^W-1 is        *)
(* explored), R rounds, every round-key sequence and every block:           *)
(*   Dec(Enc(x)) = x  and  Enc(Dec(y)) = y,                                  *)
(* where Dec is Enc with the round keys reversed -- exactly the structure   *)
(* of SM4.Enc/SM4.Dec (X_{i+4} = X_i xor T(X_{i+1} xor X_{i+2} xor X_{i+3}   *)
(* xor rk_i), output reversed).  Negative configuration: decrypting with    *)
(* the keys in the SAME order (BadDec) must be refuted.                      *)
(***************************************************************************)
EXTENDS Naturals, Sequences, Bitwise, TLC, FiniteSets
CONSTANTS W, R, BAD
S == 0..(2^W - 1)
VARIABLES fT, fRk, fBlk, fPhase
RECURSIVE Rnd(_,_,_,_,_)
Rnd(T, x, rk, j, dec) == IF j = R THEN <<x[4], x[3], x[2], x[1]>>
   ELSE Rnd(T, <<x[2], x[3], x[4], x[1] ^^ T[((x[2] ^^ x[3]) ^^ x[4]) ^^ rk[IF dec THEN R - j ELSE j + 1]]>>, rk, j+1, dec)
Enc(T, rk, x) == Rnd(T, x, rk, 0, FALSE)
Dec(T, rk, x) == Rnd(T, x, rk, 0, ~BAD)
Init == fT = <<>> /\ fRk = <<>> /\ fBlk = <<>> /\ fPhase = "T"
\* enumeration is spread over Next so that the workers share it
Next == \/ fPhase = "T" /\ \E t \in [S -> S] : fT' = t /\ fPhase' = "K" /\ UNCHANGED <<fRk, fBlk>>
        \/ fPhase = "K" /\ \E rk \in [1..R -> S] : fRk' = rk /\ fPhase' = "B" /\ UNCHANGED <<fT, fBlk>>
        \/ fPhase = "B" /\ \E b \in S \X S \X S \X S : fBlk' = b /\ fPhase' = "done" /\ UNCHANGED <<fT, fRk>>
Inverse == fPhase = "done" => /\ Dec(fT, fRk, Enc(fT, fRk, fBlk)) = fBlk
                               /\ Enc(fT, fRk, Dec(fT, fRk, fBlk)) = fBlk
=============================================================================
