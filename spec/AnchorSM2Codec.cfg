INIT Init
NEXT Next
INVARIANT AnchorOK
CHECK_DEADLOCK FALSE
