CONSTANTS N = 7 TIGHT = FALSE
INIT Init
NEXT Next
INVARIANTS Forgery
CHECK_DEADLOCK FALSE
