------------------------------ MODULE AnchorSM9 ------------------------------
(* Anchors BN.tla / SM9.tla against the GM/T 0044.5 Annex examples (signature, encryption, key exchange) and checks that the
   stored constant G0Const equals the definitional pairing e(P1, P2), that it has order N and that G0^k equals the definitional
   g for the Annex master keys.  A failure is a transcription error of the SPECIFICATION (tool error). *)
EXTENDS SM9, TLC
Hex(s) == s
KS == <<0,1,48,231,132,89,215,133,69,203,84,197,135,224,44,244,128,206,11,102,52,15,49,159,52,138,29,91,31,45,197,244>>
RS == <<0,3,60,134,22,176,103,4,129,50,3,223,208,9,101,2,46,209,89,117,198,98,51,122,237,100,136,53,220,75,28,190>>
HEXP == <<130,60,75,33,228,189,45,254,30,217,44,96,102,83,233,150,102,133,99,21,47,195,63,85,215,191,187,155,217,112,90,219>>
SX == <<115,191,150,146,60,229,139,106,208,225,62,150,67,164,6,216,235,152,65,124,80,239,27,41,206,249,173,180,139,109,89,140>>
SY == <<133,103,18,241,194,224,150,138,183,118,159,66,169,149,134,174,209,57,213,184,179,225,88,145,130,124,194,172,237,155,170,5>>
DSX == <<165,112,47,5,207,19,21,48,94,45,110,182,75,13,235,146,61,177,160,188,240,202,255,144,82,58,200,117,74,166,152,32>>
KE == <<0,1,237,238,55,120,244,65,248,222,163,217,250,10,204,78,7,238,54,201,63,154,8,97,138,244,173,133,206,222,28,34>>
RE == <<0,0,170,192,84,23,121,200,252,69,227,226,203,37,193,43,93,37,118,178,18,154,232,187,94,226,203,229,236,158,120,92>>
C1X == <<36,69,71,17,100,73,6,24,225,238,32,82,143,241,213,69,176,241,76,139,202,164,69,68,240,61,171,93,172,7,216,255>>
C2E == <<27,95,91,14,149,20,137,104,47,62,100,225,55,140,221,93,169,81,59,28>>
C3E == <<186,103,35,135,188,214,222,80,22,161,88,165,43,178,231,252,66,145,151,188,171,112,178,90,254,227,122,43,157,185,243,103>>
KX == <<\h00,\h02,\hE6,\h5B,\h07,\h62,\hD0,\h42,\hF5,\h1F,\h0D,\h23,\h54,\h2B,\h13,\hED,\h8C,\hFA,\h2E,\h9A,\h0E,\h72,\h06,\h36,\h1E,\h01,\h3A,\h28,\h39,\h05,\hE3,\h1F>>
RA_ == <<\h00,\h00,\h58,\h79,\hDD,\h1D,\h51,\hE1,\h75,\h94,\h6F,\h23,\hB1,\hB4,\h1E,\h93,\hBA,\h31,\hC5,\h84,\hAE,\h59,\hA4,\h26,\hEC,\h10,\h46,\hA4,\hD0,\h3B,\h06,\hC8>>
RB_ == <<\h00,\h01,\h8B,\h98,\hC4,\h4B,\hEF,\h9F,\h85,\h37,\hFB,\h7D,\h07,\h1B,\h2C,\h92,\h8B,\h3B,\hC6,\h5B,\hD3,\hD6,\h9E,\h1E,\hEE,\h21,\h35,\h64,\h90,\h56,\h34,\hFE>>
SKX == <<\hC5,\hC1,\h3A,\h8F,\h59,\hA9,\h7C,\hDE,\hAE,\h64,\hF1,\h6A,\h22,\h72,\hA9,\hE7>>
RAX == <<\h7C,\hBA,\h5B,\h19,\h06,\h9E,\hE6,\h6A,\hA7,\h9D,\h49,\h04,\h13,\hD1,\h18,\h46,\hB9,\hBA,\h76,\hDD,\h22,\h56,\h7F,\h80,\h9C,\hF2,\h3B,\h6D,\h96,\h4B,\hB2,\h65>>
Alice == <<65,108,105,99,101>>
Bob == <<66,111,98>>
MsgS == <<67,104,105,110,101,115,101,32,73,66,83,32,115,116,97,110,100,97,114,100>>
MsgE == <<67,104,105,110,101,115,101,32,73,66,69,32,115,116,97,110,100,97,114,100>>
ASSUME G0Const = Pairing(GenG1, GenG2)
ASSUME F12Pow(G0Const, N) = F12One /\ G0Const # F12One
ASSUME G1OnCurve(GenG1) /\ G2OnCurve(GenG2) /\ G1Mul(N, GenG1) = Inf /\ G2Mul(N, GenG2) = Inf
\* signature
KSn == BFromBE(KS)
ASSUME GPow(KSn) = GDefS(KSn)
DsA == ExtractSign(KSn, Alice)
ASSUME DsA[1] = "ok" /\ DsA[2][1] = BFromBE(DSX)
SigA == Sign(GPow(KSn), DsA[2], MsgS, BFromBE(RS))
ASSUME SigA = <<"ok", BFromBE(HEXP), <<BFromBE(SX), BFromBE(SY)>>>>
ASSUME Verify(GPow(KSn), PpubS(KSn), Alice, MsgS, BFromBE(HEXP), <<BFromBE(SX), BFromBE(SY)>>)
ASSUME ~Verify(GPow(KSn), PpubS(KSn), Bob, MsgS, BFromBE(HEXP), <<BFromBE(SX), BFromBE(SY)>>)
\* encryption
KEn == BFromBE(KE)
ASSUME GPow(KEn) = GDefE(KEn)
EncA == Encrypt(GPow(KEn), PpubE(KEn), Bob, MsgE, BFromBE(RE))
ASSUME EncA[1] = "ok" /\ SubSeq(EncA[2], 2, 33) = C1X /\ SubSeq(EncA[2], 66, 97) = C3E /\ SubSeq(EncA[2], 98, Len(EncA[2])) = C2E
DeB == ExtractEnc(KEn, Bob, 3)
ASSUME Decrypt(DeB[2], Bob, EncA[2]) = <<"ok", MsgE>>
\* key exchange
KXn == BFromBE(KX)
RApt == G1Mul(RA_, QB(PpubE(KXn), Bob, 2))
RBpt == G1Mul(RB_, QB(PpubE(KXn), Alice, 2))
ASSUME B32(RApt[1]) = RAX
ASSUME KxB(GPow(KXn), PpubE(KXn), ExtractEnc(KXn, Bob, 2)[2], Alice, Bob, RApt, BFromBE(RB_), 16) = SKX
ASSUME KxA(GPow(KXn), ExtractEnc(KXn, Alice, 2)[2], Alice, Bob, BFromBE(RA_), RApt, RBpt, 16) = SKX
VARIABLE anx
Init == anx = 0
Next == anx' = anx
=============================================================================
