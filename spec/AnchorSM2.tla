---- MODULE AnchorSM2 ----
EXTENDS SM2
VARIABLE anx
Init == anx = 0
Next == anx' = anx
====
