CONSTANTS N = 7 MODE = "kex" NOMAC = FALSE NOCURVE = FALSE
INIT Init
NEXT Next
INVARIANT Inv
CHECK_DEADLOCK FALSE
