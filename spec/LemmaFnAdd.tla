---------------------------- MODULE LemmaFnAdd ----------------------------
(***************************************************************************)
(* E5 (Apalache, all operands of the full width): the register-level        *)
(* modular addition / subtraction of gm-sm2 (fn_add, fn_sub in fn64.rs;     *)
(* fp_add, fp_sub in fp64.rs have the same shape with p and 2^256 - p):     *)
(*   raw = a + b on 256 bits with carry c; c -> r + (2^256 - m);            *)
(*   r >= m -> r - m; else r.                                               *)
(* InvCanon: exact for canonical operands (< m).  InvAny (negative control, *)
(* must be REFUTED): not exact for arbitrary 256-bit operands (e + x1 >= 2m).*)
(* M is the modulus (SM2 n or p, SM9 p or N).                                *)
(***************************************************************************)
EXTENDS Integers
CONSTANT
  \* @type: Int;
  M
R == 2^256
CInitN2 == M = 115792089210356248756420345214020892766061623724957744567843809356293439045923
CInitP2 == M = 115792089210356248756420345214020892766250353991924191454421193933289684991999
CInitP9 == M = 82434016654578246444830763105245969129603161266935169637912592173415460324733
CInitN9 == M = 82434016654578246444830763105245969129316048019845143771873730126023764135717
ImplAdd(a, b) ==
  LET raw == a + b
      r == raw % R
      c == raw >= R
  IN IF c THEN (r + (R - M)) % R
     ELSE IF r >= M THEN r - M ELSE r
ImplSub(a, b) ==
  LET raw == (a - b + R) % R
      bor == a < b
  IN IF bor THEN (raw - (R - M) + R) % R ELSE raw
VARIABLES
  \* @type: Int;
  a,
  \* @type: Int;
  b
Init == a \in 0..(R-1) /\ b \in 0..(R-1)
Next == UNCHANGED <<a, b>>
InvCanon == (a < M /\ b < M) => (ImplAdd(a, b) = (a + b) % M /\ ImplSub(a, b) = (a - b + M) % M)
InvAny == ImplAdd(a, b) = (a + b) % M
=============================================================================
