----------------------------- MODULE TraceSM2 -----------------------------
(***************************************************************************)
(* Trace specification for gm-sm2: every recorded event of the real library *)
(* must be explained by SM2.tla (L0).  Events are stateless at the API      *)
(* level except the key-agreement sessions (kx ops), whose specification      *)
(* state is the pair of party states.  Each verdict carries the property    *)
(* the event was recorded for (e.prop), a spec-assigned case class and the  *)
(* deviation kind.  Expensive checks are evaluated lazily (only when the    *)
(* library ACCEPTED a faulted input is the full verification evaluated).    *)
(***************************************************************************)
EXTENDS SM2Jac, SM2Codec, Gen, Json, IOUtils
Events == ndJsonDeserialize(IOEnv.TRACE)
N == Len(Events)
VARIABLES tpos, tst, tlast
IsStart(j) == j = 1 \/ Events[j].sess # Events[j-1].sess
St0 == [kx |-> <<>>]
Verdict(e, ok, class, kind) == <<e.id, IF ok THEN "ok" ELSE "dev", e.prop, class, IF ok THEN "-" ELSE kind>>
Crash(e) == e.outcome \in {"panic", "timeout"}
Pk(e) == <<BFromBE(SubSeq(e.pk, 2, 33)), BFromBE(SubSeq(e.pk, 34, 65))>>       \* e.pk = 04 || x || y of a VALID key (driver invariant, re-checked by PkOK)
PkOK(e) == Len(e.pk) = 65 /\ e.pk[1] = 4 /\ C!OnCurve(Pk(e))
Stay == tst' = tst

\* ---------------- C04: verification ----------------
VerClass(e) == IF Len(e.sig) < 64 THEN "len<64" ELSE IF Len(e.sig) > 64 THEN "len>64" ELSE IF e.fault = "none" THEN "untouched" ELSE IF e.fault = "altered-id-edge" THEN "altered-id-edge" ELSE "tampered64"
VerAllowed(e, m) == /\ e.outcome \in {"ok", "err"}
                    /\ (Len(e.sig) # 64 => e.outcome = "err")
                    /\ (e.outcome = "ok" => Verify(Pk(e), e.uid, m, e.sig))
                    /\ (e.fault = "none" => (e.outcome = "ok") = Verify(Pk(e), e.uid, m, e.sig))
VerKind(e) == IF Crash(e) THEN e.outcome ELSE IF e.outcome = "ok" THEN "accepted-but-spec-rejects" ELSE "rejected-but-spec-accepts"
Ver1(e) == Stay /\ tlast' = Verdict(e, PkOK(e) /\ VerAllowed(e, MsgOf(e)), VerClass(e), VerKind(e))
\* digest-level (hook): crafted cases; e.e = 32-byte digest
VerDAllowed(e) == /\ e.outcome \in {"ok", "err"}
                  /\ (e.outcome = "ok") = VerifyDigest(Pk(e), e.e, e.sig)
VerD1(e) == Stay /\ tlast' = Verdict(e, PkOK(e) /\ VerDAllowed(e), "digest." \o e.fault, VerKind(e))

\* ---------------- C03: signing ----------------
\* e.ks = the scalars the RNG hook reported as ACCEPTED during the call, in order; all but the last must be retries of the standard
RECURSIVE SignWith(_,_,_,_)
SignWith(d, eb, ks, j) == IF j > Len(ks) THEN <<"none">>
                          ELSE IF j = Len(ks) THEN SignDigest(d, eb, BFromBE(ks[j]))
                          ELSE IF SignDigest(d, eb, BFromBE(ks[j]))[1] = "retry" THEN SignWith(d, eb, ks, j+1) ELSE <<"early">>
SignOk(e, sg) == e.outcome = "ok" /\ sg[1] = "ok" /\ e.sig = SigBytes(sg) /\ InRangeN(sg[2]) /\ InRangeN(sg[3])
SignClass(e) == IF e.op = "sm2.sign_digest" THEN "retry." \o e.fault ELSE IF e.mode = "fixed" THEN "fixed-nonce" ELSE "free-nonce"
SignKind(e, sg) == IF Crash(e) THEN e.outcome ELSE IF e.outcome # "ok" THEN "sign-error" ELSE IF sg[1] # "ok" THEN "nonce-handling" ELSE "wrong-signature"
Sign3(e, sg) == Stay /\ tlast' = Verdict(e, SignOk(e, sg), SignClass(e), SignKind(e, sg))
Sign2(e, d, pt, m) == Sign3(e, SignWith(d, IF e.op = "sm2.sign" THEN EDigest(e.uid, pt, m) ELSE e.e, e.ks, 1))
Sign1(e) == Sign2(e, BFromBE(e.d), PubOf(e.d), IF e.op = "sm2.sign" THEN MsgOf(e) ELSE <<>>)

\* ---------------- C05 / C06: encryption, decryption, KDF ----------------
RECURSIVE EncWith(_,_,_,_,_,_)
EncWith(pt, ks, j, m, order, comp) == IF j > Len(ks) THEN <<"none">>
                          ELSE IF j = Len(ks) THEN Encrypt(pt, BFromBE(ks[j]), m, order, comp)
                          ELSE IF Encrypt(pt, BFromBE(ks[j]), m, order, comp)[1] = "retry" THEN EncWith(pt, ks, j+1, m, order, comp) ELSE <<"early">>
EncClass(e, m) == e.order \o (IF e.compressed = 1 THEN ".comp" ELSE ".uncomp") \o (IF Len(m) % 32 = 0 THEN ".klen%32=0" ELSE IF Len(m) < 32 THEN ".short" ELSE ".long")
                  \o (IF Len(e.ks) >= 2 /\ Encrypt(Pk(e), BFromBE(e.ks[1]), m, e.order, e.compressed = 1)[1] = "retry" THEN ".retry" ELSE "")
Enc3(e, m, r) == Stay /\ tlast' = Verdict(e, e.outcome = "ok" /\ r[1] = "ok" /\ e.ct = r[2], EncClass(e, m),
                                          IF Crash(e) THEN e.outcome ELSE IF e.outcome # "ok" THEN "encrypt-error" ELSE IF r[1] # "ok" THEN "nonce-handling" ELSE "wrong-ciphertext")
Enc2(e, m) == Enc3(e, m, EncWith(Pk(e), e.ks, 1, m, e.order, e.compressed = 1))
Enc1(e) == Enc2(e, MsgOf(e))
DecAllowed(e, r) == IF r[1] = "ok" THEN e.outcome = "ok" /\ e.out = r[2]
                    ELSE IF r[1] = "err" THEN e.outcome = "err"
                    ELSE e.outcome = "err" \/ (e.outcome = "ok" /\ e.out = r[2])
DecKind(e, r) == IF Crash(e) THEN e.outcome ELSE IF e.outcome = "ok" /\ r[1] = "err" THEN "accepted-but-spec-rejects"
                 ELSE IF e.outcome = "err" THEN "rejected-but-spec-accepts" ELSE "wrong-plaintext"
Dec2(e, r) == Stay /\ tlast' = Verdict(e, DecAllowed(e, r), e.fault, DecKind(e, r))
\* lazily: a rejected faulted ciphertext needs no curve arithmetic unless the spec would accept it -- but only the spec can know, so the
\* cheap structural part is evaluated first (length / prefix), the expensive part only when needed
Dec1(e) == Dec2(e, Decrypt(BFromBE(e.d), e.ct, e.order, e.compressed = 1))
Kdf1(e) == Stay /\ tlast' = Verdict(e, e.outcome = "ok" /\ e.out = KDF(e.z, e.klen), IF e.klen % 32 = 0 THEN "klen%32=0" ELSE "klen-other",
                                    IF Crash(e) THEN e.outcome ELSE "wrong-kdf")

\* ---------------- C15: key agreement, judged step by step (inputs of each step are logged; w = 127, one-byte tags) ----------------
\* common fields: idA, idB (bytes), klen; the party's secrets; points as stored Jacobian records
KxZ(e, who) == IF who = "A" THEN ZA(e.idA, Pk([pk |-> e.pkA])) ELSE ZA(e.idB, Pk([pk |-> e.pkB]))
PtA(e) == Pk([pk |-> e.pkA])
PtB(e) == Pk([pk |-> e.pkB])
RecvOK(pt) == pt # Inf /\ pt # <<"bad">> /\ C!OnCurve(pt)
\* step 1 (A): RA = [rA]G
Kx1(e) == Stay /\ tlast' = Verdict(e, e.outcome = "ok" /\ JCanon(e.ra_out) /\ Denote(e.ra_out) = Mul(e.r, G), "step1", IF Crash(e) THEN e.outcome ELSE "wrong-RA")
\* step 2 (B): receives RA'; outputs RB, SB, KB
Kx2Exp(e, rcv, rb) == IF ~RecvOK(rcv) THEN <<"err">>
                      ELSE <<"ok", KxResponder(BFromBE(e.d), BFromBE(e.r), rb, PtA(e), rcv, KxZ(e, "A"), KxZ(e, "B"), e.klen), rb>>
Kx2Ok(e, x) == IF x[1] = "err" THEN e.outcome = "err"
               ELSE IF x[2].v = Inf THEN e.outcome = "err"
               ELSE e.outcome = "ok" /\ JCanon(e.rb_out) /\ Denote(e.rb_out) = x[3] /\ e.sb = x[2].sb /\ e.key = x[2].k
Kx2Kind(e, x) == IF Crash(e) THEN e.outcome ELSE IF x[1] = "err" THEN "accepted-invalid-point" ELSE IF e.outcome # "ok" THEN "honest-run-failed"
                 ELSE IF e.key # x[2].k THEN "nonconforming-key" ELSE IF e.sb # x[2].sb THEN "nonconforming-SB" ELSE "wrong-RB"
Kx2b(e, x) == Stay /\ tlast' = Verdict(e, Kx2Ok(e, x), "step2." \o e.tamper, Kx2Kind(e, x))
\* (no ephemeral scalar was logged -- the call crashed or failed before drawing it: only a rejection of an invalid R_A can be confirmed)
Kx2NoR(e, rcv) == Stay /\ tlast' = Verdict(e, e.outcome = "err" /\ ~RecvOK(rcv), "step2." \o e.tamper, IF Crash(e) THEN e.outcome ELSE "failed-before-drawing")
Kx2(e) == IF Len(e.r) # 32 THEN Kx2NoR(e, IF JCanon(e.ra_in) THEN Denote(e.ra_in) ELSE <<"bad">>)
          ELSE Kx2b(e, Kx2Exp(e, IF JCanon(e.ra_in) THEN Denote(e.ra_in) ELSE <<"bad">>, Mul(e.r, G)))
\* step 3 (A): receives RB', SB'; outputs SA, KA
Kx3Exp(e, rcv, ra) == IF ~RecvOK(rcv) THEN <<"err">>
                      ELSE <<"ok", KxInitiator(BFromBE(e.d), BFromBE(e.r), ra, PtB(e), rcv, KxZ(e, "A"), KxZ(e, "B"), e.klen)>>
Kx3Ok(e, x) == IF x[1] = "err" THEN e.outcome = "err"
               ELSE IF x[2].v = Inf \/ x[2].sb # e.sb_in THEN e.outcome = "err"
               ELSE e.outcome = "ok" /\ e.sa = x[2].sa /\ e.key = x[2].k
Kx3Kind(e, x) == IF Crash(e) THEN e.outcome ELSE IF x[1] = "err" THEN "accepted-invalid-point"
                 ELSE IF e.outcome = "ok" /\ x[2].sb # e.sb_in THEN "accepted-wrong-SB"
                 ELSE IF e.outcome # "ok" THEN "honest-run-failed" ELSE IF e.key # x[2].k THEN "nonconforming-key" ELSE "nonconforming-SA"
Kx3b(e, x) == Stay /\ tlast' = Verdict(e, Kx3Ok(e, x), "step3." \o e.tamper, Kx3Kind(e, x))
Kx3(e) == Kx3b(e, Kx3Exp(e, IF JCanon(e.rb_in) THEN Denote(e.rb_in) ELSE <<"bad">>, Mul(e.r, G)))
\* step 4 (B): receives SA'; accepts iff it equals S2 computed from what B holds (RA' as received in step 2)
Kx4Exp(e, rcv, rb) == IF ~RecvOK(rcv) THEN <<"err">> ELSE <<"ok", KxResponder(BFromBE(e.d), BFromBE(e.r), rb, PtA(e), rcv, KxZ(e, "A"), KxZ(e, "B"), e.klen)>>
Kx4Ok(e, x) == IF x[1] = "err" THEN e.outcome = "err" \/ (e.outcome = "ok" /\ e.accepted = 0)
               ELSE e.outcome = "ok" /\ (e.accepted = 1) = (x[2].sa = e.sa_in)
Kx4b(e, x) == Stay /\ tlast' = Verdict(e, Kx4Ok(e, x), "step4." \o e.tamper, IF Crash(e) THEN e.outcome ELSE IF e.accepted = 1 THEN "accepted-wrong-SA" ELSE "rejected-correct-SA")
Kx4(e) == Kx4b(e, Kx4Exp(e, IF JCanon(e.ra_in) THEN Denote(e.ra_in) ELSE <<"bad">>, Mul(e.r, G)))

\* ---------------- C19: encodings ----------------
EncAll(e, d, pt) == /\ e.outcome = "ok"
                    /\ e.pkc = EncodePoint(pt, TRUE) /\ e.pku = EncodePoint(pt, FALSE)
                    /\ e.hexc = HexEncode(EncodePoint(pt, TRUE)) /\ e.hexu = HexEncode(EncodePoint(pt, FALSE))
                    /\ e.skb = B32(d) /\ e.skhex = HexEncode(B32(d))
                    /\ e.spki_der = Spki(pt) /\ e.spki_pem = Pem(LabelPub, Spki(pt))
                    /\ e.p8_der = Pkcs8(d, pt) /\ e.p8_pem = Pem(LabelPriv, Pkcs8(d, pt))
CodecEnc1(e) == Stay /\ tlast' = Verdict(e, EncAll(e, BFromBE(e.d), PubOf(e.d)), "encode." \o (IF e.d[1] = 0 THEN "leading-zero-d" ELSE "plain"),
                                          IF Crash(e) THEN e.outcome ELSE "wrong-encoding")
\* decoders.  expected: <<"ok", bytes>> | <<"err">> | <<"lenient">> (ok => the result must be a valid key)
PtBytes(r) == IF r[1] = "ok" THEN <<"ok", EncodePoint(r[2], FALSE)>> ELSE IF r[1] = "either" THEN <<"lenient">> ELSE <<"err">>
HexThen(h) == IF h[1] = "err" THEN <<"err">> ELSE PtBytes(DecodePoint(h[2]))
SkBytes(b) == IF Len(b) # 32 THEN <<"err">> ELSE IF ValidPrivate(b) THEN <<"ok", b>> ELSE <<"lenient">>
SkHex(h) == IF h[1] = "err" THEN <<"err">> ELSE SkBytes(h[2])
SpkiExp(r) == IF r[1] = "other" THEN <<"lenient">> ELSE PtBytes(r)
P8Exp(r) == IF r[1] = "other" THEN <<"lenient">> ELSE SkBytes(r[2])
DecExpected(e) == IF e.kind = "pk_bytes" THEN PtBytes(DecodePoint(e.input))
                  ELSE IF e.kind = "pk_hex" THEN HexThen(HexDecode(e.input))
                  ELSE IF e.kind = "sk_bytes" THEN SkBytes(e.input)
                  ELSE IF e.kind = "sk_hex" THEN SkHex(HexDecode(e.input))
                  ELSE IF e.kind = "spki_der" THEN SpkiExp(SpkiDecode(e.input))
                  ELSE IF e.kind = "pkcs8_der" THEN P8Exp(Pkcs8Decode(e.input))
                  \* a PEM text the driver assembled from a DER it also logged: if the text IS the PEM armour of that DER, the document is judged by the DER templates
                  \* (with LF or with CRLF line endings: RFC 7468 allows both)
                  ELSE IF e.kind = "pkcs8_pem" /\ Len(e.der) > 0 /\ e.input \in {Pem(LabelPriv, e.der), CrLf(Pem(LabelPriv, e.der))} THEN P8Exp(Pkcs8Decode(e.der))
                  ELSE IF e.kind \in {"spki_pem", "spki_pem_str"} /\ Len(e.der) > 0 /\ e.input \in {Pem(LabelPub, e.der), CrLf(Pem(LabelPub, e.der))} THEN SpkiExp(SpkiDecode(e.der))
                  ELSE <<"lenient">>                                   \* other PEM: judged through re-encoding when canonical (below)
IsPub(e) == e.kind \in {"pk_bytes", "pk_hex", "spki_der", "spki_pem", "spki_pem_str"}
ValidOut(e) == IF IsPub(e) THEN DecodePoint(e.out)[1] = "ok" ELSE ValidPrivate(e.out) \/ Len(e.out) = 32
\* canonical PEM documents (library-made or OpenSSL-made): decoding must succeed and re-encode to the same text
PemCanonOK(e) == IF e.kind = "spki_pem" THEN e.outcome = "ok" /\ DecodePoint(e.out)[1] = "ok" /\ Pem(LabelPub, Spki(DecodePoint(e.out)[2])) = e.input
                 ELSE IF e.kind = "pkcs8_pem" THEN e.outcome = "ok" /\ Len(e.out) = 32 /\ Pem(LabelPriv, Pkcs8(BFromBE(e.out), PubOf(e.out))) = e.input
                 ELSE TRUE
DecOk(e, x) == /\ ~Crash(e)
               /\ (x[1] = "ok" => e.outcome = "ok" /\ e.out = x[2])
               /\ (x[1] = "err" => e.outcome = "err")
               /\ (x[1] = "lenient" /\ e.outcome = "ok" => ValidOut(e))
               /\ (e.canon = 1 => PemCanonOK(e))
CodecDecKind(e, x) == IF Crash(e) THEN e.outcome ELSE IF x[1] = "err" /\ e.outcome = "ok" THEN "accepted-but-spec-rejects"
                      ELSE IF x[1] = "ok" /\ e.outcome # "ok" THEN "rejected-but-spec-accepts" ELSE IF e.outcome = "ok" /\ ~ValidOut(e) THEN "decoded-invalid-key" ELSE "wrong-value"
CodecDec2(e, x) == Stay /\ tlast' = Verdict(e, DecOk(e, x), "decode." \o e.kind \o "." \o e.fault, CodecDecKind(e, x))
CodecDec1(e) == CodecDec2(e, DecExpected(e))
\* GM/T 0009 ciphertext
AsnEnc3(e, r) == Stay /\ tlast' = Verdict(e, e.outcome = "ok" /\ r[1] = "ok" /\ e.der = RawToDer(r[2]), "asn1.enc." \o e.shape,
                                           IF Crash(e) THEN e.outcome ELSE IF e.outcome # "ok" THEN "encrypt-error" ELSE "wrong-der")
AsnEnc1(e) == AsnEnc3(e, EncWith(Pk(e), e.ks, 1, MsgOf(e), "c1c3c2", FALSE))
AsnDec2(e, r) == Stay /\ tlast' = Verdict(e, DecAllowed(e, r), "asn1.dec." \o e.fault, DecKind(e, r))
AsnDec1(e) == AsnDec2(e, DecryptDer(BFromBE(e.d), e.der))

\* ---------------- C11: group law and field arithmetic (verdicts on denotations / residues) ----------------
MontOne == RModP
PairClass(a, b) == IF a = Inf /\ b = Inf THEN "O+O" ELSE IF a = Inf THEN "O+Q" ELSE IF b = Inf THEN "P+O"
                   ELSE IF a = b THEN "P=Q" ELSE IF a = C!Neg(b) THEN "P=-Q" ELSE IF a[2] = b[2] THEN "same-y" ELSE IF a[1] = b[1] THEN "same-x" ELSE "generic"
OutOK(e, expected) == e.outcome = "ok" /\ JCanon(e.out) /\ Denote(e.out) = expected
EcKind(e) == IF Crash(e) THEN e.outcome ELSE "wrong-point"
\* (an operand that IS the point at infinity but not in the form (mont 1, mont 1, 0) the constructor writes -- what P + (-P), [n]G leave behind, or (t^2, t^3, 0) -- is its own class)
CanonO(p) == JX(p) = MontOne /\ JY(p) = MontOne
OtherO(e, a, b) == (a = Inf /\ ~CanonO(e.p)) \/ (b = Inf /\ ~CanonO(e.q))
EcAdd3(e, a, b) == Stay /\ tlast' = Verdict(e, OutOK(e, C!PAdd(a, b)), "add." \o PairClass(a, b) \o (IF a = b /\ a # Inf /\ e.p # e.q THEN ".diffZ" ELSE "") \o (IF OtherO(e, a, b) THEN ".otherO" ELSE ""), EcKind(e))
EcAdd1(e) == IF ValidInput(e.p) /\ ValidInput(e.q) THEN EcAdd3(e, Denote(e.p), Denote(e.q)) ELSE Stay /\ tlast' = Verdict(e, ~Crash(e), "add.invalid-input", e.outcome)
EcUn2(e, a, expected, class) == Stay /\ tlast' = Verdict(e, OutOK(e, expected), class, EcKind(e))
EcDbl1(e) == IF ValidInput(e.p) THEN EcUn2(e, Denote(e.p), C!Dbl(Denote(e.p)), IF Denote(e.p) = Inf THEN "dbl.O" ELSE "dbl") ELSE Stay /\ tlast' = Verdict(e, ~Crash(e), "dbl.invalid-input", e.outcome)
EcNeg1(e) == IF ValidInput(e.p) THEN EcUn2(e, Denote(e.p), C!Neg(Denote(e.p)), "neg") ELSE Stay /\ tlast' = Verdict(e, ~Crash(e), "neg.invalid-input", e.outcome)
KClass(k) == IF BFromBE(k) = BZero THEN "k=0" ELSE IF BFromBE(k) = <<1>> THEN "k=1" ELSE IF BFromBE(k) = NN THEN "k=n" ELSE IF BGeq(BFromBE(k), NN) THEN "k>n" ELSE IF BFromBE(k) = BSub(NN, <<1>>) THEN "k=n-1" ELSE "k<n"
EcSmul1(e) == IF ValidInput(e.p) THEN EcUn2(e, Denote(e.p), Mul(e.k, Denote(e.p)), "smul." \o KClass(e.k) \o (IF JZ(e.p) = MontOne THEN "" ELSE ".jacobian")) ELSE Stay /\ tlast' = Verdict(e, ~Crash(e), "smul.invalid-input", e.outcome)
EcGmul1(e) == EcUn2(e, G, Mul(e.k, G), "gmul." \o KClass(e.k))
EcAffine1(e) == IF ValidInput(e.p) /\ Denote(e.p) # Inf THEN Stay /\ tlast' = Verdict(e, OutOK(e, Denote(e.p)) /\ JZ(e.out) = MontOne, "affine", EcKind(e))
                ELSE Stay /\ tlast' = Verdict(e, ~Crash(e), "affine.O-or-invalid", e.outcome)
EcValid1(e) == Stay /\ tlast' = Verdict(e, e.outcome = "ok" /\ (e.valid = 1) = (JZ(e.p) = BZero \/ (JCanon(e.p) /\ JacOnCurve(e.p))),
                                         IF JZ(e.p) = BZero THEN "valid.O" ELSE IF JCanon(e.p) /\ JacOnCurve(e.p) THEN "valid.on" ELSE "valid.off", IF Crash(e) THEN e.outcome ELSE "wrong-validity")
\* the AFFINE validity predicate: reads (x, y) only
EcValidA1(e) == Stay /\ tlast' = Verdict(e, e.outcome = "ok" /\ (e.valid = 1) = (JCanon(e.p) /\ C!OnCurve(<<FromMont(JX(e.p)), FromMont(JY(e.p))>>)),
                                          IF ~JCanon(e.p) THEN "valid-affine.noncanonical" ELSE IF FromMont(JX(e.p)) = BZero THEN "valid-affine.x=0"
                                          ELSE IF C!OnCurve(<<FromMont(JX(e.p)), FromMont(JY(e.p))>>) THEN "valid-affine.on" ELSE "valid-affine.off", IF Crash(e) THEN e.outcome ELSE "wrong-validity")
\* field ops on stored (Montgomery) representatives; operands canonical
A(e) == BFromBE(e.a)
Bv(e) == BFromBE(e.b)
FpExpected(e) == IF e.f = "add" THEN BAddMod(A(e), Bv(e), PP) ELSE IF e.f = "sub" THEN BSubMod(A(e), Bv(e), PP)
                 ELSE IF e.f \in {"mul", "tmul"} THEN BMulMod(BMulMod(A(e), Bv(e), PP), RInvP, PP)          \* stored representatives: a b R^-1 (tmul: through the trait method)
                 ELSE IF e.f = "sqr" THEN BMulMod(BMulMod(A(e), A(e), PP), RInvP, PP)
                 ELSE IF e.f = "div2" THEN BMulMod(A(e), BPowMod(<<2>>, BSub(PP, <<2>>), PP), PP)
                 ELSE IF e.f = "neg" THEN BSubMod(BZero, A(e), PP) ELSE IF e.f = "dbl" THEN BAddMod(A(e), A(e), PP) ELSE IF e.f = "tpl" THEN BMulMod(A(e), <<3>>, PP)
                 ELSE IF e.f = "to_mont" THEN ToMont(A(e)) ELSE IF e.f = "from_mont" THEN FromMont(A(e))
                 ELSE IF e.f = "inv" THEN ToMont(C!FInv(FromMont(A(e))))
                 ELSE IF e.f = "pow" THEN ToMont(BPowMod(FromMont(A(e)), Bv(e), PP))
                 ELSE <<"?">>
FpSqrtOK(e) == IF C!Sqrt(FromMont(A(e)))[1] = "none" THEN e.outcome = "err"
               ELSE e.outcome = "ok" /\ BLt(BFromBE(e.out), PP) /\ C!FSqr(FromMont(BFromBE(e.out))) = FromMont(A(e))
FpClass(e) == "fp." \o e.f \o "." \o e.cls
Fp1(e) == IF ~(BLt(A(e), PP) /\ BLt(Bv(e), PP)) /\ e.f # "pow" THEN Stay /\ tlast' = Verdict(e, ~Crash(e), "fp.noncanonical-input", e.outcome)
          ELSE IF e.f = "sqrt" THEN Stay /\ tlast' = Verdict(e, FpSqrtOK(e), FpClass(e), IF Crash(e) THEN e.outcome ELSE "wrong-sqrt")
          ELSE Stay /\ tlast' = Verdict(e, e.outcome = "ok" /\ BFromBE(e.out) = FpExpected(e), FpClass(e), IF Crash(e) THEN e.outcome ELSE "wrong-residue")
FnExpected(e) == IF e.f = "add" THEN BAddMod(A(e), Bv(e), NN) ELSE IF e.f = "sub" THEN BSubMod(A(e), Bv(e), NN)
                 ELSE IF e.f = "mul" THEN BMulMod(A(e), Bv(e), NN) ELSE IF e.f = "pow" THEN BPowMod(A(e), Bv(e), NN) ELSE <<"?">>
Fn1(e) == IF ~(BLt(A(e), NN) /\ (BLt(Bv(e), NN) \/ e.f = "pow")) THEN Stay /\ tlast' = Verdict(e, ~Crash(e), "fn.noncanonical-input", e.outcome)
          ELSE Stay /\ tlast' = Verdict(e, e.outcome = "ok" /\ BFromBE(e.out) = FnExpected(e), "fn." \o e.f \o "." \o e.cls, IF Crash(e) THEN e.outcome ELSE "wrong-residue")
\* fixed-base table walk: session state = [base |-> entry(row,1), prev |-> entry(row,b-1)] as affine points
TabPt(e) == <<FromMont(BFromBE(e.x)), FromMont(BFromBE(e.y))>>
TabExpected(e) == IF e.row = 0 /\ e.b = 1 THEN G
                  ELSE IF e.b = 1 THEN Mul(<<1, 0>>, tst.kx.base)           \* [256] entry(row-1, 1)
                  ELSE C!PAdd(tst.kx.prev, tst.kx.base)
Tab2(e, x) == /\ tlast' = Verdict(e, BLt(BFromBE(e.x), PP) /\ BLt(BFromBE(e.y), PP) /\ TabPt(e) = x, IF e.b = 1 THEN "table.row-base" ELSE "table.entry", "wrong-table-entry")
              /\ tst' = [kx |-> [base |-> IF e.b = 1 THEN x ELSE tst.kx.base, prev |-> x]]          \* resync on the specification's value
Tab1(e) == Tab2(e, TabExpected(e))

Step(e) == IF e.op = "sm2.verify" THEN Ver1(e)
           ELSE IF e.op = "sm2.verify_digest" THEN VerD1(e)
           ELSE IF e.op \in {"sm2.sign", "sm2.sign_digest"} THEN Sign1(e)
           ELSE IF e.op = "sm2.encrypt" THEN Enc1(e)
           ELSE IF e.op = "sm2.decrypt" THEN Dec1(e)
           ELSE IF e.op = "sm2.kdf" THEN Kdf1(e)
           ELSE IF e.op = "codec.encode" THEN CodecEnc1(e)
           ELSE IF e.op = "codec.decode" THEN CodecDec1(e)
           ELSE IF e.op = "codec.asn1_enc" THEN AsnEnc1(e)
           ELSE IF e.op = "codec.asn1_dec" THEN AsnDec1(e)
           ELSE IF e.op = "kx.step1" THEN Kx1(e)
           ELSE IF e.op = "ec.add" THEN EcAdd1(e)
           ELSE IF e.op = "ec.dbl" THEN EcDbl1(e)
           ELSE IF e.op = "ec.neg" THEN EcNeg1(e)
           ELSE IF e.op = "ec.smul" THEN EcSmul1(e)
           ELSE IF e.op = "ec.gmul" THEN EcGmul1(e)
           ELSE IF e.op = "ec.affine" THEN EcAffine1(e)
           ELSE IF e.op = "ec.valid" THEN EcValid1(e)
           ELSE IF e.op = "ec.valid_affine" THEN EcValidA1(e)
           ELSE IF e.op = "fp.op" THEN Fp1(e)
           ELSE IF e.op = "fn.op" THEN Fn1(e)
           ELSE IF e.op = "ec.table" THEN Tab1(e)
           ELSE IF e.op = "kx.step2" THEN Kx2(e)
           ELSE IF e.op = "kx.step3" THEN Kx3(e)
           ELSE IF e.op = "kx.step4" THEN Kx4(e)
           ELSE Stay /\ tlast' = <<e.id, "dev", e.prop, "unknown-op", e.op>>
TInit == tpos \in {j \in 1..N : IsStart(j)} /\ tst = St0 /\ tlast = <<>>
TNext == tpos <= N /\ (tlast = <<>> \/ ~IsStart(tpos)) /\ tpos' = tpos + 1 /\ Step(Events[tpos])
Report == tlast # <<>> => PrintT(<<"V", ToJson(tlast)>>)
=============================================================================
