----------------------------- MODULE TraceSM2 -----------------------------
(***************************************************************************)
(* Trace specification for gm-sm2: every recorded event of the real library *)
(* must be explained by SM2.tla (L0).  Events are stateless at the API      *)
(* level except the key-agreement sessions (kx ops), whose specification      *)
(* state is the pair of party states.  Each verdict carries the property    *)
(* the event was recorded for (e.prop), a spec-assigned case class and the  *)
(* deviation kind.  Expensive checks are evaluated lazily (only when the    *)
(* library ACCEPTED a faulted input is the full verification evaluated).    *)
(***************************************************************************)
EXTENDS SM2, Gen, Json, IOUtils
Events == ndJsonDeserialize(IOEnv.TRACE)
N == Len(Events)
VARIABLES tpos, tst, tlast
IsStart(j) == j = 1 \/ Events[j].sess # Events[j-1].sess
St0 == [kx |-> <<>>]
Verdict(e, ok, class, kind) == <<e.id, IF ok THEN "ok" ELSE "dev", e.prop, class, IF ok THEN "-" ELSE kind>>
Crash(e) == e.outcome \in {"panic", "timeout"}
Pk(e) == <<BFromBE(SubSeq(e.pk, 2, 33)), BFromBE(SubSeq(e.pk, 34, 65))>>       \* e.pk = 04 || x || y of a VALID key (driver invariant, re-checked by PkOK)
PkOK(e) == Len(e.pk) = 65 /\ e.pk[1] = 4 /\ C!OnCurve(Pk(e))
Stay == tst' = tst

\* ---------------- C04: verification ----------------
VerClass(e) == IF Len(e.sig) < 64 THEN "len<64" ELSE IF Len(e.sig) > 64 THEN "len>64" ELSE IF e.fault = "none" THEN "untouched" ELSE "tampered64"
VerAllowed(e, m) == /\ e.outcome \in {"ok", "err"}
                    /\ (Len(e.sig) # 64 => e.outcome = "err")
                    /\ (e.outcome = "ok" => Verify(Pk(e), e.uid, m, e.sig))
                    /\ (e.fault = "none" => (e.outcome = "ok") = Verify(Pk(e), e.uid, m, e.sig))
VerKind(e) == IF Crash(e) THEN e.outcome ELSE IF e.outcome = "ok" THEN "accepted-but-spec-rejects" ELSE "rejected-but-spec-accepts"
Ver1(e) == Stay /\ tlast' = Verdict(e, PkOK(e) /\ VerAllowed(e, MsgOf(e)), VerClass(e), VerKind(e))
\* digest-level (hook): crafted cases; e.e = 32-byte digest
VerDAllowed(e) == /\ e.outcome \in {"ok", "err"}
                  /\ (e.outcome = "ok") = VerifyDigest(Pk(e), e.e, e.sig)
VerD1(e) == Stay /\ tlast' = Verdict(e, PkOK(e) /\ VerDAllowed(e), "digest." \o e.fault, VerKind(e))

\* ---------------- C03: signing ----------------
\* e.ks = the scalars the RNG hook reported as ACCEPTED during the call, in order; all but the last must be retries of the standard
RECURSIVE SignWith(_,_,_,_)
SignWith(d, eb, ks, j) == IF j > Len(ks) THEN <<"none">>
                          ELSE IF j = Len(ks) THEN SignDigest(d, eb, BFromBE(ks[j]))
                          ELSE IF SignDigest(d, eb, BFromBE(ks[j]))[1] = "retry" THEN SignWith(d, eb, ks, j+1) ELSE <<"early">>
SignOk(e, sg) == e.outcome = "ok" /\ sg[1] = "ok" /\ e.sig = SigBytes(sg) /\ InRangeN(sg[2]) /\ InRangeN(sg[3])
SignClass(e) == IF e.mode = "fixed" THEN "fixed-nonce" ELSE "free-nonce"
SignKind(e, sg) == IF Crash(e) THEN e.outcome ELSE IF e.outcome # "ok" THEN "sign-error" ELSE IF sg[1] # "ok" THEN "nonce-handling" ELSE "wrong-signature"
Sign3(e, sg) == Stay /\ tlast' = Verdict(e, SignOk(e, sg), SignClass(e), SignKind(e, sg))
Sign2(e, d, pt, m) == Sign3(e, SignWith(d, IF e.op = "sm2.sign" THEN EDigest(e.uid, pt, m) ELSE e.e, e.ks, 1))
Sign1(e) == Sign2(e, BFromBE(e.d), PubOf(e.d), IF e.op = "sm2.sign" THEN MsgOf(e) ELSE <<>>)

\* ---------------- C05 / C06: encryption, decryption, KDF ----------------
RECURSIVE EncWith(_,_,_,_,_,_)
EncWith(pt, ks, j, m, order, comp) == IF j > Len(ks) THEN <<"none">>
                          ELSE IF j = Len(ks) THEN Encrypt(pt, BFromBE(ks[j]), m, order, comp)
                          ELSE IF Encrypt(pt, BFromBE(ks[j]), m, order, comp)[1] = "retry" THEN EncWith(pt, ks, j+1, m, order, comp) ELSE <<"early">>
EncClass(e, m) == e.order \o (IF e.compressed = 1 THEN ".comp" ELSE ".uncomp") \o (IF Len(m) % 32 = 0 THEN ".klen%32=0" ELSE IF Len(m) < 32 THEN ".short" ELSE ".long")
Enc3(e, m, r) == Stay /\ tlast' = Verdict(e, e.outcome = "ok" /\ r[1] = "ok" /\ e.ct = r[2], EncClass(e, m),
                                          IF Crash(e) THEN e.outcome ELSE IF e.outcome # "ok" THEN "encrypt-error" ELSE IF r[1] # "ok" THEN "nonce-handling" ELSE "wrong-ciphertext")
Enc2(e, m) == Enc3(e, m, EncWith(Pk(e), e.ks, 1, m, e.order, e.compressed = 1))
Enc1(e) == Enc2(e, MsgOf(e))
DecAllowed(e, r) == IF r[1] = "ok" THEN e.outcome = "ok" /\ e.out = r[2]
                    ELSE IF r[1] = "err" THEN e.outcome = "err"
                    ELSE e.outcome = "err" \/ (e.outcome = "ok" /\ e.out = r[2])
DecKind(e, r) == IF Crash(e) THEN e.outcome ELSE IF e.outcome = "ok" /\ r[1] = "err" THEN "accepted-but-spec-rejects"
                 ELSE IF e.outcome = "err" THEN "rejected-but-spec-accepts" ELSE "wrong-plaintext"
Dec2(e, r) == Stay /\ tlast' = Verdict(e, DecAllowed(e, r), e.fault, DecKind(e, r))
\* lazily: a rejected faulted ciphertext needs no curve arithmetic unless the spec would accept it -- but only the spec can know, so the
\* cheap structural part is evaluated first (length / prefix), the expensive part only when needed
Dec1(e) == Dec2(e, Decrypt(BFromBE(e.d), e.ct, e.order, e.compressed = 1))
Kdf1(e) == Stay /\ tlast' = Verdict(e, e.outcome = "ok" /\ e.out = KDF(e.z, e.klen), IF e.klen % 32 = 0 THEN "klen%32=0" ELSE "klen-other",
                                    IF Crash(e) THEN e.outcome ELSE "wrong-kdf")

Step(e) == IF e.op = "sm2.verify" THEN Ver1(e)
           ELSE IF e.op = "sm2.verify_digest" THEN VerD1(e)
           ELSE IF e.op \in {"sm2.sign", "sm2.sign_digest"} THEN Sign1(e)
           ELSE IF e.op = "sm2.encrypt" THEN Enc1(e)
           ELSE IF e.op = "sm2.decrypt" THEN Dec1(e)
           ELSE IF e.op = "sm2.kdf" THEN Kdf1(e)
           ELSE Stay /\ tlast' = <<e.id, "dev", e.prop, "unknown-op", e.op>>
TInit == tpos \in {j \in 1..N : IsStart(j)} /\ tst = St0 /\ tlast = <<>>
TNext == tpos <= N /\ (tlast = <<>> \/ ~IsStart(tpos)) /\ tpos' = tpos + 1 /\ Step(Events[tpos])
Report == tlast # <<>> => PrintT(<<"V", ToJson(tlast)>>)
=============================================================================
