------------------------------ MODULE MC_EEA ------------------------------
(***************************************************************************)
(* E1 for C18: the word-level helpers of EEA3.tla against their bit-level   *)
(* meaning, for EVERY shift/length argument and every basis word (single    *)
(* bit) plus dense patterns -- the helpers are GF(2)-linear, so the basis   *)
(* determines them:                                                         *)
(*   MaskHi(w, r)   = the first r bits of w, rest cleared   (r = 1..31)      *)
(*   ZAt2(a, b, r)  = bits r..r+31 of the 64-bit string a||b (r = 0..31)     *)
(*   BitOf(m, b)    = bit b (MSB first) of the word sequence m               *)
(*   WShl / WShr    = logical shifts                                         *)
(* and the IV layouts of EEA3/EIA3 for every BEARER and DIRECTION.           *)
(***************************************************************************)
EXTENDS EEA3
VARIABLES er, ebit
Bit(w, b) == IF b < 16 THEN (w[1] \div (2^(15-b))) % 2 ELSE (w[2] \div (2^(31-b))) % 2       \* bit b of a word, 0 = MSB
Single(b) == IF b < 16 THEN <<2^(15-b), 0>> ELSE <<0, 2^(31-b)>>
Dense == { <<65535,65535>>, <<\haaaa,\h5555>>, <<\h8000,\h0001>>, <<\h1234,\hfedc>> }
Words == { Single(b) : b \in 0..31 } \cup Dense
Init == er = 0 /\ ebit = 0
Next == \/ ebit < 31 /\ ebit' = ebit + 1 /\ er' = er
        \/ ebit = 31 /\ er < 31 /\ er' = er + 1 /\ ebit' = 0
MaskOK == er >= 1 => \A w \in Words : \A b \in 0..31 : Bit(MaskHi(w, er), b) = IF b < er THEN Bit(w, b) ELSE 0
ZAtOK == \A a \in {Single(ebit)} \cup Dense : \A bb \in {<<0,0>>, Single(ebit), <<65535,65535>>} : \A b \in 0..31 :
            Bit(ZAt2(a, bb, er), b) = IF b + er < 32 THEN Bit(a, b + er) ELSE Bit(bb, b + er - 32)
ShiftOK == \A w \in {Single(ebit)} \cup Dense : \A b \in 0..31 :
            /\ Bit(WShl(w, er), b) = IF b + er < 32 THEN Bit(w, b + er) ELSE 0
            /\ Bit(WShr(w, er), b) = IF b >= er THEN Bit(w, b - er) ELSE 0
BitOfOK == \A k \in 0..2 : BitOf(<< <<0,0>>, <<0,0>>, <<0,0>> >>, 32*k + ebit) = 0
                           /\ BitOf([j \in 1..3 |-> IF j = k+1 THEN Single(ebit) ELSE <<0,0>>], 32*k + ebit) = 1
                           /\ (ebit # er => BitOf([j \in 1..3 |-> IF j = k+1 THEN Single(ebit) ELSE <<0,0>>], 32*k + er) = 0)
\* IV layouts: er plays BEARER (0..31), ebit % 2 plays DIRECTION
CNT == <<\h6603, \h5492>>
IvOK == LET d == ebit % 2 IN
        /\ EeaIV(CNT, er, d) = <<\h66,\h03,\h54,\h92, er*8 + d*4, 0,0,0, \h66,\h03,\h54,\h92, er*8 + d*4, 0,0,0>>
        /\ EiaIV(CNT, er, d) = <<\h66,\h03,\h54,\h92, er*8, 0,0,0, \h66 ^^ (d*128),\h03,\h54,\h92, er*8, 0, d*128, 0>>
Inv == MaskOK /\ ZAtOK /\ ShiftOK /\ BitOfOK /\ IvOK
=============================================================================
