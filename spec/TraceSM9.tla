----------------------------- MODULE TraceSM9 -----------------------------
(***************************************************************************)
(* Trace specification for gm-sm9 (C09, C10, C12, C13, C16, C17): every     *)
(* recorded event of the real library must be explained by SM9.tla / BN.tla.*)
(* Stored G1 points are Jacobian over Montgomery residues (R = 2^256 mod p);*)
(* G2 points are Jacobian over Fp2 given in the normal domain.  Verdicts    *)
(* are on denotations.  Pairings are evaluated by definition only where     *)
(* needed (accepted faulted inputs, exact pairing events); honest protocol  *)
(* events use g = G0^k and w = g^r (derived evaluator, see SM9.tla).         *)
(***************************************************************************)
EXTENDS SM9, Gen, Json, IOUtils
Events == ndJsonDeserialize(IOEnv.TRACE)
NEv == Len(Events)
VARIABLES tpos, tst, tlast
IsStart(j) == j = 1 \/ Events[j].sess # Events[j-1].sess
St0 == [tab |-> <<>>]
Verdict(e, ok, class, kind) == <<e.id, IF ok THEN "ok" ELSE "dev", e.prop, class, IF ok THEN "-" ELSE kind>>
Crash(e) == e.outcome \in {"panic", "timeout"}
Stay == tst' = tst
\* ---- representations ----
R256 == <<1>> \o [j \in 1..32 |-> 0]
RInv9 == BPowMod(BMod(R256, P), PM2, P)
FromMont9(a) == BMulMod(a, RInv9, P)
Canon9(a) == BLt(a, P)
JX(p) == BFromBE(p.x)
JY(p) == BFromBE(p.y)
JZ(p) == BFromBE(p.z)
JCanon(p) == Canon9(JX(p)) /\ Canon9(JY(p)) /\ Canon9(JZ(p))
DenZ(x, y, zi) == << Mul(x, Mul(zi, zi)), Mul(y, Mul(zi, Mul(zi, zi))) >>
Den1(p) == IF JZ(p) = Z0 THEN Inf ELSE DenZ(FromMont9(JX(p)), FromMont9(JY(p)), Inv(FromMont9(JZ(p))))          \* stored G1 point -> affine
\* stored G2 point: x, y, z as 64-byte Fp2 strings (normal domain)
D2Z(x, y, zi) == << F2Mul(x, F2Mul(zi, zi)), F2Mul(y, F2Mul(zi, F2Mul(zi, zi))) >>
Den2(q) == IF F2FromBytes(q.z) = F2Zero THEN Inf ELSE D2Z(F2FromBytes(q.x), F2FromBytes(q.y), F2Inv(F2FromBytes(q.z)))
Canon2(q) == \A f \in {q.x, q.y, q.z} : Canon9(BFromBE(SubSeq(f, 1, 32))) /\ Canon9(BFromBE(SubSeq(f, 33, 64)))

\* ---------------- C16: hash to range, extraction ----------------
HaClass(ha) == IF BMod(BFromBE(ha), NM1) = Z0 THEN "rem=0" ELSE IF BMod(BFromBE(ha), NM1) = BSub(NM1, <<1>>) THEN "rem=N-2" ELSE IF BLt(BMod(BFromBE(ha), NM1), <<3>>) THEN "rem-small"
                ELSE IF BLt(BSub(NM1, <<4>>), BMod(BFromBE(ha), NM1)) THEN "rem-large" ELSE "rem-generic"
FromHash1(e) == Stay /\ tlast' = Verdict(e, e.outcome = "ok" /\ BFromBE(e.out) = HFromHa(e.ha), "from_hash." \o HaClass(e.ha) \o "." \o e.cls, IF Crash(e) THEN e.outcome ELSE "wrong-value")
Hash1Ev(e) == Stay /\ tlast' = Verdict(e, e.outcome = "ok" /\ BFromBE(e.out) = H1(e.idb, e.hid) /\ InRangeN(BFromBE(e.out)), "hash1", IF Crash(e) THEN e.outcome ELSE "wrong-value")
Hash2Ev(e) == Stay /\ tlast' = Verdict(e, e.outcome = "ok" /\ BFromBE(e.out) = H2(e.data, e.w) /\ InRangeN(BFromBE(e.out)), "hash2", IF Crash(e) THEN e.outcome ELSE "wrong-value")
ExtOk(e, x) == IF x[1] = "none" THEN e.outcome = "ok" /\ e.some = 0
               ELSE e.outcome = "ok" /\ e.some = 1 /\ (IF e.kind = "sign" THEN JCanon(e.pt) /\ Den1(e.pt) = x[2] ELSE Canon2(e.pt) /\ Den2(e.pt) = x[2])
Ext2(e, x) == Stay /\ tlast' = Verdict(e, ExtOk(e, x), "extract." \o e.kind \o (IF x[1] = "none" THEN ".none" ELSE ""), IF Crash(e) THEN e.outcome ELSE IF x[1] = "none" THEN "extracted-for-zero-t1" ELSE "wrong-key")
Ext1(e) == Ext2(e, IF e.kind = "sign" THEN ExtractSign(BFromBE(e.k), e.idb) ELSE ExtractEnc(BFromBE(e.k), e.idb, IF e.kind = "enc" THEN 3 ELSE 2))

\* ---------------- C09: signatures ----------------
RECURSIVE SignWith(_,_,_,_,_)
SignWith(g, ds, m, rs, j) == IF j > Len(rs) THEN <<"none">>
                             ELSE IF j = Len(rs) THEN Sign(g, ds, m, BFromBE(rs[j]))
                             ELSE IF Sign(g, ds, m, BFromBE(rs[j]))[1] = "retry" THEN SignWith(g, ds, m, rs, j+1) ELSE <<"early">>
SignOk(e, sg) == e.outcome = "ok" /\ sg[1] = "ok" /\ BFromBE(e.h) = sg[2] /\ InRangeN(sg[2]) /\ JCanon(e.s) /\ Den1(e.s) = sg[3]
Sign3(e, sg) == Stay /\ tlast' = Verdict(e, SignOk(e, sg), IF e.mode = "fixed" THEN "sign.fixed-r" ELSE "sign.free-r",
                                         IF Crash(e) THEN e.outcome ELSE IF e.outcome # "ok" THEN "sign-error" ELSE IF sg[1] # "ok" THEN "nonce-handling" ELSE "wrong-signature")
\* (no private key exists for this (master key, identity) -- H1 + ks = 0 mod N --: nothing can be signed; the driver reports the failed extraction as err)
Sign2(e, ds, m) == IF ds[1] = "none" THEN Stay /\ tlast' = Verdict(e, e.outcome = "err", "sign.no-key", IF Crash(e) THEN e.outcome ELSE "signed-without-a-key") ELSE Sign3(e, SignWith(GPow(BFromBE(e.ks)), ds[2], m, e.rs, 1))
Sign1(e) == Sign2(e, ExtractSign(BFromBE(e.ks), e.idb), MsgOf(e))
\* verification.  e.ppubs = master public key as given to the library (stored G2 point); e.ks only when ppubs = [ks]P2 (honest key)
\* honest events carry e.r (the signer's nonce): validity follows from (h, S) = Sign(...) without evaluating a pairing
\* (an "honest" signature for a (master key, identity) pair that has NO private key cannot exist: such an event -- a broken library signed with the
\*  point at infinity as key -- is a deviation, not an evaluation error of the specification)
HonestValid(e, m) == /\ e.honest = 1
                     /\ ExtractSign(BFromBE(e.ks), e.idb)[1] = "ok"
                     /\ SignWith(GPow(BFromBE(e.ks)), ExtractSign(BFromBE(e.ks), e.idb)[2], m, <<e.r>>, 1) = <<"ok", BFromBE(e.h), Den1(e.s)>>
FullVerify(e, m) == IF ~(JCanon(e.s) /\ Canon2(e.ppubs)) THEN FALSE
                    ELSE Verify(IF e.keyfault = 0 THEN GPow(BFromBE(e.ks)) ELSE Pairing(GenG1, Den2(e.ppubs)), Den2(e.ppubs), e.idb, m, BFromBE(e.h), Den1(e.s))
VerAllowed(e, m) == /\ e.outcome \in {"ok", "err"}
                    /\ (e.honest = 1 => HonestValid(e, m) /\ e.outcome = "ok")
                    /\ (e.honest = 0 /\ e.outcome = "ok" => FullVerify(e, m))
VerClass(e) == IF e.fault = "none" THEN "verify.untouched" ELSE "verify." \o e.fault
Ver1(e) == Stay /\ tlast' = Verdict(e, VerAllowed(e, MsgOf(e)), VerClass(e), IF Crash(e) THEN e.outcome ELSE IF e.outcome = "ok" THEN "accepted-but-spec-rejects" ELSE "rejected-but-spec-accepts")

\* ---------------- C10: encryption ----------------
RECURSIVE EncWith(_,_,_,_,_,_)
EncWith(g, ppube, id, m, rs, j) == IF j > Len(rs) THEN <<"none">>
                                   ELSE IF j = Len(rs) THEN Encrypt(g, ppube, id, m, BFromBE(rs[j]))
                                   ELSE IF Encrypt(g, ppube, id, m, BFromBE(rs[j]))[1] = "retry" THEN EncWith(g, ppube, id, m, rs, j+1) ELSE <<"early">>
Enc3(e, m, x) == Stay /\ tlast' = Verdict(e, e.outcome = "ok" /\ x[1] = "ok" /\ e.ct = x[2], "encrypt." \o (IF Len(m) % 32 = 0 THEN "len%32=0" ELSE IF Len(m) < 32 THEN "short" ELSE "long") \o (IF e.expect_retry = 1 THEN ".k1-zero" ELSE ""),
                                          IF Crash(e) THEN e.outcome ELSE IF x[1] # "ok" THEN "nonce-handling" ELSE "wrong-ciphertext")
Enc2(e, m) == Enc3(e, m, EncWith(GPow(BFromBE(e.ke)), PpubE(BFromBE(e.ke)), e.idb, m, e.rs, 1))
Enc1(e) == Enc2(e, MsgOf(e))
\* decryption: honest events (library-made / spec-made ciphertext with known r) are decided through w = g^r after checking C1 = [r]QB;
\* faulted events need the definitional pairing only if the library ACCEPTED
HonestPlain(e) == DecW(SubSeq(e.ct, 2, 65), SubSeq(e.ct, 98, Len(e.ct)), SubSeq(e.ct, 66, 97), e.idb, F12Pow(GPow(BFromBE(e.ke)), B32(BFromBE(e.r))))
HonestC1(e) == e.ct[1] = 4 /\ PtBytes(G1Mul(B32(BFromBE(e.r)), QB(PpubE(BFromBE(e.ke)), e.idb, 3))) = SubSeq(e.ct, 2, 65)
DecAllowed(e) == /\ e.outcome \in {"ok", "err"}
                 /\ (e.honest = 1 => HonestC1(e) /\ HonestPlain(e) = <<"ok", e.out>> /\ e.outcome = "ok")
                 /\ (e.honest = 0 /\ e.outcome = "ok" => Decrypt(ExtractEnc(BFromBE(e.ke), e.keyid, 3)[2], e.idb, e.ct) = <<"ok", e.out>>)
Dec1(e) == Stay /\ tlast' = Verdict(e, DecAllowed(e), "decrypt." \o e.fault, IF Crash(e) THEN e.outcome ELSE IF e.outcome = "ok" THEN "accepted-but-spec-rejects" ELSE "rejected-but-spec-accepts")

\* ---------------- C17: key exchange ----------------
Kx1a(e) == Stay /\ tlast' = Verdict(e, e.outcome = "ok" /\ JCanon(e.ra) /\ Den1(e.ra) = G1Mul(e.r, QB(PpubE(BFromBE(e.ke)), e.idb, 2)), "kx.1a", IF Crash(e) THEN e.outcome ELSE "wrong-RA")
\* 1b (responder B).  If e.peer_r is given (honest RA = [rA]QB) then g1 = g^rA, else the definitional e(RA, deB)
G1Of(e, g, pt) == IF Len(e.peer_r) = 32 /\ pt = G1Mul(e.peer_r, QB(PpubE(BFromBE(e.ke)), e.idb, 2)) THEN F12Pow(g, e.peer_r) ELSE Pairing(pt, ExtractEnc(BFromBE(e.ke), e.idb, 2)[2])
Kx1bExp(e, g, pt, rb) == KxB2(e.ida, e.idb, pt, G1Mul(rb, QB(PpubE(BFromBE(e.ke)), e.ida, 2)), G1Of(e, g, pt), g, BFromBE(rb), e.klen)
\* the point at infinity: GM/T 0044.3 asks for "R in G1"; the identity is a group element, so the specification accepts either outcome for it
Kx1bOk(e, pt) == IF pt = Inf /\ JCanon(e.ra_in) THEN e.outcome \in {"ok", "err"}
                 ELSE IF ~JCanon(e.ra_in) \/ ~G1OnCurve(pt) THEN e.outcome = "err"
                 ELSE e.outcome = "ok" /\ JCanon(e.rb) /\ Den1(e.rb) = G1Mul(e.r, QB(PpubE(BFromBE(e.ke)), e.ida, 2)) /\ e.sk = Kx1bExp(e, GPow(BFromBE(e.ke)), pt, e.r)
Kx1b(e) == Stay /\ tlast' = Verdict(e, Kx1bOk(e, IF JCanon(e.ra_in) THEN Den1(e.ra_in) ELSE Inf), "kx.1b." \o e.tamper,
                                    IF Crash(e) THEN e.outcome ELSE IF e.outcome = "ok" /\ e.tamper \in {"offcurve", "infinity"} THEN "accepted-invalid-point" ELSE IF e.outcome # "ok" THEN "honest-run-failed" ELSE "nonconforming-key")
\* 2a (initiator A): has rA, RA; receives RB.  If e.peer_r is given (honest RB = [rB]QA) then g2 = g^rB
G2Of(e, g, pt) == IF Len(e.peer_r) = 32 /\ pt = G1Mul(e.peer_r, QB(PpubE(BFromBE(e.ke)), e.ida, 2)) THEN F12Pow(g, e.peer_r) ELSE Pairing(pt, ExtractEnc(BFromBE(e.ke), e.ida, 2)[2])
Kx2aExp(e, g, ra, pt) == KxA2(e.ida, e.idb, ra, pt, g, G2Of(e, g, pt), BFromBE(e.r), e.klen)
\* (an initiator whose own R_A is not a finite curve point -- already reported at step 1a -- is not judged again: there is no key to compare with)
Kx2aOk(e, pt) == IF ~JCanon(e.ra) \/ Den1(e.ra) = Inf THEN TRUE
                 ELSE IF pt = Inf /\ JCanon(e.rb_in) THEN e.outcome \in {"ok", "err"}
                 ELSE IF ~JCanon(e.rb_in) \/ ~G1OnCurve(pt) THEN e.outcome = "err"
                 ELSE e.outcome = "ok" /\ e.sk = Kx2aExp(e, GPow(BFromBE(e.ke)), Den1(e.ra), pt)
Kx2a(e) == Stay /\ tlast' = Verdict(e, Kx2aOk(e, IF JCanon(e.rb_in) THEN Den1(e.rb_in) ELSE Inf), "kx.2a." \o e.tamper,
                                    IF Crash(e) THEN e.outcome ELSE IF e.outcome = "ok" /\ e.tamper \in {"offcurve", "infinity"} THEN "accepted-invalid-point" ELSE IF e.outcome # "ok" THEN "honest-run-failed" ELSE "nonconforming-key")

\* ---------------- C12: the pairing itself ----------------
PairExact(e) == Stay /\ tlast' = Verdict(e, e.outcome = "ok" /\ JCanon(e.p) /\ Canon2(e.q) /\ e.out = F12Bytes(Pairing(Den1(e.p), Den2(e.q))),
                                         "pairing.exact." \o e.cls, IF Crash(e) THEN e.outcome ELSE "wrong-pairing-value")
\* identities evaluated inside the library, judged with cheap arithmetic: e([b]P1, [a]P2) = G0^(ab)
PairIdent(e) == Stay /\ tlast' = Verdict(e, e.outcome = "ok" /\ F12FromBytes(e.out) = F12Pow(G0Const, B32(BMulMod(BFromBE(e.a), BFromBE(e.b), N))),
                                         "pairing.bilinear." \o e.cls, IF Crash(e) THEN e.outcome ELSE "not-bilinear")
PairPow(e) == Stay /\ tlast' = Verdict(e, e.outcome = "ok" /\ F12FromBytes(e.out) = F12Pow(F12FromBytes(e.base), e.e),
                                       "gt.pow." \o e.cls, IF Crash(e) THEN e.outcome ELSE "wrong-power")

\* ---------------- C13: tower, mod-N, G1/G2 ----------------
UEl == Emb(<<Z0, One>>, 0)                 \* u = w^6
VEl == Emb(<<One, Z0>>, 3)                 \* v = w^3
HalfOK(a, out) == F12Add(out, out) = a
InvOK(a, out) == IF a = F12Zero THEN out = F12Zero ELSE F12Mul(a, out) = F12One
PSq == BMul(P, P)
P6 == BMul(BMul(PSq, PSq), PSq)
\* verdict of a tower operation given the embedded operands a, b, the embedded result o and the raw component view of a, b (for conj / scalars)
TowerOK(f, a, b, o, lvl, ra, rb) ==
   IF f = "add" THEN o = F12Add(a, b) ELSE IF f = "sub" THEN o = F12Sub(a, b) ELSE IF f = "mul" THEN o = F12Mul(a, b)
   ELSE IF f = "sqr" THEN o = F12Mul(a, a) ELSE IF f = "neg" THEN o = F12Neg(a) ELSE IF f = "dbl" THEN o = F12Add(a, a)
   ELSE IF f = "tpl" THEN o = F12Add(a, F12Add(a, a)) ELSE IF f = "div2" THEN HalfOK(a, o) ELSE IF f = "inv" THEN InvOK(a, o)
   ELSE IF f = "div" THEN (b # F12Zero => F12Mul(o, b) = a)
   ELSE IF f = "conj" THEN (IF lvl = 2 THEN o = Emb2(F2Conj(ra)) ELSE o = Emb4(<<ra[1], F2Neg(ra[2])>>))
   ELSE IF f = "a_mul_u" THEN o = F12Mul(a, UEl) ELSE IF f = "mul_u" THEN o = F12Mul(F12Mul(a, b), UEl) ELSE IF f = "sqr_u" THEN o = F12Mul(F12Mul(a, a), UEl)
   ELSE IF f = "a_mul_v" THEN o = F12Mul(a, VEl) ELSE IF f = "mul_v" THEN o = F12Mul(F12Mul(a, b), VEl) ELSE IF f = "sqr_v" THEN o = F12Mul(F12Mul(a, a), VEl)
   ELSE IF f = "mul_fp" THEN o = F12Mul(a, Emb2(<<(IF lvl = 2 THEN rb[1] ELSE rb[1][1]), Z0>>))
   ELSE IF f = "mul_fp2" THEN o = F12Mul(a, Emb2(rb[1]))
   ELSE IF f = "frob2" THEN o = F12Pow(a, PSq) ELSE IF f = "frob6" THEN o = F12Pow(a, P6)
   ELSE FALSE
EmbL(lvl, b) == IF lvl = 1 THEN Emb2(<<BFromBE(b), Z0>>) ELSE IF lvl = 2 THEN Emb2(F2FromBytes(b)) ELSE IF lvl = 4 THEN Emb4(F4FromBytes(b)) ELSE F12FromBytes(b)
RawL(lvl, b) == IF lvl = 1 THEN <<BFromBE(b), Z0>> ELSE IF lvl = 2 THEN F2FromBytes(b) ELSE IF lvl = 4 THEN F4FromBytes(b) ELSE <<>>
CanonBytes(b) == \A j \in 1..(Len(b) \div 32) : Canon9(BFromBE(SubSeq(b, 32*(j-1)+1, 32*j)))
Tower1(e) == IF ~(CanonBytes(e.a) /\ CanonBytes(e.b)) THEN Stay /\ tlast' = Verdict(e, ~Crash(e), "tower.noncanonical-input", e.outcome)
             ELSE Stay /\ tlast' = Verdict(e, e.outcome = "ok" /\ Len(e.out) = Len(e.a) /\ CanonBytes(e.out)
                                              /\ TowerOK(e.f, EmbL(e.lvl, e.a), EmbL(e.lvl, e.b), EmbL(e.lvl, e.out), e.lvl, RawL(e.lvl, e.a), RawL(e.lvl, e.b)),
                                           "fp" \o ToString(e.lvl) \o "." \o e.f \o "." \o e.cls, IF Crash(e) THEN e.outcome ELSE "wrong-element")
ModNExp(e) == IF e.f = "add" THEN BAddMod(BFromBE(e.a), BFromBE(e.b), N) ELSE IF e.f = "sub" THEN BSubMod(BFromBE(e.a), BFromBE(e.b), N)
              ELSE IF e.f = "mul" THEN BMulMod(BFromBE(e.a), BFromBE(e.b), N) ELSE IF e.f = "inv" THEN InvN(BFromBE(e.a)) ELSE <<"?">>
ModN1(e) == IF ~(BLt(BFromBE(e.a), N) /\ BLt(BFromBE(e.b), N)) THEN Stay /\ tlast' = Verdict(e, ~Crash(e), "modn.noncanonical-input", e.outcome)
            ELSE Stay /\ tlast' = Verdict(e, e.outcome = "ok" /\ BFromBE(e.out) = ModNExp(e), "modn." \o e.f \o "." \o e.cls, IF Crash(e) THEN e.outcome ELSE "wrong-residue")
\* group operations on stored points
PairCls(a, b, neg) == IF a = Inf /\ b = Inf THEN "O+O" ELSE IF a = Inf THEN "O+Q" ELSE IF b = Inf THEN "P+O" ELSE IF a = b THEN "P=Q" ELSE IF a = neg THEN "P=-Q" ELSE "generic"
G1Valid(p) == JCanon(p) /\ G1OnCurve(Den1(p))
G2Valid(q) == Canon2(q) /\ G2OnCurve(Den2(q))
G1Exp(e, a, b) == IF e.f = "add" THEN G1Add(a, b) ELSE IF e.f = "sub" THEN G1Add(a, G1Neg(b)) ELSE IF e.f = "dbl" THEN G1Dbl(a) ELSE IF e.f = "neg" THEN G1Neg(a)
                  ELSE IF e.f = "mul" THEN G1Mul(e.k, a) ELSE IF e.f = "gmul" THEN G1Mul(e.k, GenG1) ELSE IF e.f = "affine" THEN a ELSE <<"?">>
G1Op2(e, a, b) == IF e.f = "equals" THEN Stay /\ tlast' = Verdict(e, e.outcome = "ok" /\ (e.eq = 1) = (a = b), "g1.equals." \o PairCls(a, b, G1Neg(b)) \o "." \o e.cls, IF Crash(e) THEN e.outcome ELSE "wrong-equality")
                  ELSE Stay /\ tlast' = Verdict(e, e.outcome = "ok" /\ JCanon(e.out) /\ Den1(e.out) = G1Exp(e, a, b),
                                                "g1." \o e.f \o "." \o (IF e.f \in {"add", "sub"} THEN PairCls(a, b, G1Neg(b)) \o "." ELSE "") \o e.cls, IF Crash(e) THEN e.outcome ELSE "wrong-point")
G1Op1(e) == IF ~(G1Valid(e.p) /\ G1Valid(e.q)) THEN Stay /\ tlast' = Verdict(e, ~Crash(e), "g1.invalid-input", e.outcome) ELSE G1Op2(e, Den1(e.p), Den1(e.q))
G2Exp(e, a, b) == IF e.f \in {"add", "add_full"} THEN G2Add(a, b) ELSE IF e.f = "sub" THEN G2Add(a, TNeg(b)) ELSE IF e.f = "dbl" THEN G2Dbl(a) ELSE IF e.f = "neg" THEN TNeg(a)
                  ELSE IF e.f = "mul" THEN G2Mul(e.k, a) ELSE IF e.f = "gmul" THEN G2Mul(e.k, GenG2) ELSE <<"?">>
G2Op2(e, a, b) == IF e.f = "equals" THEN Stay /\ tlast' = Verdict(e, e.outcome = "ok" /\ (e.eq = 1) = (a = b), "g2.equals." \o PairCls(a, b, TNeg(b)) \o "." \o e.cls, IF Crash(e) THEN e.outcome ELSE "wrong-equality")
                  ELSE Stay /\ tlast' = Verdict(e, e.outcome = "ok" /\ Canon2(e.out) /\ Den2(e.out) = G2Exp(e, a, b),
                                                "g2." \o e.f \o "." \o (IF e.f \in {"add", "add_full", "sub"} THEN PairCls(a, b, TNeg(b)) \o "." ELSE "") \o e.cls, IF Crash(e) THEN e.outcome ELSE "wrong-point")
G2Op1(e) == IF ~(G2Valid(e.p) /\ G2Valid(e.q)) THEN Stay /\ tlast' = Verdict(e, ~Crash(e), "g2.invalid-input", e.outcome) ELSE G2Op2(e, Den2(e.p), Den2(e.q))
\* fixed-base table walk (37 rows x 64 entries): entry(i, j) = [j * 2^(7 i)] P1
TabPt(e) == <<FromMont9(BFromBE(e.x)), FromMont9(BFromBE(e.y))>>
TabExp(e) == IF e.row = 0 /\ e.j = 1 THEN GenG1 ELSE IF e.j = 1 THEN G1Mul(<<128>>, tst.tab.base) ELSE G1Add(tst.tab.prev, tst.tab.base)
Tab2(e, x) == /\ tlast' = Verdict(e, Canon9(BFromBE(e.x)) /\ Canon9(BFromBE(e.y)) /\ TabPt(e) = x, IF e.j = 1 THEN "table.row-base" ELSE "table.entry", "wrong-table-entry")
              /\ tst' = [tab |-> [base |-> IF e.j = 1 THEN x ELSE tst.tab.base, prev |-> x]]
Tab1(e) == Tab2(e, TabExp(e))
\* Booth recoding: sum of digit_i * 2^(w i) = k, |digit| <= 2^(w-1), top digit >= 0; digits logged as [sign, magnitude]
RECURSIVE BoothSum(_,_,_,_,_)
BoothSum(ds, w, i, pos, neg) == IF i > Len(ds) THEN <<pos, neg>>
     ELSE BoothSum(ds, w, i+1, IF ds[i][1] = 0 THEN BAdd(pos, BMul(<<ds[i][2]>>, BPowMod(<<2>>, <<w * (i-1)>>, R256 \o <<0,0,0,0,0,0,0,0>>))) ELSE pos,
                               IF ds[i][1] = 1 THEN BAdd(neg, BMul(<<ds[i][2]>>, BPowMod(<<2>>, <<w * (i-1)>>, R256 \o <<0,0,0,0,0,0,0,0>>))) ELSE neg)
BoothOK2(e, s) == BFromBE(s[1]) = BAdd(BFromBE(e.k), s[2]) /\ (\A i \in 1..Len(e.digits) : e.digits[i][2] <= 2^(e.w - 1)) /\ e.digits[Len(e.digits)][1] = 0
Booth1(e) == Stay /\ tlast' = Verdict(e, e.outcome = "ok" /\ BoothOK2(e, BoothSum(e.digits, e.w, 1, Z0, Z0)), "booth.w" \o ToString(e.w) \o "." \o e.cls, IF Crash(e) THEN e.outcome ELSE "wrong-recoding")

Step(e) == IF e.op = "sm9.from_hash" THEN FromHash1(e)
           ELSE IF e.op = "sm9.hash1" THEN Hash1Ev(e)
           ELSE IF e.op = "sm9.hash2" THEN Hash2Ev(e)
           ELSE IF e.op = "sm9.extract" THEN Ext1(e)
           ELSE IF e.op = "sm9.sign" THEN Sign1(e)
           ELSE IF e.op = "sm9.verify" THEN Ver1(e)
           ELSE IF e.op = "sm9.encrypt" THEN Enc1(e)
           ELSE IF e.op = "sm9.decrypt" THEN Dec1(e)
           ELSE IF e.op = "sm9kx.1a" THEN Kx1a(e)
           ELSE IF e.op = "sm9kx.1b" THEN Kx1b(e)
           ELSE IF e.op = "sm9kx.2a" THEN Kx2a(e)
           ELSE IF e.op = "sm9.pairing" THEN PairExact(e)
           ELSE IF e.op = "sm9.pair_ident" THEN PairIdent(e)
           ELSE IF e.op = "gt.pow" THEN PairPow(e)
           ELSE IF e.op = "tower.op" THEN Tower1(e)
           ELSE IF e.op = "modn.op" THEN ModN1(e)
           ELSE IF e.op = "g1.op" THEN G1Op1(e)
           ELSE IF e.op = "g2.op" THEN G2Op1(e)
           ELSE IF e.op = "g1.table" THEN Tab1(e)
           ELSE IF e.op = "booth" THEN Booth1(e)
           ELSE Stay /\ tlast' = <<e.id, "dev", e.prop, "unknown-op", e.op>>
TInit == tpos \in {j \in 1..NEv : IsStart(j)} /\ tst = St0 /\ tlast = <<>>
TNext == tpos <= NEv /\ (tlast = <<>> \/ ~IsStart(tpos)) /\ tpos' = tpos + 1 /\ Step(Events[tpos])
Report == tlast # <<>> => PrintT(<<"V", ToJson(tlast)>>)
=============================================================================
