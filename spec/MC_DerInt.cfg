CONSTANTS B = 4
W = 4
VARIANT = "code"
INIT Init
NEXT Next
INVARIANTS RoundTrip IsDer Oversize
CHECK_DEADLOCK FALSE
