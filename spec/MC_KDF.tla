------------------------------- MODULE MC_KDF -------------------------------
(***************************************************************************)
(* L1 model of the key derivation loops of gm-sm2/src/util.rs::kdf and       *)
(* gm-sm9/src/key.rs::kdf (the two are the same code) against the L0          *)
(* definition of GB/T 32918.4 5.4.3 / GM/T 0044.4: the first klen bytes of     *)
(*   H(Z || 1) || H(Z || 2) || ...                                             *)
(* with an abstract hash of V bytes per block (block ct = <<ct*V+1 .. ct*V+V>>, *)
(* so every output byte identifies its block and position).                     *)
(* Code shape:  bound = ceil(klen / V);  for _ in 1..bound { push H(ct); ct++ }  *)
(*              last = H(ct);  if klen % V = 0 push last else push last[..klen%V] *)
(* TLC checks CodeKdf(klen) = SpecKdf(klen) for every klen in 1..MaxK (one state *)
(* per klen); VARIANT selects the code or one of the two seeded slips, which     *)
(* must be refuted:  "plus1"  bound = klen / V + 1                                *)
(*                   "droplast"  the last block is written only if klen % V # 0   *)
(* klen = 0 is outside the properties (the code returns one full block there).   *)
(***************************************************************************)
EXTENDS Naturals, Sequences
CONSTANTS V, MaxK, VARIANT
VARIABLE mk
H(ct) == [j \in 1..V |-> ct * V + j]
RECURSIVE SpecR(_, _, _)
SpecR(klen, ct, acc) == IF Len(acc) >= klen THEN SubSeq(acc, 1, klen) ELSE SpecR(klen, ct + 1, acc \o H(ct))
SpecKdf(klen) == SpecR(klen, 1, <<>>)
CeilDiv(a, b) == (a + b - 1) \div b
Bound(klen) == IF VARIANT = "plus1" THEN (klen \div V) + 1 ELSE CeilDiv(klen, V)
\* the `for _i in 1..bound` loop: bound-1 iterations (none if bound <= 1)
RECURSIVE Loop(_, _, _, _)
Loop(i, bound, ct, acc) == IF i >= bound THEN <<ct, acc>> ELSE Loop(i + 1, bound, ct + 1, acc \o H(ct))
Last(klen, st) == IF klen % V = 0 THEN (IF VARIANT = "droplast" THEN st[2] ELSE st[2] \o H(st[1]))
                  ELSE st[2] \o SubSeq(H(st[1]), 1, klen % V)
CodeKdf(klen) == Last(klen, Loop(1, Bound(klen), 1, <<>>))
Init == mk = 1
Next == mk < MaxK /\ mk' = mk + 1
Conforms == CodeKdf(mk) = SpecKdf(mk)
ExactLength == Len(CodeKdf(mk)) = mk
=============================================================================
