CONSTANTS N = 7 TIGHT = TRUE
INIT Init
NEXT Next
INVARIANTS Honest OutOfRange Forgery
CHECK_DEADLOCK FALSE
