-------------------------------- MODULE Rng --------------------------------
(***************************************************************************)
(* Rejection sampling of secret scalars (C14), as a state machine.           *)
(*   Begin(op)   a randomized operation starts                               *)
(*   Draw(c)     the generator offers candidate c (any value of the byte     *)
(*               range -- the environment/adversary chooses)                 *)
(*   the sampler Accepts c iff 1 <= c <= Order-1, otherwise it draws again    *)
(*   End(op)     the operation consumes exactly the scalar accepted during   *)
(*               this operation (never one left over from an earlier one)    *)
(* Parametric in the candidate range 0..CMax and the group order.            *)
(***************************************************************************)
EXTENDS Naturals, Sequences, FiniteSets
CONSTANTS CMax, Order, MaxDraws, BADRANGE
VARIABLES rphase, rdraws, raccepted, rused, rops
InRange(c) == c >= 1 /\ c <= Order - 1
\* the deliberately wrong sampler of the negative configuration accepts up to CMax-1 (like "c < p-1")
Accepts(c) == IF BADRANGE THEN c >= 1 /\ c < CMax ELSE InRange(c)
Init == rphase = "idle" /\ rdraws = <<>> /\ raccepted = <<>> /\ rused = <<>> /\ rops = 0
Begin == rphase = "idle" /\ rops < 2 /\ rphase' = "sampling" /\ rdraws' = <<>> /\ UNCHANGED <<raccepted, rused, rops>>
Draw(c) == /\ rphase = "sampling" /\ Len(rdraws) < MaxDraws
           /\ rdraws' = Append(rdraws, c)
           /\ IF Accepts(c) THEN raccepted' = Append(raccepted, c) /\ rphase' = "have" ELSE UNCHANGED <<raccepted, rphase>>
           /\ UNCHANGED <<rused, rops>>
End == rphase = "have" /\ rused' = Append(rused, raccepted[Len(raccepted)]) /\ rphase' = "idle" /\ rops' = rops + 1 /\ UNCHANGED <<rdraws, raccepted>>
Next == Begin \/ (\E c \in 0..CMax : Draw(c)) \/ End
\* safety: everything used is in range, was accepted, and each operation used the scalar accepted during that operation
UsedInRange == \A j \in 1..Len(rused) : InRange(rused[j])
UsedIsAccepted == Len(rused) <= Len(raccepted) /\ \A j \in 1..Len(rused) : rused[j] = raccepted[j]
OnePerOp == Len(raccepted) - Len(rused) \in {0, 1} /\ (rphase = "idle" => Len(raccepted) = Len(rused))
RejectedOutOfRange == \A j \in 1..Len(rdraws) : (j < Len(rdraws) \/ rphase = "sampling") => ~Accepts(rdraws[j])
Inv == UsedInRange /\ UsedIsAccepted /\ OnePerOp /\ RejectedOutOfRange
\* liveness (checked under fairness with a source that eventually offers an in-range value): every started operation ends
Fair == WF_<<rphase, rdraws, raccepted, rused, rops>>(End) /\ WF_<<rphase, rdraws, raccepted, rused, rops>>(\E c \in 1..(Order-1) : Draw(c))
Spec == Init /\ [][Next]_<<rphase, rdraws, raccepted, rused, rops>> /\ Fair
=============================================================================
