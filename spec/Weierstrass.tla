----------------------------- MODULE Weierstrass -----------------------------
(***************************************************************************)
(* L0: the group of points of y^2 = x^3 + WA x + WB over F_WP (WP an odd     *)
(* prime, WP = 3 mod 4 for Sqrt), in affine coordinates with the point at   *)
(* infinity Inf -- the textbook group law of GB/T 32918.1.  Field elements  *)
(* are BigNat digit tuples.  Parametric: instantiated at the SM2 parameters *)
(* (SM2.tla), at the SM9 G1 parameters and at toy curves (MC_* modules).    *)
(***************************************************************************)
EXTENDS BigNat
CONSTANTS WP, WA, WB,
          WSqrtExp             \* (WP+1)/4 for the square root (WP = 3 mod 4); checked by the ASSUME below
FAdd(a, b) == BAddMod(a, b, WP)
FSub(a, b) == BSubMod(a, b, WP)
FMul(a, b) == BMulMod(a, b, WP)
FNeg(a) == BSubMod(BZero, a, WP)
FSqr(a) == BMulMod(a, a, WP)
FInv(a) == BPowMod(a, BSub(WP, <<2>>), WP)                     \* Fermat; 0 -> 0
Inf == <<"inf">>
IsField(a) == BLt(a, WP)
Rhs(x) == FAdd(FAdd(FMul(FSqr(x), x), FMul(WA, x)), WB)
OnCurve(pt) == pt = Inf \/ (IsField(pt[1]) /\ IsField(pt[2]) /\ FSqr(pt[2]) = Rhs(pt[1]))
Neg(pt) == IF pt = Inf THEN Inf ELSE <<pt[1], FNeg(pt[2])>>
\* chord-and-tangent, parameter-passing style (each sub-result evaluated once)
StepL(p, lam, x3) == <<x3, FSub(FMul(lam, FSub(p[1], x3)), p[2])>>
DblM(p, lam) == StepL(p, lam, FSub(FSub(FSqr(lam), p[1]), p[1]))
Dbl(p) == IF p = Inf \/ p[2] = BZero THEN Inf ELSE DblM(p, FMul(FAdd(FMul(<<3>>, FSqr(p[1])), WA), FInv(FMul(<<2>>, p[2]))))
AddM(p, q, lam) == StepL(p, lam, FSub(FSub(FSqr(lam), p[1]), q[1]))
PAdd(p, q) == IF p = Inf THEN q ELSE IF q = Inf THEN p
              ELSE IF p[1] = q[1] THEN (IF p[2] = q[2] THEN Dbl(p) ELSE Inf)
              ELSE AddM(p, q, FMul(FSub(q[2], p[2]), FInv(FSub(q[1], p[1]))))
PSub(p, q) == PAdd(p, Neg(q))
\* scalar multiple [k]P by double-and-add over the bytes of k (big-endian byte sequence of any length); chunked recursion
RECURSIVE SMBits(_,_,_,_)
SMBits(acc, p, byte, b) == IF b < 0 THEN acc ELSE SMBits(IF (byte \div (2^b)) % 2 = 1 THEN PAdd(Dbl(acc), p) ELSE Dbl(acc), p, byte, b-1)
RECURSIVE SMBytes(_,_,_,_)
SMBytes(acc, p, kb, j) == IF j > Len(kb) THEN acc ELSE SMBytes(SMBits(acc, p, kb[j], 7), p, kb, j+1)
ScalarMulBytes(kb, p) == SMBytes(Inf, p, kb, 1)
ScalarMul(k, p) == ScalarMulBytes(k, p)                          \* k as canonical digits works as well (digits = bytes)
\* square root for WP = 3 mod 4: <<"ok", r>> or <<"none">>
SqrtR(a, r) == IF FSqr(r) = a THEN <<"ok", r>> ELSE <<"none">>
ASSUME BMul(WSqrtExp, <<4>>) = BAdd(WP, <<1>>)
Sqrt(a) == SqrtR(a, BPowMod(a, WSqrtExp, WP))
Parity(y) == IF y = BZero THEN 0 ELSE y[Len(y)] % 2
\* point with abscissa x and the given parity of y, if any
Lift2(x, ybit, r) == IF r[1] = "none" THEN <<"none">> ELSE <<"ok", <<x, IF Parity(r[2]) = ybit THEN r[2] ELSE FNeg(r[2])>>>>
Lift(x, ybit) == Lift2(x, ybit, Sqrt(Rhs(x)))
=============================================================================
