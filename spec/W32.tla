------------------------------- MODULE W32 -------------------------------
(***************************************************************************)
(* 32-bit words for TLC.  TLC integers are 32-bit signed, so a word is the  *)
(* pair <<hi16, lo16>>; every intermediate value stays below 2^31.          *)
(* Bitwise (&, |, ^^) comes from the CommunityModules (Java overrides).     *)
(***************************************************************************)
EXTENDS Naturals, Sequences, Bitwise
M16 == 65536
WXor(a, b)  == <<a[1] ^^ b[1], a[2] ^^ b[2]>>
WXor3(a, b, c) == <<(a[1] ^^ b[1]) ^^ c[1], (a[2] ^^ b[2]) ^^ c[2]>>
WAnd(a, b)  == <<a[1] & b[1], a[2] & b[2]>>
WOr(a, b)   == <<a[1] | b[1], a[2] | b[2]>>
WNot(a)     == <<65535 - a[1], 65535 - a[2]>>
WAddLo(hi, lo) == <<(hi + (lo \div M16)) % M16, lo % M16>>
WAdd(a, b)  == WAddLo(a[1] + b[1], a[2] + b[2])                       \* mod 2^32
WAdd3(a, b, c) == WAddLo(a[1] + b[1] + c[1], a[2] + b[2] + c[2])
WAdd4(a, b, c, d) == WAddLo(a[1] + b[1] + c[1] + d[1], a[2] + b[2] + c[2] + d[2])
WRotP(a, p, q) == << ((a[1] * p) % M16) + (a[2] \div q), ((a[2] * p) % M16) + (a[1] \div q) >>
WRotS(a, r) == IF r = 0 THEN a ELSE WRotP(a, 2^r, 2^(16-r))
WRotl(a, r) == IF (r % 32) < 16 THEN WRotS(a, r % 32) ELSE WRotS(<<a[2], a[1]>>, (r % 32) - 16)
\* logical shifts by 0..32
Shl16(x, r) == (x * (2^r)) % M16
WShl(a, r) == IF r = 0 THEN a ELSE IF r >= 32 THEN <<0,0>> ELSE IF r < 16 THEN << Shl16(a[1], r) + (a[2] \div (2^(16-r))), Shl16(a[2], r) >>
              ELSE IF r = 16 THEN << a[2], 0 >> ELSE << Shl16(a[2], r-16), 0 >>
WShr(b, s) == IF s >= 32 THEN <<0,0>> ELSE IF s = 0 THEN b ELSE IF s < 16 THEN << b[1] \div (2^s), ((b[1] % (2^s)) * (2^(16-s))) + (b[2] \div (2^s)) >>
              ELSE IF s = 16 THEN << 0, b[1] >> ELSE << 0, b[1] \div (2^(s-16)) >>
\* big-endian bytes <-> word
WOfBytes(b, o) == << b[o+1]*256 + b[o+2], b[o+3]*256 + b[o+4] >>
WBytes(w) == << w[1] \div 256, w[1] % 256, w[2] \div 256, w[2] % 256 >>
IsWord(w) == w \in (0..65535) \X (0..65535)
=============================================================================
