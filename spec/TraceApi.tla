------------------------------ MODULE TraceApi ------------------------------
(* Trace specification for C20: each recorded call (under panic capture and a watchdog) must have an outcome the total
   specification function allows: ok or err, and err where a length rule demands it.  e.len = length of the untrusted argument. *)
EXTENDS Api, Json, IOUtils, TLC
Events == ndJsonDeserialize(IOEnv.TRACE)
NEv == Len(Events)
VARIABLES tpos, tlast
FaultCls(f) == IF f \in {"zeros", "ones", "random"} THEN "content" ELSE f
LenCls(n) == IF n = 0 THEN "len0" ELSE IF n < 16 THEN "len<16" ELSE IF n < 33 THEN "len<33" ELSE IF n < 98 THEN "len<98" ELSE "len>=98"
Verdict(e) == <<e.id, IF Allowed(e.op, e.len, e.outcome) THEN "ok" ELSE "dev", "C20", e.op \o "." \o FaultCls(e.fault) \o "." \o (IF e.op = "sm9.from_hash" /\ e.len < 40 THEN "len<40" ELSE LenCls(e.len)),
                IF Allowed(e.op, e.len, e.outcome) THEN "-" ELSE IF e.outcome \in {"panic", "timeout"} THEN e.outcome ELSE "accepted-bad-length">>
TInit == tpos \in 1..NEv /\ tlast = <<>>
TNext == tlast = <<>> /\ tpos' = tpos /\ tlast' = Verdict(Events[tpos])
Report == tlast # <<>> => PrintT(<<"V", ToJson(tlast)>>)
=============================================================================
