CONSTANTS P = 23 B = 15 RR = 32 DROP = "zero"
INIT Init
NEXT Next
INVARIANT Inv
CHECK_DEADLOCK FALSE
