CONSTANTS TOTAL = 7 ZMAX = 2
INIT Init
NEXT Next
INVARIANT Inv
CHECK_DEADLOCK FALSE
