------------------------------ MODULE MC_DerInt ------------------------------
(***************************************************************************)
(* L1 model of the INTEGER shaping in the GM/T 0009 ciphertext SEQUENCE      *)
(* (gm-sm2/src/key.rs encrypt_asn1 / decrypt_asn1) against L0 = the W-digit   *)
(* big-endian string of the coordinate (I2OSP), at toy width: digits base B,  *)
(* W digits.  Encoder: minimal big-endian digits of the value (leading zero    *)
(* digits dropped, 0 -> <<0>>), a 0 sign digit in front if the top digit has   *)
(* its high bit set.  Decoder (code shape): drop the sign digit, minimal       *)
(* digits again, reject more than W digits, LEFT-pad with zeros to W.           *)
(* TLC enumerates every value 0 .. B^W - 1:  Decode(Encode(I2OSP(v))) = I2OSP(v) *)
(* and the encoding is the DER one (minimal, non-negative).                     *)
(* VARIANT: "code" | "rightpad" (Vec::resize appends) | "onezero" (restores at   *)
(* most one dropped zero digit) -- the two seeded slips, which must be refuted.  *)
(***************************************************************************)
EXTENDS Naturals, Sequences
CONSTANTS B, W, VARIANT
VARIABLE dv
RECURSIVE Digits(_, _)
Digits(v, n) == IF n = 0 THEN <<>> ELSE Append(Digits(v \div B, n - 1), v % B)        \* I2OSP(v, n)
RECURSIVE Strip(_)
Strip(s) == IF Len(s) > 1 /\ s[1] = 0 THEN Strip(Tail(s)) ELSE s                        \* minimal digits, <<0>> for zero
Value(s) == IF s = <<>> THEN 0 ELSE LET RECURSIVE Val(_, _)
                                        Val(t, acc) == IF t = <<>> THEN acc ELSE Val(Tail(t), acc * B + t[1])
                                    IN Val(s, 0)
Encode(coord) == LET m == Strip(coord) IN IF m[1] >= B \div 2 THEN <<0>> \o m ELSE m    \* DER content digits of INTEGER
Zeros(k) == [j \in 1..k |-> 0]
Pad(m) == IF VARIANT = "rightpad" THEN m \o Zeros(W - Len(m))
          ELSE IF VARIANT = "onezero" THEN (IF Len(m) < W THEN <<0>> \o m ELSE m)
          ELSE Zeros(W - Len(m)) \o m
Decode(der) == LET m == Strip(der) IN IF Len(m) > W THEN <<"reject">> ELSE Pad(m)      \* BigUint::to_bytes_be of the parsed INTEGER, then the padding
Coord == Digits(dv, W)
Init == dv = 0
Next == dv < B^W - 1 /\ dv' = dv + 1
RoundTrip == Decode(Encode(Coord)) = Coord
IsDer == LET e == Encode(Coord) IN /\ Value(e) = dv /\ e[1] < B \div 2 /\ (Len(e) > 1 /\ e[1] = 0 => e[2] >= B \div 2)
\* an over-long INTEGER (one more significant digit than W) is rejected
Oversize == Decode(<<1>> \o Coord) = <<"reject">>
=============================================================================
