CONSTANTS W = 2 R = 4 BAD = TRUE
INIT Init
NEXT Next
INVARIANT Inverse
CHECK_DEADLOCK FALSE
