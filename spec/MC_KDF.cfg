CONSTANTS V = 4
MaxK = 40
VARIANT = "code"
INIT Init
NEXT Next
INVARIANTS Conforms ExactLength
CHECK_DEADLOCK FALSE
