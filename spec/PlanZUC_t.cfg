CONSTANTS TOTAL = 12 ZMAX = 2
INIT PInit
NEXT PNext
INVARIANT Emit
CHECK_DEADLOCK FALSE
