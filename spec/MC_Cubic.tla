------------------------------ MODULE MC_Cubic ------------------------------
(* Toy-exhaustive check of Cubic.tla: for every prime P = 3 (mod 4) below 100 (and 251), every A and every c, the answer of CubicRoot is
   right -- <<"ok", x>> is a root, <<"none">> means there is none, <<"split">> means the cubic has three distinct roots (or the degenerate
   x^3 = x^P cases in which every residue class of the gcd is a root). *)
EXTENDS BigNat, Naturals, Sequences, FiniteSets, TLC
Nat2B(n) == IF n = 0 THEN <<>> ELSE <<n>>
Cb(p, a) == INSTANCE Cubic WITH CP <- Nat2B(p), CA <- Nat2B(a), CSqrtExp <- Nat2B((p + 1) \div 4)
Primes == {7, 11, 19, 23, 31, 43, 47, 59, 67, 71, 79, 83, 251}
Fn(p, a, c, x) == (x * x * x + a * x + c) % p
Roots(p, a, c) == {x \in 0..(p - 1) : Fn(p, a, c, x) = 0}
Right(p, a, c, r) == IF r[1] = "ok" THEN r[2] \in {Nat2B(x) : x \in Roots(p, a, c)}
                     ELSE IF r[1] = "none" THEN Roots(p, a, c) = {}
                     ELSE Cardinality(Roots(p, a, c)) = 3
VARIABLES mp, ma
Init == mp \in Primes /\ ma \in 0..(mp - 1)
Next == UNCHANGED <<mp, ma>>
AllRight == \A c \in 0..(mp - 1) : Right(mp, ma, c, Cb(mp, ma)!CubicRoot(Nat2B(c)))
\* the three outcomes all occur (the invariant is not vacuous): counted over the model by the evidence (classes printed once per prime)
Seen == ma # 0 \/ PrintT(<<"CUBIC", mp, Cardinality({c \in 0..(mp - 1) : Cb(mp, 1)!CubicRoot(Nat2B(c))[1] = "ok"}),
                                         Cardinality({c \in 0..(mp - 1) : Cb(mp, 1)!CubicRoot(Nat2B(c))[1] = "none"}),
                                         Cardinality({c \in 0..(mp - 1) : Cb(mp, 1)!CubicRoot(Nat2B(c))[1] = "split"})>>)
=============================================================================
