----------------------------- MODULE PlanSM2Sig -----------------------------
(***************************************************************************)
(* E2 plan for C03/C04: the SPECIFICATION acts as an independent signer and *)
(* as a forger.  For NK deterministic (d, k) pairs it prints                 *)
(*   spec-made signatures (API level: uid, message)  -> must be accepted;   *)
(*   crafted digest-level cases, each valid or invalid BY CONSTRUCTION:     *)
(*     small-s:  valid (r, s0) with s0 < 2^40, and (r, s0 + n)   [s >= n]    *)
(*     small-r:  valid (r0, s) with r0 < 2^40, and (r0 + n, s)   [r >= n]    *)
(*     t=0:      (r, n - r) with e chosen so that ONLY the t = 0 test can    *)
(*               reject (x([s]G) + e = r mod n)                              *)
(* The library is then driven with these bytes; TraceSM2 judges.             *)
(***************************************************************************)
EXTENDS SM2, Json
CONSTANT NK
VARIABLES pidx, pout
Seed(j, tag) == Hash(<<j, tag, 83, 77, 50>>)
Dof(j) == BAdd(BMod(BFromBE(Seed(j, 1)), BSub(NN, <<2>>)), <<1>>)          \* in [1, n-2]
Kof(j) == BAdd(BMod(BFromBE(Seed(j, 2)), BSub(NN, <<1>>)), <<1>>)          \* in [1, n-1]
Small(j, tag) == BAdd(BFromBE(SubSeq(Seed(j, tag), 1, 5)), <<1>>)
Uid(j) == IF j % 3 = 0 THEN ID16 ELSE [q \in 1..((j * 5) % 33) |-> 33 + (Seed(j, 3)[q] % 94)]        \* printable ASCII (the API takes a str)
Msg(j) == SubSeq(Seed(j, 4) \o Seed(j, 5) \o Seed(j, 6), 1, (j * 11) % 97)
PkBytes(pt) == EncodePoint(pt, FALSE)
\* honest spec-made signature
Honest3(j, d, pt, sg) == [kind |-> "specsig", d |-> B32(d), pk |-> PkBytes(pt), uid |-> Uid(j), msg |-> Msg(j), sig |-> SigBytes(sg), ok |-> sg[1]]
Honest2(j, d, pt) == Honest3(j, d, pt, SignDigest(d, EDigest(Uid(j), pt, Msg(j)), Kof(j)))
Honest(j) == Honest2(j, Dof(j), MulN(Dof(j), G))
\* small s: r = (k - s0 (1+d)) d^-1, e = r - x1
Forge4(tag, pt, e, r, s, valid) == [kind |-> "forge", fault |-> tag, pk |-> PkBytes(pt), e |-> B32(e), r |-> BToBE(r, 33), s |-> BToBE(s, 33), valid |-> valid]
SmallS3(j, d, pt, s0, r, x1) == << Forge4("small-s", pt, BSubMod(r, x1, NN), r, s0, VerifyRS(pt, BSubMod(r, x1, NN), r, s0)),
                                   Forge4("s+n", pt, BSubMod(r, x1, NN), r, BAdd(s0, NN), FALSE) >>
SmallS2(j, d, pt, s0, k) == SmallS3(j, d, pt, s0, BMulMod(BSubMod(k, BMulMod(s0, BAddMod(<<1>>, d, NN), NN), NN), InvN(d), NN), MulN(k, G)[1])
SmallS(j) == SmallS2(j, Dof(j), MulN(Dof(j), G), Small(j, 7), Kof(j))
SmallR3(j, d, pt, r0, e, s) == << Forge4("small-r", pt, e, r0, s, VerifyRS(pt, e, r0, s)), Forge4("r+n", pt, e, BAdd(r0, NN), s, FALSE) >>
SmallR2(j, d, pt, r0, k) == SmallR3(j, d, pt, r0, BSubMod(r0, MulN(k, G)[1], NN), SignS(d, k, r0))
SmallR(j) == SmallR2(j, Dof(j), MulN(Dof(j), G), Small(j, 8), Kof(j))
\* [s]G + [t]P = O:  t = -s d^-1, r = t - s, e = r  -- only the holder of d can build it; there is no x1, so it is not a valid signature
\* ... with the digests for which a verifier that MISSES the infinity would accept: e = r (x1 read as 0), e = r - x([2s]G) (P + (-P) computed as a
\* doubling), e = r - x([s]G), e = r - x([t]P) (one operand returned)
InfCase3(j, pt, r, s) == << Forge4("sum-is-infinity", pt, r, r, s, VerifyRS(pt, r, r, s)),
                            Forge4("sum-is-infinity", pt, BSubMod(r, BMod(MulN(BAddMod(s, s, NN), G)[1], NN), NN), r, s, FALSE),
                            Forge4("sum-is-infinity", pt, BSubMod(r, BMod(MulN(s, G)[1], NN), NN), r, s, FALSE),
                            Forge4("sum-is-infinity", pt, BSubMod(r, BMod(MulN(BAddMod(r, s, NN), pt)[1], NN), NN), r, s, FALSE) >>
InfCase2(j, d, pt, s, t) == InfCase3(j, pt, BSubMod(t, s, NN), s)
InfCase(j) == InfCase2(j, Dof(j), MulN(Dof(j), G), Small(j, 12), BSubMod(BZero, BMulMod(Small(j, 12), InvN(Dof(j)), NN), NN))
\* digests that force each retry branch of the signer for the nonce k:  r = 0;  r + k = n;  s = 0 (k = r d)
Retry(j, tag, d, k, e) == [kind |-> "signretry", fault |-> tag, d |-> B32(d), k |-> B32(k), e |-> B32(e), isretry |-> SignDigest(d, B32(e), k)[1]]
RetryCases2(j, d, k, x1) == << Retry(j, "r=0", d, k, BSubMod(BZero, x1, NN)),
                               Retry(j, "r+k=n", d, k, BSubMod(BSubMod(NN, k, NN), x1, NN)),
                               Retry(j, "s=0", d, k, BSubMod(BMulMod(k, InvN(d), NN), x1, NN)) >>
RetryCases(j) == RetryCases2(j, Dof(j), Kof(j), BMod(MulN(Kof(j), G)[1], NN))
\* near misses: r' = r xor 2^b with s' = (1+d)^-1 (k - r' d), so that [s']G + [t']P = [k]G and the recomputed R equals r, which differs
\* from r' in exactly one bit -- only a comparison of ALL 256 bits rejects every one of them (weak / partial comparisons accept some)
BitFlip(r, b) == BFromBE([q \in 1..32 |-> IF q = 32 - (b \div 8) THEN B32(r)[q] ^^ (2^(b % 8)) ELSE B32(r)[q]])
NearOne(pt, d, k, e, r2) == Forge4("near-miss", pt, e, r2, SignS(d, k, r2), FALSE)
NearMiss3(j, pt, d, k, e, r) == [b \in 1..256 |-> NearOne(pt, d, k, e, BitFlip(r, b - 1))]
NearMiss2(j, pt, d, k, e) == NearMiss3(j, pt, d, k, e, BAddMod(e, MulN(k, G)[1], NN))
NearMiss(j) == IF j = 1 THEN NearMiss2(j, MulN(Dof(j), G), Dof(j), Kof(j), BMod(BFromBE(Seed(j, 13)), NN)) ELSE <<>>
TZero2(j, pt, r, s) == << Forge4("t=0", pt, BSubMod(r, MulN(s, G)[1], NN), r, s, FALSE) >>
TZero(j) == TZero2(j, MulN(Dof(j), G), Kof(j), BSub(NN, Kof(j)))
\* zero components, CONSISTENT by construction (no private key needed): (r, 0) with e = r - x([r]P), and (0, s) with e = -x([s](G + P));
\* the recomputed R equals r, so only the range tests 1 <= r, s <= n-1 reject them.  Also with n in place of 0.
ZeroS3(j, pt, r, x1) == << Forge4("s=0", pt, BSubMod(r, x1, NN), r, BZero, FALSE), Forge4("s=n", pt, BSubMod(r, x1, NN), r, NN, FALSE) >>
ZeroS2(j, pt, r) == ZeroS3(j, pt, r, BMod(MulN(r, pt)[1], NN))
ZeroR3(j, pt, s, x1) == << Forge4("r=0", pt, BSubMod(BZero, x1, NN), BZero, s, FALSE), Forge4("r=n", pt, BSubMod(BZero, x1, NN), NN, s, FALSE) >>
ZeroR2(j, pt, s) == ZeroR3(j, pt, s, BMod(MulN(s, C!PAdd(G, pt))[1], NN))
ZeroCases(j) == ZeroS2(j, MulN(Dof(j), G), Kof(j)) \o ZeroR2(j, MulN(Dof(j), G), Kof(j))
\* VALID digest-level signatures whose t = r + s has all-zero 64-bit limbs (the scalar of [t]P in verification): r = t (1 + d) - k, e = r - x([k]G), s = t - r
Pow2(bytes) == BFromBE(<<1>> \o [q \in 1..bytes |-> 0])
SparseTs(j) == << Pow2(8), Pow2(16), Pow2(24), BAdd(Pow2(24), <<1>>), BAdd(Pow2(16), Small(j, 14)), BAdd(Pow2(24), BMul(Pow2(8), Small(j, 15))), BAdd(BMul(Pow2(16), Small(j, 16)), <<7>>) >>
SparseT3(j, pt, t, r, x1) == Forge4("sparse-t", pt, BSubMod(r, x1, NN), r, BSubMod(t, r, NN), VerifyRS(pt, BSubMod(r, x1, NN), r, BSubMod(t, r, NN)))
SparseT2(j, d, k, t) == SparseT3(j, MulN(d, G), t, BSubMod(BMulMod(t, BAddMod(<<1>>, d, NN), NN), k, NN), BMod(MulN(k, G)[1], NN))
SparseT(j) == IF j > 2 THEN <<>> ELSE [q \in 1..Len(SparseTs(j)) |-> SparseT2(j, Dof(j), Kof(j), SparseTs(j)[q])]
\* VALID digest-level signatures at the ends of the component ranges: s = n-1, s = 1, r = n-1, r = 1 (must be accepted).
\*   s = sv:  r = (k - sv (1 + d)) d^-1, e = r - x1;      r = rv:  e = rv - x1, s = (1+d)^-1 (k - rv d)
EdgeS(j, d, k, sv, x1) == Forge4("edge-valid", MulN(d, G), BSubMod(BMulMod(BSubMod(k, BMulMod(sv, BAddMod(<<1>>, d, NN), NN), NN), InvN(d), NN), x1, NN),
                                 BMulMod(BSubMod(k, BMulMod(sv, BAddMod(<<1>>, d, NN), NN), NN), InvN(d), NN), sv,
                                 VerifyRS(MulN(d, G), BSubMod(BMulMod(BSubMod(k, BMulMod(sv, BAddMod(<<1>>, d, NN), NN), NN), InvN(d), NN), x1, NN),
                                          BMulMod(BSubMod(k, BMulMod(sv, BAddMod(<<1>>, d, NN), NN), NN), InvN(d), NN), sv))
EdgeR(j, d, k, rv, x1) == Forge4("edge-valid", MulN(d, G), BSubMod(rv, x1, NN), rv, SignS(d, k, rv), VerifyRS(MulN(d, G), BSubMod(rv, x1, NN), rv, SignS(d, k, rv)))
EdgeCases(j) == IF j > 2 THEN <<>> ELSE
   << EdgeS(j, Dof(j), Kof(j), BSub(NN, <<1>>), BMod(MulN(Kof(j), G)[1], NN)), EdgeS(j, Dof(j), Kof(j), <<1>>, BMod(MulN(Kof(j), G)[1], NN)),
      EdgeR(j, Dof(j), Kof(j), BSub(NN, <<1>>), BMod(MulN(Kof(j), G)[1], NN)), EdgeR(j, Dof(j), Kof(j), <<1>>, BMod(MulN(Kof(j), G)[1], NN)) >>
\* the public keys G (d = 1) and -G (no private key in range gives it, but it is a valid curve point): for any nonce k, with R = e + x([k]G), the pair
\* (r, s) = (R, (k - R)/2) is a VALID signature under G -- and must be rejected under -G, where [s]G + [t](-G) = [-R]G.  A multiplication that
\* recognises the generator by its x coordinate alone computes [t]G for both.  Also e >= n (a digest is any 256-bit string; the group order is below 2^256).
GenKey3(j, pt, e, rr, ss) == Forge4(IF pt = G THEN "gen-key" ELSE "neg-gen-key", pt, e, rr, ss, VerifyRS(pt, e, rr, ss))
GenKey2(j, e, k, rr) == << GenKey3(j, G, e, rr, BMulMod(BSubMod(k, rr, NN), InvN(<<2>>), NN)), GenKey3(j, C!Neg(G), e, rr, BMulMod(BSubMod(k, rr, NN), InvN(<<2>>), NN)) >>
GenKey(j) == IF j > 2 THEN <<>> ELSE GenKey2(j, BMod(BFromBE(Seed(j, 17)), NN), Kof(j), BAddMod(BMod(BFromBE(Seed(j, 17)), NN), MulN(Kof(j), G)[1], NN))
BigEs == << NN, BAdd(NN, <<1>>), BSub(BFromBE(<<1>> \o [q \in 1..32 |-> 0]), <<1>>), BSub(NN, <<1>>) >>
BigE3(j, d, pt, e, rr) == Forge4("big-e", pt, e, rr, SignS(d, Kof(j), rr), VerifyRS(pt, e, rr, SignS(d, Kof(j), rr)))
BigE2(j, d, e) == BigE3(j, d, MulN(d, G), e, BAddMod(BMod(e, NN), MulN(Kof(j), G)[1], NN))
BigE(j) == IF j > 1 THEN <<>> ELSE [q \in 1..Len(BigEs) |-> BigE2(j, Dof(j), BigEs[q])]
Init == pidx = 0 /\ pout = <<>>
Next == pidx < NK /\ pidx' = pidx + 1 /\ pout' = <<Honest(pidx + 1)>> \o SmallS(pidx + 1) \o SmallR(pidx + 1) \o TZero(pidx + 1) \o InfCase(pidx + 1) \o RetryCases(pidx + 1) \o NearMiss(pidx + 1) \o ZeroCases(pidx + 1) \o SparseT(pidx + 1) \o EdgeCases(pidx + 1) \o GenKey(pidx + 1) \o BigE(pidx + 1)
Emit == \A j \in 1..Len(pout) : PrintT(<<"PLAN", ToJson(pout[j])>>)
=============================================================================
