----------------------------- MODULE MC_ZUCJump -----------------------------
(* JumpLFSR(s, n) equals n applications of LFSRWork (ZUC.tla) for the register loaded from the three official keys / IVs and from edge registers
   (all cells 2^31-1, all cells 1), for every n in 0..40 and for a set of larger n (powers of two and neighbours up to 4099). *)
EXTENDS ZUC, ZUCJump, TLC
RECURSIVE StepN(_, _)
StepN(zs, n) == IF zs.r1 = zs.r1 /\ n = 0 THEN zs ELSE StepN(LFSRWork(zs), n - 1)
Regs == << Load(Zero16, Zero16).s, Load(FF16, FF16).s, Load(<<61,76,75,233,106,130,253,174,181,143,100,29,177,123,69,91>>, <<132,49,154,168,222,105,21,202,31,107,218,107,251,216,199,102>>).s,
           [j \in 1..16 |-> 2147483647], [j \in 1..16 |-> 1], [j \in 1..16 |-> IF j % 2 = 0 THEN 2147483647 ELSE j] >>
CONSTANT Quick
Ns == IF Quick THEN {0, 1, 2, 15, 16, 17, 33, 64, 129, 1025} ELSE (0..40) \cup {63, 64, 65, 127, 128, 129, 255, 256, 1023, 1025, 4096, 4099}
VARIABLES mreg, mn
Init == mreg \in (IF Quick THEN {2, 3, 6} ELSE 1..Len(Regs)) /\ mn \in Ns
Next == UNCHANGED <<mreg, mn>>
Agree == JumpLFSR(Regs[mreg], mn) = StepN([s |-> Regs[mreg], r1 |-> <<0,0>>, r2 |-> <<0,0>>], mn).s
=============================================================================
