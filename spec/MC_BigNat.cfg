CONSTANT Small = FALSE
INIT Init
NEXT Next
INVARIANT Inv
CHECK_DEADLOCK FALSE
