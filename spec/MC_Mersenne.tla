---------------------------- MODULE MC_Mersenne ----------------------------
(***************************************************************************)
(* E1 for C08: arithmetic modulo the Mersenne number 2^W - 1 as ZUC's LFSR  *)
(* uses it, for EVERY pair of operands at toy width W (the real W is 31).   *)
(*  - L0: AddM(a,b) = (a+b) mod (2^W-1) with 0 written as 2^W-1 when the     *)
(*    operands are non-zero representatives;                                 *)
(*  - L1a: the specification's overflow-free Add31 shape;                    *)
(*  - L1b: the code's add31: c = a+b (wrapping W+1 bits); (c & M) + (c>>W);   *)
(*  - rotation by k = multiplication by 2^k modulo 2^W-1.                     *)
(***************************************************************************)
EXTENDS Naturals, TLC
CONSTANT W
MW == 2^W - 1
VARIABLES ma, mb
Init == ma = 0 /\ mb = 0
Next == \/ mb < MW /\ mb' = mb + 1 /\ ma' = ma
        \/ mb = MW /\ ma < MW /\ ma' = ma + 1 /\ mb' = 0
SpecAdd(a, b) == IF a >= MW - b THEN a - (MW - b) ELSE a + b
CodeAdd(a, b) == (((a + b) % (2^(W+1))) % (2^W)) + (((a + b) % (2^(W+1))) \div (2^W))     \* (c & 0x7FFFFFFF) + (c >> 31), c on W+1 bits
Rot(a, r) == ((a % (2^(W-r))) * (2^r)) + (a \div (2^(W-r)))
Canon(x) == x % MW                                     \* residue class: 0 and MW both denote 0
AddOK == /\ Canon(SpecAdd(ma, mb)) = (ma + mb) % MW
         /\ Canon(CodeAdd(ma, mb)) = (ma + mb) % MW
         /\ SpecAdd(ma, mb) \in 0..MW /\ CodeAdd(ma, mb) \in 0..MW
         /\ (ma # 0 /\ mb # 0 => CodeAdd(ma, mb) # 0)     \* the code keeps non-zero representatives non-zero (its s16 = 0 fix-up is dead code); the spec form may return 0 and is fixed by Fix0
RotOK == \A r \in 1..(W-1) : Canon(Rot(ma, r)) = (ma * (2^r)) % MW /\ Rot(ma, r) \in 0..MW
Inv == AddOK /\ RotOK
=============================================================================
