CONSTANTS P = 13 BUGGY = TRUE
INIT Init
NEXT Next
INVARIANTS Fp2MulOk Fp2InvOk Fp4InvOk Fp4MulOk
CHECK_DEADLOCK FALSE
