--------------------------- MODULE AnchorSM2Codec ---------------------------
(* Anchors SM2Codec against the committed OpenSSL-3.0-made documents: SPKI / PKCS#8 DER of the corpus key, the PEM armor, and the
   18 GM/T 0009 DER ciphertexts (decode, re-encode byte-identically, and decrypt with the corpus private key). *)
EXTENDS SM2Codec, Json
Vec == ndJsonDeserialize("../corpus/sm2_enc_openssl_der.ndjson")
PemDoc == ndJsonDeserialize("../corpus/sm2_pem_bytes.ndjson")
VARIABLES apos, afin
Init == apos \in 1..Len(Vec) /\ afin = FALSE
Next == ~afin /\ afin' = TRUE /\ apos' = apos
DK == PemDoc[1].d
PKpt == PubOf(DK)
ASSUME Spki(PKpt) = PemDoc[1].spki_der
ASSUME Pkcs8(BFromBE(DK), PKpt) = PemDoc[1].pkcs8_der
ASSUME Pem(LabelPub, PemDoc[1].spki_der) = PemDoc[1].spki_pem
ASSUME Pem(LabelPriv, PemDoc[1].pkcs8_der) = PemDoc[1].pkcs8_pem
ASSUME SpkiDecode(PemDoc[1].spki_der) = <<"ok", PKpt>> /\ Pkcs8Decode(PemDoc[1].pkcs8_der) = <<"ok", DK>>
ASSUME HexDecode(HexEncode(DK)) = <<"ok", DK>>
OkAt(v, dc, pt) == dc[1] = "ok" /\ EncCipher(dc[2], dc[3], dc[4], dc[5]) = v.der /\ Len(dc[5]) = v.mlen /\ pt[1] = "ok" /\ Len(pt[2]) = v.mlen
AnchorOK == afin => OkAt(Vec[apos], DecCipher(Vec[apos].der), DecryptDer(BFromBE(DK), Vec[apos].der))
=============================================================================
