INIT Init
NEXT Next
INVARIANT Agree
CONSTANT Quick = FALSE
CHECK_DEADLOCK FALSE
