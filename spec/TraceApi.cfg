INIT TInit
NEXT TNext
INVARIANT Report
CHECK_DEADLOCK FALSE
