CONSTANTS N = 7 MODE = "enc" NOMAC = FALSE NOCURVE = TRUE
INIT Init
NEXT Next
INVARIANT Inv
CHECK_DEADLOCK FALSE
