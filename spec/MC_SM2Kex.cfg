CONSTANTS n = 7 INF_OK = FALSE
INIT Init
NEXT Next
INVARIANTS Honest HonestDegenerate AcceptA AcceptB Agree OffCurve Infinity
CHECK_DEADLOCK FALSE
