CONSTANTS B = 4
W = 4
VARIANT = "rightpad"
INIT Init
NEXT Next
INVARIANTS RoundTrip IsDer Oversize
CHECK_DEADLOCK FALSE
