CONSTANTS n = 7 INF_OK = TRUE
INIT Init
NEXT Next
INVARIANTS Infinity
CHECK_DEADLOCK FALSE
