CONSTANTS MaxLen = 7 Keys = {0, 5, 11, 43, 64, 77, 100, 127} LocalMax = 5 BADCTR = FALSE
INIT Init
NEXT Next
INVARIANT Inv
CHECK_DEADLOCK FALSE
