CONSTANT NK = 4
INIT Init
NEXT Next
INVARIANT Emit
CHECK_DEADLOCK FALSE
